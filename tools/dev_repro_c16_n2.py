"""DEVELOPMENT TOOL - executes GETTSIM. Reproduces rule N2 of C16: losses entered as negative income are
credited as *negative income*, so the benefit exceeds the need computed from the parameters."""
import warnings; warnings.filterwarnings("ignore")
import pandas as pd
from gettsim import compute_taxes_and_transfers, set_up_policy_environment
from _gettsim.config import TYPES_INPUT_VARIABLES


def base(year):
    d={k: pd.Series([{float:0.0,int:0,bool:False}.get(t, 0)]) for k,t in TYPES_INPUT_VARIABLES.items() if t in (float,int,bool)}
    for k,t in TYPES_INPUT_VARIABLES.items():
        if k not in d: d[k]=pd.Series(pd.to_datetime(["1980-01-01"]))
    for k in d:
        if k.startswith("p_id_"): d[k]=pd.Series([-1])
    d["geburtsjahr"]=pd.Series([1980]); d["alter"]=pd.Series([year-1980]); d["geburtsmonat"]=pd.Series([1]); d["geburtstag"]=pd.Series([1]); d["jahr_renteneintr"]=pd.Series([2047]); d["monat_renteneintr"]=pd.Series([1]); d["steuerklasse"]=pd.Series([1]); d["mietstufe"]=pd.Series([3])
    d["wohnfläche_hh"]=pd.Series([45.0]); d["bruttokaltmiete_m_hh"]=pd.Series([350.0]); d["heizkosten_m_hh"]=pd.Series([50.0]); d["bewohnt_eigentum_hh"]=pd.Series([False])
    return d


for year in (2020, 2023):
    p,f=set_up_policy_environment(f"{year}-01-01")
    for loss in (0.0, -600.0):
        d=base(year); d["eink_vermietung_m"]=pd.Series([loss])
        tg=["arbeitsl_geld_2_m_bg","arbeitsl_geld_2_regelbedarf_m_bg","arbeitsl_geld_2_eink_m_bg","arbeitsl_geld_2_vor_vorrang_m_bg"]
        try:
            r=compute_taxes_and_transfers(pd.DataFrame(d), p, f, targets=tg).iloc[0].to_dict()
            print(year, "eink_vermietung_m =", loss, {k: round(float(v),2) for k,v in r.items()}, "EXCEEDS NEED" if r["arbeitsl_geld_2_vor_vorrang_m_bg"] > r["arbeitsl_geld_2_regelbedarf_m_bg"] + 1e-9 else "")
        except Exception as e:
            print(year, loss, "RAISES", type(e).__name__, str(e)[:200])
# Grundrente: income test with a loss
p,f=set_up_policy_environment("2022-01-01")
for loss in (0.0, -2000.0):
    d=base(2022); d["geburtsjahr"]=pd.Series([1950]); d["alter"]=pd.Series([72]); d["rentner"]=pd.Series([True]); d["jahr_renteneintr"]=pd.Series([2015]); d["entgeltp_west"]=pd.Series([20.0]); d["grundr_zeiten"]=pd.Series([480]); d["grundr_bew_zeiten"]=pd.Series([480]); d["grundr_entgeltp"]=pd.Series([18.0]); d["eink_vermietung_m"]=pd.Series([loss]); d["priv_rente_m"]=pd.Series([1500.0])
    try:
        r=compute_taxes_and_transfers(pd.DataFrame(d), p, f, targets=["grundr_zuschlag_m","grundr_zuschlag_vor_eink_anr_m","grundr_zuschlag_eink_m"]).iloc[0].to_dict()
        print(2022, "eink_vermietung_m =", loss, {k: round(float(v),2) for k,v in r.items()})
    except Exception as e:
        print("grundrente RAISES", type(e).__name__, str(e)[:200])
