"""DEVELOPMENT TOOL - executes GETTSIM.  Reproduces the C15 findings: a valid population whose
members differ in the individual-level argument gets different values of a group-level column
within one group."""
import warnings; warnings.filterwarnings("ignore")
import pandas as pd, numpy
from gettsim import compute_taxes_and_transfers, set_up_policy_environment
from _gettsim.config import TYPES_INPUT_VARIABLES

def base(n, **over):
    d = {}
    for k, t in TYPES_INPUT_VARIABLES.items():
        d[k] = pd.Series([{float: 0.0, int: 0, bool: False}[t]] * n)
    d["p_id"] = pd.Series(range(n)); d["hh_id"] = pd.Series([0] * n)
    for k in d:
        if k.startswith("p_id_"): d[k] = pd.Series([-1] * n)
    d["alter"] = pd.Series([40, 38][:n] + [5] * (n - 2)); d["geburtsjahr"] = 2023 - d["alter"]; d["geburtsmonat"] = pd.Series([1] * n); d["geburtstag"] = pd.Series([1] * n)
    d["jahr_renteneintr"] = d["geburtsjahr"] + 67; d["monat_renteneintr"] = pd.Series([1] * n); d["mietstufe"] = pd.Series([3] * n); d["steuerklasse"] = pd.Series([1] * n)
    for k, v in over.items(): d[k] = pd.Series(v)
    return pd.DataFrame(d)

out = {}
# 1 bürgerg_bezug_vorj differs within a Bedarfsgemeinschaft of two partners
p, f = set_up_policy_environment("2023-07-01")
df = base(2, p_id_einstandspartner=[1, 0], bürgerg_bezug_vorj=[True, False], vermögen_bedürft=[20000.0, 20000.0])
r = compute_taxes_and_transfers(df, p, f, targets=["arbeitsl_geld_2_vermög_freib_bg", "bg_id"])
print(r); out["arbeitsl_geld_2_vermög_freib_bg"] = r.groupby("bg_id")["arbeitsl_geld_2_vermög_freib_bg"].nunique().max()
# 2 alleinerz differs within a Familiengemeinschaft (single parent + child)
p, f = set_up_policy_environment("2020-01-01")
df = base(2, alter=[30, 1], p_id_elternteil_1=[-1, 0], alleinerz=[True, False], kind=[False, True], monate_elterngeldbezug=[13, 0])
r = compute_taxes_and_transfers(df, p, f, targets=["monate_elterngeldbezug_unter_grenze_fg", "fg_id"])
print(r); out["monate_elterngeldbezug_unter_grenze_fg"] = r.groupby("fg_id")["monate_elterngeldbezug_unter_grenze_fg"].nunique().max()
# 3 mietstufe differs within a household
df = base(2, mietstufe=[1, 6], bruttokaltmiete_m_hh=[900.0, 900.0])
r = compute_taxes_and_transfers(df, p, f, targets=["wohngeld_miete_m_hh"])
r["hh_id"] = 0
print(r); out["wohngeld_miete_m_hh"] = r.groupby("hh_id")["wohngeld_miete_m_hh"].nunique().max()
print({k: ("NOT constant within group" if v > 1 else "constant") for k, v in out.items()})
# 4 partners in one Einstandsgemeinschaft but different Bedarfsgemeinschaften (partner under 25 covering own needs)
p, f = set_up_policy_environment("2020-01-01")
df = base(2, alter=[70, 24], p_id_einstandspartner=[1, 0], rentner=[True, True], eigenbedarf_gedeckt=[False, True], bruttokaltmiete_m_hh=[500.0, 500.0], heizkosten_m_hh=[80.0, 80.0], wohnfläche_hh=[60.0, 60.0])
r = compute_taxes_and_transfers(df, p, f, targets=["grunds_im_alter_m_eg", "eg_id", "bg_id", "arbeitsl_geld_2_regelbedarf_m_bg"])
print(r); print("grunds_im_alter_m_eg:", "NOT constant within group" if r.groupby("eg_id")["grunds_im_alter_m_eg"].nunique().max() > 1 else "constant")
df = base(3, alter=[70, 24, 10], p_id_einstandspartner=[1, 0, -1], p_id_elternteil_1=[-1, -1, 0], kind=[False, False, True], rentner=[True, True, False], eigenbedarf_gedeckt=[False, True, False], bruttokaltmiete_m_hh=[500.0] * 3, heizkosten_m_hh=[80.0] * 3, wohnfläche_hh=[60.0] * 3, p_id_kindergeld_empf=[-1, -1, 0])
r = compute_taxes_and_transfers(df, p, f, targets=["grunds_im_alter_m_eg", "eg_id", "bg_id", "arbeitsl_geld_2_regelbedarf_m_bg"])
print(r); print("grunds_im_alter_m_eg (with child):", "NOT constant within group" if r.groupby("eg_id")["grunds_im_alter_m_eg"].nunique().max() > 1 else "constant")
