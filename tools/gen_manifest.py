"""Regenerates MANIFEST.json from the table below (development tool)."""
import json
import os

CHECKS = {
    "C03": dict(
        technique="abstract interpretation of rule syntax trees over a kind lattice (bool/int/float) with parameters constant-folded per equivalence interval of dates",
        text="For every scalar policy rule active in any equivalence interval of dates, every return path is typed by an abstract interpreter over Python's scalar arithmetic with the YAML parameter kinds of that interval; the check fails if a path can yield a numeric kind other than the declared one (which, with numpy.vectorize typing a column from its first row, is exactly when a value can be truncated because of another row). Decides the dtype sentence of the property for all rules, dates and populations; 'value equals the scalar rule' holds by construction of the wrapper, whose shape is checked (P0).",
        ref="DESIGN.md §4 C03, §3.4",
        note="Trusts ast/PyYAML parsing, the design-time-validated parameter and DAG models (guarded by anchor probes), and Python's typing of arithmetic on native scalars.",
    ),
}
CHECKS.update({
    "C07": dict(
        technique="registry interval-disjointness check; exhaustive evaluation of the extracted date predicates over all weak orderings; YAML dated-entry lint; parameter-loader model evaluated on every equivalence interval",
        text="Decides, for all dates at once, the structural half of 'the environment is the law in force': (R) every column name has pairwise disjoint validity intervals across all modules, so the implementation chosen never depends on import order; (O) the activity test, the parameter selector, the rounding selector and the registration conflict test, extracted from the source, equal the inclusive predicates on every weak ordering of the dates involved (13/3/3/26 orderings - exhaustive); (Y) every dated YAML entry is reachable (real date keys), every deviation/look-up target resolves on every equivalence interval since 1980, and nothing changes inside an interval. The statutory values themselves are not decided.",
        ref="DESIGN.md §4 C07, §3.2, §3.6",
        note="Trusts ast/PyYAML parsing and the parameter-loader model (design-time differential validation; loader facts re-read from the source on every run).",
    ),
    "C08": dict(
        technique="static DAG reconstruction per equivalence interval + abstract interpretation of every reachable rule with that interval's concrete parameters (both branches of data-dependent tests)",
        text="For the first and last day of every equivalence interval from 2015-01-01 (between change dates nothing changes), the dependency graph of the default targets over the documented inputs is rebuilt from syntax trees and config tables: acyclic (K1), leaves are documented inputs (K2), every parameter path any reachable rule can read on any branch exists and is non-null (K3), sibling tables keyed by the same data value agree on their keys (K3s), rounding specs exist (K4), no reachable not-implemented rule or aggregate (K5), aggregation dtype preconditions hold (K6). Full for constant and finitely resolvable look-ups; look-ups keyed by data values are listed, not decided.",
        ref="DESIGN.md §4 C08, §3.3, §3.4",
        note="Trusts the static DAG model and the parameter model (both validated differentially at design time, guarded by probes); 'valid population' = columns named and typed as documented, no value domains assumed.",
    ),
    "C13": dict(
        category="proof",
        technique="exact rational folding of the converter bodies and unit constants; structural agreement of table, creation site and factory; unit-family check on the static DAG",
        text="Every obligation is an identity over the rationals: each of the 12 converters folds to (N[a]/N[b])*value with the documented periods per year, which implies exact round trips, composition and commutation with sums; the table maps each key to the converter of that name, the creation site looks the converter up source-unit-first and feeds it the source column; explicit members of one unit family are literal conversions of one another on every interval's DAG. Floating-point error is not decided.",
        ref="DESIGN.md §4 C13, §3.7",
        note="Trusted base: python ast, fractions.Fraction, the unit table of GEP-4.",
    ),
    "C18": dict(
        category="proof",
        technique="exact rational re-derivation of every piecewise schedule version from the YAML literals; per-piece inequalities; structural probes of the evaluator",
        text="For every schedule of type piecewise_* and every date at which it changes, thresholds/rates/intercepts are re-derived with Fraction arithmetic and every obligation (full real-line coverage, strictly increasing thresholds, complete rates; income tax zero to the allowance, continuous, non-decreasing, convex, marginal <= top rate; soli continuous, non-decreasing, <= rate*tax + 0.01) is an identity or inequality between rationals, all discharged or the check fails. The evaluator's bin selection (right-continuous), increment base and rate/power pairing are checked structurally. Floating-point exactness at threshold +/- 1 ulp is not decided.",
        ref="DESIGN.md §4 C18",
        note="Trusted base: python ast, PyYAML, fractions.Fraction, the documented schedule semantics, the parameter-loader model for deviation_from resolution.",
    ),
})
CHECKS.update({
    "C06": dict(
        technique="rule purity lint restricted to parameter arguments + effects/alias summaries over the framework call graph (memoisation, module-level state, provenance of returned objects)",
        text="A reform can leak into unrelated columns only through shared mutable state or through a rule reaching parameters behind the dependency graph. Decided for all rules and the whole set-up path: no rule writes through a `<group>_params` argument (the same dict object is partialled into every rule of a group) or imports the loader; simulating does not write into the parameter dictionary, function collection or aggregation specs handed in; no loader function is memoised, writes module-level state or returns part of it. Bit-identity of untouched columns is not decided.",
        ref="DESIGN.md §4 C06, §3.5",
        note="Unresolvable calls into pandas/numpy/yaml/dags are assumed to return fresh objects and not to write their arguments (counted in the evidence).",
    ),
    "C09": dict(
        technique="shape lint over all rule syntax trees against a probe-guarded reading of the rewriter; kinds / data-dependence from the abstract interpreter; effects analysis of make_vectorizable",
        text="Every If, and/or and one-argument reduction of every internal rule is classified as translated soundly, failing loudly, or silently wrong under today's rewriter (the classification table is tied to structural probes on vectorization.py and the check refuses to run against a rewriter it has not read). A rule passes only without a silently-wrong shape; rules whose array form fails loudly anyway are exempt. Producing the array form must not write outside fresh objects (no exec in the rule's module, no module-level cache). Correctness of the rewriter on arbitrary programs is not decided.",
        ref="DESIGN.md §4 C09",
        note="The shape table is a reading of the rewriter, validated once at design time by running it; translation validation would need execution.",
    ),
    "C14": dict(
        technique="interprocedural effects and alias analysis (flow-sensitive provenance: fresh / part of parameter i / module-level) with bottom-up summaries to a fixed point; purity lint of all rules",
        text="A result can depend on process history only through state that outlives a call. For the six public entry points the check decides from the source that nothing reachable from a parameter and no module-level binding is written (E1, E2), no mutable result is memoised (E3), generated code is executed in a fresh namespace (E4), no clock/RNG/environment API is called, and all ~400 rules are effect-free. Equality of results with a fresh process is not decided.",
        ref="DESIGN.md §4 C14, §3.5",
        note="Unresolvable foreign calls are assumed effect-free on their arguments; reviewed exceptions: policy_info.inner, config.set_array_backend.",
    ),
    "C15": dict(
        technique="level typing on the static DAG of every equivalence interval (constancy-within-group lattice, documented nesting table, assume-guarantee on suffixed rules)",
        text="For every interval and every reachable scalar rule whose name carries a group suffix g, every non-parameter argument must be provably constant within g: a group aggregate to g or an enclosing unit, a g-level input, a parameter-only rule, or a rule that is itself g-constant. Full under the documented nesting table (bg in fg in hh, wthh in hh, bg in wthh, sn in ehe, eg in fg).",
        ref="DESIGN.md §4 C15",
        note="Trusts the static DAG model and the nesting table transcribed from GEP-1/hh_concepts.",
    ),
    "C16": dict(
        technique="abstract interpretation with constant parameters, finite alternatives and a sign domain for denominators; guard-dominance check; atom enumeration of the three priority gates",
        text="Decides the crash/NaN half of finiteness: every division, floor division or modulo of every rule reachable from the default targets (every interval since 2015) has a denominator that is a non-zero constant, a count, provably positive, or guarded against zero on that path; no arithmetic on an infinite parameter. For the three priority-gated benefits every path returns 0 or exactly the pre-check entitlement. Non-negativity of all targets and the remaining caps are not decided.",
        ref="DESIGN.md §4 C16",
        note="No value domains are assumed for inputs; one reviewed denominator (sum of two earnings-point accounts) is listed in the evidence.",
    ),
    "C17": dict(
        technique="exhaustive truth-table enumeration of the boolean atoms of the four paid-amount rules (abstract interpreter in atom mode) + level typing of the part-household split",
        text="For every interval since 2015: the conditions under which ALG II/Kinderzuschlag, Grundsicherung/ALG II and Grundsicherung/Wohngeld can be non-zero contradict each other on their shared atoms (all 2^k assignments); the flags that zero ALG II, the flags that split the part-household and the sources of the any-aggregates Wohngeld requires are the same columns; the split is constant within a needs unit; Kinderzuschlag is paid only under one of its two covering-need flags, which have the form income + kiz (+ wohngeld) >= need. Grundsicherung vs Kinderzuschlag is not decided.",
        ref="DESIGN.md §4 C17",
        note="Trusts the abstract interpreter's folding of tests under a total atom assignment; atoms are the rules' boolean arguments and data-dependent comparisons.",
    ),
})
CHECKS.update({
    "C01": dict(
        technique="abstract interpretation of return kinds per interval (first-row dtype clause) + deny-list taint analysis of whole-column functions (positions, whole-column reductions, binary search on unsorted columns, label alignment)",
        text="Two necessary conditions of row-order independence are decided for all rules, dates and populations: (a) no scalar rule can return two different numeric kinds (numpy.vectorize types the whole column from the first row, so a mixed rule makes values depend on which row comes first); (b) in every function that receives whole columns, loop positions, whole-column reductions and order-sensitive operations never flow into a non-id result, no binary search runs on a raw column, and the interface assembles results positionally, not by index label. Order-independence of the partition induced by the id scans is not decided.",
        ref="DESIGN.md §4 C01",
        note="Deny-list rules: a construct not on the list is not reported; numpy_groupies numerics are third-party.",
    ),
    "C02": dict(
        technique="purity lint of all rule syntax trees + wrapper-shape check + whole-column taint analysis",
        text="Separability needs every scalar rule to be a function of its own row only and every cross-row data flow to go through id keys. Decided: all ~400 rules are pure (no shared state, I/O, clock), every loaded function is evaluated through the row-wise numpy.vectorize wrapper unless marked whole-column, and whole-column functions do not let positions or whole-column reductions reach their results. Injectivity of the id arithmetic (fg_id*100+k) is not decided.",
        ref="DESIGN.md §4 C02",
        note="Deny-list purity rules; unknown pure-looking calls are listed, not reported.",
    ),
    "C05": dict(
        technique="annotation resolution for every overridable node; kind analysis (declared type can hold every returned value); merge-order and override-split structure; must-warn check",
        text="Feeding a computed column back must not raise, be mis-typed or go unannounced: every overridable node declares a type the converter supports (and annotations are real types, not strings); no rule returns a kind wider than declared (otherwise the lossless-conversion check rejects the system's own output); functions are merged pointer aggregates < time conversions < rules < group aggregates < groupings and overridden iff the name is a data column; a non-empty override set always reaches the overlap warning. Equality of the two runs' numbers is not decided.",
        ref="DESIGN.md §4 C05",
        note="Kinds as in C03; structure checks are anchored on functions the test-suite imports by name.",
    ),
    "C10": dict(
        technique="writer/reader key-table agreement (YAML, loader, wrapper); per-interval spec-to-rule matching with atom enumeration for pass-through rules; structural check of the rounding wrapper; metadata dataflow of derived functions; truth table of the missing-spec guard",
        text="Decides the structural clauses of statutory rounding for every date: every spec key the wrapper reads and the YAML provides is transferred by the loader; every dated spec is valid; wherever a spec is in force the implementation active then is rounded with that key or passes a same-grid column through; the wrapper maps up/down/nearest to ceil/floor/round of out/base, adds the offset once and transforms the value no further; time-converted and aggregated functions cannot inherit the rounding key; a rule marked for rounding without a spec raises. The rounding error bound itself is floating-point and not decided.",
        ref="DESIGN.md §4 C10",
        note="Statutory values/dates of the specs themselves are not decidable from the source.",
    ),
    "C11": dict(
        technique="sibling agreement over the 14 spec-kind branches and 14 backend dispatchers (resolved callee, role-ordered arguments, import aliases); spec validity per interval; layer-order evaluation of the spec dictionaries; constant folding of the result-type rule",
        text="The copy-paste structure that wires aggregation kinds to kernels is decided exhaustively: branch k of both factories calls grouped_k / k_by_p_id with its own parameters in the callee's role order and the documented renaming; every dispatcher calls the same-named jax/numpy kernel with its parameters in order; built-in specs are valid and use implemented kinds with integer pointer columns; spec dictionaries are assembled automatic < built-in < user; the result-type rule equals the documented table on the full (type x kind) grid; the spec loader is not memoised. The arithmetic of numpy_groupies and the pointer kernels is not decided.",
        ref="DESIGN.md §4 C11",
        note="Third-party aggregation semantics are trusted.",
    ),
    "C19": dict(
        technique="value-/control-dependence analysis (abstract interpreter with dependence sets) over the static DAG per interval, regime columns bound to scenarios",
        text="Two shape clauses are decided for all four employee contributions on every interval since 2015: with marginal employment the contribution has no dependence on the gross wage at all; with regular employment the wage reaches the contribution by value only through a rule returning min(wage, ceiling) whose ceiling is wage-independent - i.e. the contribution is constant above the assessment ceiling. Monotonicity, continuity at the zone boundary and the share identity are not decided.",
        ref="DESIGN.md §4 C19",
        note="The wage sweep is over employees: self-employed and pensioner flags are bound to False (an early retiree's pension is cut by earnings, which is outside the property's quantifier).",
    ),
    "C20": dict(
        technique="syntax-directed must-call analysis with interprocedural summaries; guard-dominance check of narrowing conversions; foreign-key table agreement",
        text="Decides that validation cannot be bypassed: the first use of the data runs the three validators on every path (DataFrame input also the duplicate-column check), type conversion and the missing-column check precede the DAG call; every validator raises under a condition on its argument and the foreign-key check loops over the whole table; every pointer column a grouping dereferences and every pointer named in the property is in that table; float->int and ->bool conversions are dominated by their losslessness tests, object and bool->float input raise, no except swallows; successful conversions always reach warnings.warn. Numeric losslessness of the tests themselves and the order-dependent joint-assessment check are not decided.",
        ref="DESIGN.md §4 C20",
        note="Anchored on functions the test-suite imports by name.",
    ),
})

# additions of the second half of the build session (DESIGN.md §9.5): (technique suffix, text suffix)
EXTRA = {
    "C01": ("; index-space typing of numpy kernels (rows / sorted order / unique values); per-group-state rule for ids built by arithmetic on another id",
            " Also decided: (c) in the kernels and their helpers the sort permutation is never used where its inverse is needed and the inverse map of `unique` never where the first-occurrence index is needed (IX); (d) an id built as fg_id*100+k takes k from state looked up by the row's own id, not from a scalar updated across rows or a cumulative operation (W5)."),
    "C02": ("; index-space typing of numpy kernels; per-group-state rule for derived ids", " IX and W5 as for C01: derived ids cannot depend on rows of other households."),
    "C03": ("; truth table of the input type gate", " T0: the 'already has the expected type' gate accepts a dtype class only for its own declared type (all 20 combinations), so rules receive values of the declared kind."),
    "C05": ("; direct-call and annotation-site sibling rules", " A2: no active rule calls another active, computable node's function directly (a supplied column would be ignored); A3: every branch typing an aggregate goes through the result-type rule; M-agg: aggregate factories do not skip a spec whose name is supplied as data."),
    "C07": ("; binary-search selector idiom with index-domain check", " The dated-entry selectors may also be written with bisect_right(sorted, date) - 1; then the index use must be dominated by a test excluding -1."),
    "C08": ("; interval domain with guard refinement for computed table keys", " K3d: a table look-up keyed by a computed count is bounded by the table's largest integer key through a clamp or a dominating guard."),
    "C09": ("; feasibility of the if-translation's completing paths for hypothetical block sizes; alias rule for augmented assignments", " RJ: the if-to-where translation cannot complete for a body / else block of two statements (it must fail loudly); S5: no augmented assignment to (an alias of) an argument, which numpy would execute in place on the caller's column."),
    "C10": ("; selector check of the rounding loader; expected-zero scan for in-rule rounding", " RSEL: the rounding loader takes the latest spec on or before the date and none if all are later; NR: no policy rule rounds its own amount (it would stay rounded under rounding=False)."),
    "C11": ("; partial evaluation of the factories per kind; index-space typing of the kernels", " S-dispatch is decided by partially evaluating each factory for every kind (if / match / table spellings); RT also requires every annotation site to use the result-type rule; IX types the kernels' index arithmetic."),
    "C13": ("; guard-purity of the creation site; phase wiring of the derivation steps", " Q5: whether a unit variant is created depends on names only, not on other properties of the function object; PH: unit variants reach the group-aggregation step as functions, the caller's data columns alone as data."),
    "C15": ("; index-space typing of the aggregation kernels; per-group-state rule for derived ids", " L-id / IX: group ids and aggregates cannot mix rows of different groups through a running counter or a mis-directed permutation."),
    "C16": ("; interval/sign proof of non-negative default targets with blame; naming-direction rule for bound parameters; sibling agreement on capped multipliers", " N: every default target is provably >= 0 at every interval since 2015 in an interval/sign domain with guard refinement (inputs >= 0 except six listed income/wealth columns; 13 reviewed differences, each with a reason and - for transition-zone formulas - a checked context); a report names the unguarded, unclamped difference responsible. D: a parameter named as an upper (lower) bound is an operand of min (max). S-cap: copies of one formula scale a parameter by the identical capped expression."),
    "C18": ("; finite evaluation of the scaled-rates path; call-site consistency", " E also covers the rates-multiplier path (the intercept is rebuilt from exactly the full pieces below the bin, for 3-5 pieces and every bin); CS: thresholds, rates and intercepts of one call come from the same parameter."),
    "C19": ("; order-domain evaluation of the regime predicates; sibling agreement of the regular and transition-zone branches (parameters, inputs, capped multipliers); both-regions rule", " R-cover: for every ordering of wage and thresholds at least one regime holds (no wage between the regimes); S-par: every rate parameter and input column the regular branch reads is also read by the transition-zone branch at every date; S-cap; OW: a parameter with differing east/west values is read on both sides."),
    "C20": ("; truth table of the input type gate; NaN-blind statistics rule", " F6: the type gate accepts a dtype class only for its own type; F5 also rejects validators deciding with statistics that drop missing values."),
}

# additions driven by the third wave of seeded changes (DESIGN.md §9.8)
EXTRA3 = {
    "C01": ("; pointer / id discipline in row loops", " W6-W9: a pointer element indexes an array only under a guard excluding -1, a data-valued kernel does not read forward references from a mapping it is still filling, pointers are compared with the sentinel only, ids are never used as truth values; IX also covers block offsets and pointer columns used as indices."),
    "C02": ("; pointer / id discipline in row loops", " W6-W9 as for C01 (relabelling ids - e.g. a person with id 0 - and adding unrelated households cannot change results)."),
    "C05": ("; value-position analysis of and/or in bool rules", " T2-bool: a rule declared bool never hands a number through the value position of and/or (a count column would be rejected when fed back)."),
    "C07": ("; order-domain check of alias shortcuts; duplicate-key scan of the YAML node trees", " O7: the value for another date is copied from the date's own value only under a condition implying that no entry lies in between; O6 reports a branch that no longer looks the parameter up through the loader; Y0: no mapping has a key twice."),
    "C08": ("; loader anchor rules shared with C07", " The loader / selection anchors O1-O7 are re-read here too, because the per-date environments are computed with a model of that code."),
    "C10": ("; spec immutability and unknown-key rules", " RO: setting up the rounding never changes the caller's spec; RW also rejects spec keys that nobody reads (a misspelt key is silently ignored)."),
    "C11": ("; kernel/function-name agreement", " S-kernel: grouped_<k> reduces with func='<k>'; IX also flags a pointer column used directly as an index."),
    "C16": ("; cap-dominance, capped-alias and clamped-difference rules", " B: a result built from a capped term through min/max/selection only is bounded; S-alias: a function that caps an argument does not compute with the uncapped one; N2: what a transfer rule subtracts inside max(0, need - x) is provably non-negative (one known finding: losses entered as negative income lift ALG II above the need)."),
    "C19": ("; linear (affine-in-the-wage) abstract domain per regime and person scenario; residuum structure of the two shares", " L1/L2: with the regime and the person's characteristics bound to a scenario and the date's parameters concrete, every employee contribution is derived as a linear form a*w + b in the gross wage: a >= 0 inside the transition zone, the regular form is non-decreasing, and both forms agree at the upper zone boundary (to 0.005 EUR) - for every interval since 2015. S-sum: one transition-zone share is defined as the branch's total minus the other share."),
    "C18": ("; no-rounding scan of the schedule machinery", " G0: the functions generating and evaluating schedules do no rounding (intercepts are the exact left limits)."),
}
NOT_APPLICABLE = {
    "C04": "Compares values of two runs under different target sets / debug options; the only structural handle (non-interference of `targets` with node definitions) lives in dict comprehensions keyed by computed strings and in the third-party `dags` package - no necessary condition that is both statically checkable and robust to behaviour-preserving refactoring was found (DESIGN.md §6).",
    "C12": "Whether the row scans in groupings.py compute the partition the unit definitions prescribe, for every pointer graph and row order, is a property of a data-dependent algorithm over runtime values; it needs execution or model checking, not static analysis (DESIGN.md §6). Structural by-products are decided under C15, C17 and C20.",
}
PENDING = {}
FIX_COMMITS = ["1135a11", "9ad2ff2", "e1b99c2", "0b25963", "db055f3", "373c6a3", "f64a0f5"]


def main():
    here = os.path.dirname(os.path.dirname(os.path.abspath(__file__)))
    props = [json.loads(l)["id"] for l in open(os.path.join(here, "properties.jsonl"))]
    checks = []
    for pid in props:
        if pid not in CHECKS:
            continue
        c = dict(CHECKS[pid])
        if pid in EXTRA:
            c["technique"] = c["technique"] + EXTRA[pid][0]
            c["text"] = c["text"] + EXTRA[pid][1]
        if pid in EXTRA3:
            c["technique"] = c["technique"] + EXTRA3[pid][0]
            c["text"] = c["text"] + EXTRA3[pid][1]
        checks.append({
            "property_id": pid,
            "quick_cmd": f"./vcheck {pid} --tier quick",
            "thorough_cmd": f"./vcheck {pid} --tier thorough",
            "evidence_file": f"/verif/evidence/{pid}.json",
            "replay_cmd_template": f"./vcheck {pid} --replay {{path}}",
            "engine": "staticlib",
            "level_claimed": {"category": c.get("category", "other"), "text": c["text"], "design_ref": c["ref"]},
            "level_note": c["note"],
            "technique": c["technique"],
        })
    na = [{"property_id": k, "reason": v} for k, v in NOT_APPLICABLE.items()]
    for pid in props:
        if pid not in CHECKS and pid not in NOT_APPLICABLE:
            na.append({"property_id": pid, "reason": PENDING.get(pid, "check not built yet (work in progress) - not claimed in this revision")})
    m = {
        "version": 1,
        "setup_cmd": "true",
        "hooks": {
            "guard": "GETTSIM_VERIF",
            "enable": "none - the checks parse /repo's sources and need no instrumentation; the guard is declared but unused",
            "baseline_off_cmd": "cd /repo && /venv/bin/python -m pytest -ra -q -p no:cacheprovider --timeout=900 --continue-on-collection-errors",
            "source_commits": FIX_COMMITS,
            "add_only": True,
        },
        "engines": [{
            "name": "staticlib",
            "path": "/verif/staticlib",
            "serves_properties": sorted(CHECKS),
            "kind_free_text": "repository-specific static analysers over Python syntax trees and parsed YAML: source model, parameter/timeline model, static DAG model, abstract interpreter for the rule language, effects/alias summaries, finite-domain predicate evaluation, exact rational folding, statement CFG with dominators",
        }],
        "checks": checks,
        "not_applicable": na,
        "notes": "All checks are static: /repo is parsed (ast, PyYAML) and never imported or executed. Exit 2 + ANALYSIS-ERROR means the analyser cannot stand behind a verdict. Known genuine defects are listed in known_findings.json.",
    }
    json.dump(m, open(os.path.join(here, "MANIFEST.json"), "w"), indent=1, ensure_ascii=False)
    print("claimed", len(checks), "n/a", len(na))


main()
