"""Regenerates MANIFEST.json from the table below (development tool)."""
import json
import os

CHECKS = {
    "C03": dict(
        technique="abstract interpretation of rule syntax trees over a kind lattice (bool/int/float) with parameters constant-folded per equivalence interval of dates",
        text="For every scalar policy rule active in any equivalence interval of dates, every return path is typed by an abstract interpreter over Python's scalar arithmetic with the YAML parameter kinds of that interval; the check fails if a path can yield a numeric kind other than the declared one (which, with numpy.vectorize typing a column from its first row, is exactly when a value can be truncated because of another row). Decides the dtype sentence of the property for all rules, dates and populations; 'value equals the scalar rule' holds by construction of the wrapper, whose shape is checked (P0).",
        ref="DESIGN.md §4 C03, §3.4",
        note="Trusts ast/PyYAML parsing, the design-time-validated parameter and DAG models (guarded by anchor probes), and Python's typing of arithmetic on native scalars.",
    ),
}
NOT_APPLICABLE = {
    "C04": "Compares values of two runs under different target sets / debug options; the only structural handle (non-interference of `targets` with node definitions) lives in dict comprehensions keyed by computed strings and in the third-party `dags` package - no necessary condition that is both statically checkable and robust to behaviour-preserving refactoring was found (DESIGN.md §6).",
    "C12": "Whether the row scans in groupings.py compute the partition the unit definitions prescribe, for every pointer graph and row order, is a property of a data-dependent algorithm over runtime values; it needs execution or model checking, not static analysis (DESIGN.md §6). Structural by-products are decided under C15, C17 and C20.",
}
PENDING = {}


def main():
    here = os.path.dirname(os.path.dirname(os.path.abspath(__file__)))
    props = [json.loads(l)["id"] for l in open(os.path.join(here, "properties.jsonl"))]
    checks = []
    for pid in props:
        if pid not in CHECKS:
            continue
        c = CHECKS[pid]
        checks.append({
            "property_id": pid,
            "quick_cmd": f"./vcheck {pid} --tier quick",
            "thorough_cmd": f"./vcheck {pid} --tier thorough",
            "evidence_file": f"/verif/evidence/{pid}.json",
            "replay_cmd_template": f"./vcheck {pid} --replay {{path}}",
            "engine": "staticlib",
            "level_claimed": {"category": c.get("category", "other"), "text": c["text"], "design_ref": c["ref"]},
            "level_note": c["note"],
            "technique": c["technique"],
        })
    na = [{"property_id": k, "reason": v} for k, v in NOT_APPLICABLE.items()]
    for pid in props:
        if pid not in CHECKS and pid not in NOT_APPLICABLE:
            na.append({"property_id": pid, "reason": PENDING.get(pid, "check not built yet (work in progress) - not claimed in this revision")})
    m = {
        "version": 1,
        "setup_cmd": "true",
        "hooks": {
            "guard": "GETTSIM_VERIF",
            "enable": "none - the checks parse /repo's sources and need no instrumentation; the guard is declared but unused",
            "baseline_off_cmd": "cd /repo && /venv/bin/python -m pytest -ra -q -p no:cacheprovider --timeout=900 --continue-on-collection-errors",
            "source_commits": [],
            "add_only": True,
        },
        "engines": [{
            "name": "staticlib",
            "path": "/verif/staticlib",
            "serves_properties": sorted(CHECKS),
            "kind_free_text": "repository-specific static analysers over Python syntax trees and parsed YAML: source model, parameter/timeline model, static DAG model, abstract interpreter for the rule language, effects/alias summaries, finite-domain predicate evaluation, exact rational folding, statement CFG with dominators",
        }],
        "checks": checks,
        "not_applicable": na,
        "notes": "All checks are static: /repo is parsed (ast, PyYAML) and never imported or executed. Exit 2 + ANALYSIS-ERROR means the analyser cannot stand behind a verdict. Known genuine defects are listed in known_findings.json.",
    }
    json.dump(m, open(os.path.join(here, "MANIFEST.json"), "w"), indent=1, ensure_ascii=False)
    print("claimed", len(checks), "n/a", len(na))


main()
