"""Regenerates MANIFEST.json from the table below (development tool)."""
import json
import os

CHECKS = {
    "C03": dict(
        technique="abstract interpretation of rule syntax trees over a kind lattice (bool/int/float) with parameters constant-folded per equivalence interval of dates",
        text="For every scalar policy rule active in any equivalence interval of dates, every return path is typed by an abstract interpreter over Python's scalar arithmetic with the YAML parameter kinds of that interval; the check fails if a path can yield a numeric kind other than the declared one (which, with numpy.vectorize typing a column from its first row, is exactly when a value can be truncated because of another row). Decides the dtype sentence of the property for all rules, dates and populations; 'value equals the scalar rule' holds by construction of the wrapper, whose shape is checked (P0).",
        ref="DESIGN.md §4 C03, §3.4",
        note="Trusts ast/PyYAML parsing, the design-time-validated parameter and DAG models (guarded by anchor probes), and Python's typing of arithmetic on native scalars.",
    ),
}
CHECKS.update({
    "C07": dict(
        technique="registry interval-disjointness check; exhaustive evaluation of the extracted date predicates over all weak orderings; YAML dated-entry lint; parameter-loader model evaluated on every equivalence interval",
        text="Decides, for all dates at once, the structural half of 'the environment is the law in force': (R) every column name has pairwise disjoint validity intervals across all modules, so the implementation chosen never depends on import order; (O) the activity test, the parameter selector, the rounding selector and the registration conflict test, extracted from the source, equal the inclusive predicates on every weak ordering of the dates involved (13/3/3/26 orderings - exhaustive); (Y) every dated YAML entry is reachable (real date keys), every deviation/look-up target resolves on every equivalence interval since 1980, and nothing changes inside an interval. The statutory values themselves are not decided.",
        ref="DESIGN.md §4 C07, §3.2, §3.6",
        note="Trusts ast/PyYAML parsing and the parameter-loader model (design-time differential validation; loader facts re-read from the source on every run).",
    ),
    "C08": dict(
        technique="static DAG reconstruction per equivalence interval + abstract interpretation of every reachable rule with that interval's concrete parameters (both branches of data-dependent tests)",
        text="For the first and last day of every equivalence interval from 2015-01-01 (between change dates nothing changes), the dependency graph of the default targets over the documented inputs is rebuilt from syntax trees and config tables: acyclic (K1), leaves are documented inputs (K2), every parameter path any reachable rule can read on any branch exists and is non-null (K3), sibling tables keyed by the same data value agree on their keys (K3s), rounding specs exist (K4), no reachable not-implemented rule or aggregate (K5), aggregation dtype preconditions hold (K6). Full for constant and finitely resolvable look-ups; look-ups keyed by data values are listed, not decided.",
        ref="DESIGN.md §4 C08, §3.3, §3.4",
        note="Trusts the static DAG model and the parameter model (both validated differentially at design time, guarded by probes); 'valid population' = columns named and typed as documented, no value domains assumed.",
    ),
    "C13": dict(
        category="proof",
        technique="exact rational folding of the converter bodies and unit constants; structural agreement of table, creation site and factory; unit-family check on the static DAG",
        text="Every obligation is an identity over the rationals: each of the 12 converters folds to (N[a]/N[b])*value with the documented periods per year, which implies exact round trips, composition and commutation with sums; the table maps each key to the converter of that name, the creation site looks the converter up source-unit-first and feeds it the source column; explicit members of one unit family are literal conversions of one another on every interval's DAG. Floating-point error is not decided.",
        ref="DESIGN.md §4 C13, §3.7",
        note="Trusted base: python ast, fractions.Fraction, the unit table of GEP-4.",
    ),
    "C18": dict(
        category="proof",
        technique="exact rational re-derivation of every piecewise schedule version from the YAML literals; per-piece inequalities; structural probes of the evaluator",
        text="For every schedule of type piecewise_* and every date at which it changes, thresholds/rates/intercepts are re-derived with Fraction arithmetic and every obligation (full real-line coverage, strictly increasing thresholds, complete rates; income tax zero to the allowance, continuous, non-decreasing, convex, marginal <= top rate; soli continuous, non-decreasing, <= rate*tax + 0.01) is an identity or inequality between rationals, all discharged or the check fails. The evaluator's bin selection (right-continuous), increment base and rate/power pairing are checked structurally. Floating-point exactness at threshold +/- 1 ulp is not decided.",
        ref="DESIGN.md §4 C18",
        note="Trusted base: python ast, PyYAML, fractions.Fraction, the documented schedule semantics, the parameter-loader model for deviation_from resolution.",
    ),
})
NOT_APPLICABLE = {
    "C04": "Compares values of two runs under different target sets / debug options; the only structural handle (non-interference of `targets` with node definitions) lives in dict comprehensions keyed by computed strings and in the third-party `dags` package - no necessary condition that is both statically checkable and robust to behaviour-preserving refactoring was found (DESIGN.md §6).",
    "C12": "Whether the row scans in groupings.py compute the partition the unit definitions prescribe, for every pointer graph and row order, is a property of a data-dependent algorithm over runtime values; it needs execution or model checking, not static analysis (DESIGN.md §6). Structural by-products are decided under C15, C17 and C20.",
}
PENDING = {}
FIX_COMMITS = ["1135a11", "9ad2ff2", "e1b99c2", "0b25963"]


def main():
    here = os.path.dirname(os.path.dirname(os.path.abspath(__file__)))
    props = [json.loads(l)["id"] for l in open(os.path.join(here, "properties.jsonl"))]
    checks = []
    for pid in props:
        if pid not in CHECKS:
            continue
        c = CHECKS[pid]
        checks.append({
            "property_id": pid,
            "quick_cmd": f"./vcheck {pid} --tier quick",
            "thorough_cmd": f"./vcheck {pid} --tier thorough",
            "evidence_file": f"/verif/evidence/{pid}.json",
            "replay_cmd_template": f"./vcheck {pid} --replay {{path}}",
            "engine": "staticlib",
            "level_claimed": {"category": c.get("category", "other"), "text": c["text"], "design_ref": c["ref"]},
            "level_note": c["note"],
            "technique": c["technique"],
        })
    na = [{"property_id": k, "reason": v} for k, v in NOT_APPLICABLE.items()]
    for pid in props:
        if pid not in CHECKS and pid not in NOT_APPLICABLE:
            na.append({"property_id": pid, "reason": PENDING.get(pid, "check not built yet (work in progress) - not claimed in this revision")})
    m = {
        "version": 1,
        "setup_cmd": "true",
        "hooks": {
            "guard": "GETTSIM_VERIF",
            "enable": "none - the checks parse /repo's sources and need no instrumentation; the guard is declared but unused",
            "baseline_off_cmd": "cd /repo && /venv/bin/python -m pytest -ra -q -p no:cacheprovider --timeout=900 --continue-on-collection-errors",
            "source_commits": FIX_COMMITS,
            "add_only": True,
        },
        "engines": [{
            "name": "staticlib",
            "path": "/verif/staticlib",
            "serves_properties": sorted(CHECKS),
            "kind_free_text": "repository-specific static analysers over Python syntax trees and parsed YAML: source model, parameter/timeline model, static DAG model, abstract interpreter for the rule language, effects/alias summaries, finite-domain predicate evaluation, exact rational folding, statement CFG with dominators",
        }],
        "checks": checks,
        "not_applicable": na,
        "notes": "All checks are static: /repo is parsed (ast, PyYAML) and never imported or executed. Exit 2 + ANALYSIS-ERROR means the analyser cannot stand behind a verdict. Known genuine defects are listed in known_findings.json.",
    }
    json.dump(m, open(os.path.join(here, "MANIFEST.json"), "w"), indent=1, ensure_ascii=False)
    print("claimed", len(checks), "n/a", len(na))


main()
