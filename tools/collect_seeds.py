"""Development tool: copy confirmed seeded changes into /verif/seeded/<id>/ and write seeded/INDEX.md.
A seed is kept only if tools/confirm_seed.sh confirmed it against the current /repo HEAD
(patch applies, demo passes without / fails with the change, suite still 5426 passed).
usage: collect_seeds.py <incoming dir> [matrix json]"""
import json, shutil, sys
from pathlib import Path

src = Path(sys.argv[1])
matrix = json.load(open(sys.argv[2])) if len(sys.argv) > 2 else {}
dst = Path("/verif/seeded")
dst.mkdir(exist_ok=True)
rows = []
for d in sorted(p for p in src.iterdir() if p.is_dir()):
    cj = d / "confirm.json"
    if not cj.exists():
        continue
    c = json.load(open(cj))
    meta = json.load(open(d / "meta.json")) if (d / "meta.json").exists() else {}
    benign = meta.get("kind") == "benign"
    if c.get("confirmed") != "yes":
        rows.append((d.name, "dropped", c.get("suite", "")[:60] or "patch does not apply / demo does not discriminate on the current HEAD", "", ""))
        continue
    out = dst / d.name
    out.mkdir(exist_ok=True)
    for f in ("patch.diff", "demo.py", "test_demo.py", "equiv.py"):
        if (d / f).exists():
            shutil.copy(d / f, out / f)
    res = matrix.get(d.name, {})
    hits = sorted(p for p, v in res.items() if v[0] == 1)
    errs = sorted(p for p, v in res.items() if v[0] not in (0, 1))
    meta.update({
        "breaks_property": meta.get("property", d.name.split("_")[0]),
        "needs_to_manifest": meta.get("needs_to_manifest", ""),
        "what_i_ran": f"tools/confirm_seed.sh on a scratch worktree of /repo HEAD: demo exit {c['demo_clean_exit']} without / {c['demo_mutant_exit']} with the change; full suite with the change: {c['suite']}",
        "detected_by": hits, "analysis_error_in": errs,
        "first_report": {p: res[p][1] for p in hits[:3]},
    })
    json.dump(meta, open(out / "meta.json", "w"), indent=1, ensure_ascii=False)
    rows.append((d.name, "kept", meta.get("title", "")[:70], ", ".join(hits) or "-", ", ".join(errs)))
with open(dst / "INDEX.md", "w") as f:
    f.write("| seed | status | what | detected by (quick checks) | analysis-error in |\n|---|---|---|---|---|\n")
    for r in rows:
        f.write("| " + " | ".join(r) + " |\n")
print(len([r for r in rows if r[1] == "kept"]), "kept,", len([r for r in rows if r[1] != "kept"]), "dropped")
