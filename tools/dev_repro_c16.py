"""DEVELOPMENT TOOL - executes GETTSIM. Reproduces the two zero-denominator findings end to end."""
import warnings; warnings.filterwarnings("ignore")
import pandas as pd
from gettsim import compute_taxes_and_transfers, set_up_policy_environment
from _gettsim.config import TYPES_INPUT_VARIABLES
p,f=set_up_policy_environment("2020-01-01")
def base():
    d={k: pd.Series([{float:0.0,int:0,bool:False}[t]]) for k,t in TYPES_INPUT_VARIABLES.items()}
    for k in d:
        if k.startswith("p_id_"): d[k]=pd.Series([-1])
    d["geburtsjahr"]=pd.Series([1980]); d["alter"]=pd.Series([40]); d["geburtsmonat"]=pd.Series([1]); d["geburtstag"]=pd.Series([1]); d["jahr_renteneintr"]=pd.Series([2047]); d["monat_renteneintr"]=pd.Series([1]); d["steuerklasse"]=pd.Series([1]); d["mietstufe"]=pd.Series([1])
    return d
d=base(); d["geburtsjahr"]=pd.Series([2004]); d["alter"]=pd.Series([16]); d["jahr_renteneintr"]=pd.Series([2020]); d["monat_renteneintr"]=pd.Series([2])
for name, dd, tg in [("retirement at age 16.0 (belegungsfaehiger Gesamtzeitraum = 0)", d, ["erwerbsm_rente_m"]), ("household recorded with 0 m2 (wohnflaeche_hh = 0)", base(), ["arbeitsl_geld_2_m_bg"])]:
    try:
        r=compute_taxes_and_transfers(pd.DataFrame(dd), p, f, targets=tg); print(name, "->", r.iloc[0].to_dict())
    except Exception as e: print(name, "-> END-TO-END RAISES", type(e).__name__, e)
