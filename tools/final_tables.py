import json, pathlib, re, collections, sys
sys.path.insert(0,'/verif')
m = json.load(open('/verif/seeded/matrix_final.json'))
rows=[]
for d in sorted(pathlib.Path('/verif/seeded').iterdir()):
    if not d.is_dir(): continue
    meta=json.load(open(d/'meta.json'))
    res=m.get(d.name,{})
    hits=sorted(p for p,v in res.items() if v[0]==1)
    errs=sorted(p for p,v in res.items() if v[0] not in (0,1))
    own=meta.get('property', d.name.split('_')[0])
    pick = own if own in hits else (hits[0] if hits else None)
    rule=''
    if pick:
        mm=re.search(r"\[([A-Za-z0-9/\-]+)\]", res[pick][1]); rule=(pick+' '+mm.group(1)) if mm else pick
    meta.update({"breaks_property": own, "detected_by": hits, "analysis_error_in": errs, "first_report": {p: res[p][1] for p in hits[:3]}})
    if 'what_i_ran' not in meta and (d/'confirm.json').exists():
        c=json.load(open(d/'confirm.json'))
        meta['what_i_ran']=f"tools/confirm_seed.sh on a scratch worktree of /repo HEAD: demo exit {c['demo_clean_exit']} without / {c['demo_mutant_exit']} with the change; full suite with the change: {c['suite']}"
    json.dump(meta, open(d/'meta.json','w'), indent=1, ensure_ascii=False)
    rows.append((d.name, meta.get('title','')[:95].replace('|','/'), ', '.join(hits) or '—', rule or ('exit 2 in '+', '.join(errs) if errs else '—')))
with open('/verif/seeded/INDEX.md','w') as f:
    f.write("| seed | change | detected by (quick checks) | first rule |\n|---|---|---|---|\n")
    for r in rows: f.write('| '+' | '.join(r)+' |\n')
tot=len(rows); any_=sum(1 for r in rows if r[2]!='—'); own_=sum(1 for r in rows if r[0].split('_')[0] in r[2])
tw=json.load(open('/verif/seeded_benign/matrix_final.json')) if pathlib.Path('/verif/seeded_benign/matrix_final.json').exists() else {}
tw_bad={k:{p:v for p,v in res.items() if v[0]!=0} for k,res in tw.items()}
tw_bad={k:v for k,v in tw_bad.items() if v}
txt=f'''
### 9.13 Final run: all seeded changes and all benign refactorings against the final checks

`tools/seed_matrix.py` over `seeded/` ({tot} confirmed changes from three waves) and over `seeded_benign/`
({len(tw)} refactorings), each applied to a scratch copy outside /repo and /verif and analysed by all 18 quick
checks (`--root`).

* **{any_} of {tot} changes are reported as a VIOLATION by at least one check, {own_} by the check of the property
  they were written against.**  Not reported: {', '.join(r[0] for r in rows if r[2]=='—') or 'none'}.
* **Benign refactorings: {len(tw)-len(tw_bad)} of {len(tw)} leave every check at exit 0.**{(' Exceptions: ' + '; '.join(k + ' -> ' + ', '.join(v) for k, v in tw_bad.items())) if tw_bad else ''}

The per-change table (also `seeded/INDEX.md`; it supersedes the table of §9.6, which shows the state after the
second wave):

| seed | change | detected by | first rule |
|---|---|---|---|
'''
for r in rows: txt+='| '+' | '.join(r)+' |\n'
open('/tmp/design_9_10.md','w').write(txt)
print(tot, any_, own_, len(tw), len(tw_bad), tw_bad)
