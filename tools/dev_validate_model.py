"""DEVELOPMENT TOOL - executes GETTSIM.  Never referenced by a manifest command.
Differentially validates the parameter model and the static DAG model against the real code."""
import datetime, sys, warnings
sys.path.insert(0, "/verif")
warnings.filterwarnings("ignore")
import numpy
from staticlib.srcmodel import Repo
from staticlib.envmodel import EnvModel
from staticlib.dagmodel import Dag

def eq(a, b, path=""):
    if isinstance(a, dict) and isinstance(b, dict):
        if set(a) != set(b):
            return [f"{path}: keys {sorted(map(str,set(a)^set(b)))}"]
        out = []
        for k in a:
            out += eq(a[k], b[k], f"{path}/{k}")
        return out
    if isinstance(a, numpy.ndarray) or isinstance(b, numpy.ndarray):
        try:
            return [] if numpy.allclose(numpy.asarray(a, dtype=float), numpy.asarray(b, dtype=float), equal_nan=True) else [f"{path}: arrays differ"]
        except Exception as e:
            return [f"{path}: {e}"]
    if type(a) != type(b) and not (isinstance(a,(int,float)) and isinstance(b,(int,float)) and type(a)==type(b)):
        if not (isinstance(a, float) and isinstance(b, float)):
            return [f"{path}: type {type(a).__name__} vs {type(b).__name__}"]
    try:
        if isinstance(a, float) and isinstance(b, float):
            return [] if (a == b or abs(a-b) <= 1e-9*max(1,abs(a))) else [f"{path}: {a} vs {b}"]
        return [] if a == b else [f"{path}: {a!r} vs {b!r}"]
    except Exception as e:
        return [f"{path}: {e}"]

def main():
    repo = Repo("/repo"); em = EnvModel(repo)
    from _gettsim.policy_environment import set_up_policy_environment
    from _gettsim.functions_loader import load_and_check_functions
    from _gettsim.config import TYPES_INPUT_VARIABLES, DEFAULT_TARGETS
    import inspect
    dates = [f for f, _ in em.intervals(datetime.date(1984,1,1))]
    dates += [l for _, l in em.intervals(datetime.date(2010,1,1))]
    dates += [datetime.date(y,2,29) for y in range(1984,2028,4)]
    if len(sys.argv) > 1: dates = dates[::int(sys.argv[1])]
    nd = 0; diffs = 0
    for d in sorted(set(dates)):
        try:
            real, funcs = set_up_policy_environment(d)
        except Exception as e:
            mine, problems, _ = em.params(d)
            print(d, "REAL RAISES", repr(e)[:100], "| model problems:", problems[:2]); continue
        mine, problems, _ = em.params(d)
        df = eq(mine, real)
        nd += 1
        if df or problems:
            diffs += 1; print(d, "PARAM DIFF", df[:5], problems[:3])
        if d.year >= 2015:
            fn, ov = load_and_check_functions(funcs, DEFAULT_TARGETS, list(TYPES_INPUT_VARIABLES), {}, {})
            dag = Dag(repo, d)
            a = {k: sorted(p for p in inspect.signature(f).parameters) for k, f in fn.items()}
            b = {k: sorted(x for x in v.args) for k, v in dag.nodes.items()}
            if a != b:
                diffs += 1
                ks = set(a) ^ set(b)
                print(d, "DAG DIFF names", sorted(ks)[:8], [ (k,a[k],b[k]) for k in a if k in b and a[k]!=b[k]][:3])
            if set(ov) != set(dag.overridden):
                print(d, "OVERRIDDEN DIFF", set(ov) ^ set(dag.overridden))
    print(nd, "dates compared;", diffs, "with differences")
main()
