"""Development tool: run every claimed check against every seeded change.

Each seed's patch is applied to a scratch copy of /repo/src/_gettsim (outside /repo and /verif); the
checks run on it with --root.  Prints which checks report a VIOLATION and the first report line.
usage: seed_matrix.py <dir with seed subdirs> [-k substring] [--tier quick] [-j N] [--props C01,C02]"""
import argparse
import concurrent.futures as cf
import json
import os
import shutil
import subprocess
import tempfile
from pathlib import Path

VERIF = Path(__file__).resolve().parent.parent


def run_seed(sd, props, tier):
    tmp = Path(tempfile.mkdtemp(prefix="vseed_", dir="/tmp"))
    try:
        (tmp / "src").mkdir()
        shutil.copytree("/repo/src/_gettsim", tmp / "src/_gettsim", ignore=shutil.ignore_patterns("__pycache__"))
        (tmp / "src/_gettsim_tests").mkdir()
        shutil.copy("/repo/src/_gettsim_tests/test_vectorization.py", tmp / "src/_gettsim_tests/test_vectorization.py")
        r = subprocess.run(["patch", "-p1", "--forward", "--no-backup-if-mismatch", "-i", str(sd / "patch.diff")], cwd=tmp, capture_output=True, text=True)
        if r.returncode != 0:
            return sd.name, {"PATCH": ("fail", r.stdout[-300:] + r.stderr[-200:])}
        out = {}
        env = dict(os.environ, VERIF_EVIDENCE_DIR=str(tmp / "ev"))
        for p in props:
            c = subprocess.run([str(VERIF / "vcheck"), p, "--tier", tier, "--root", str(tmp)], capture_output=True, text=True, env=env, timeout=1800)
            lines = [l for l in c.stdout.splitlines() if l.startswith("  ") and "[" in l]
            if c.returncode == 2:
                lines = [l for l in c.stdout.splitlines() if "ANALYSIS-ERROR" in l]
            out[p] = (c.returncode, lines[0][:260] if lines else "")
        return sd.name, out
    finally:
        shutil.rmtree(tmp, ignore_errors=True)


def main():
    ap = argparse.ArgumentParser()
    ap.add_argument("dir")
    ap.add_argument("-k", default="")
    ap.add_argument("--tier", default="quick")
    ap.add_argument("-j", type=int, default=6)
    ap.add_argument("--props", default="")
    ap.add_argument("--out", default="/tmp/seed_matrix.json")
    a = ap.parse_args()
    props = a.props.split(",") if a.props else [c["property_id"] for c in json.load(open(VERIF / "MANIFEST.json"))["checks"]]
    seeds = sorted(p for p in Path(a.dir).iterdir() if p.is_dir() and (p / "patch.diff").exists() and a.k in p.name)
    res = {}
    with cf.ThreadPoolExecutor(a.j) as ex:
        for name, out in ex.map(lambda sd: run_seed(sd, props, a.tier), seeds):
            res[name] = out
            hits = [p for p, (rc, _) in out.items() if rc == 1]
            errs = [p for p, (rc, _) in out.items() if rc not in (0, 1)]
            own = name.split("_")[0]
            print(f"{name}: caught by {hits or '-'}" + (f"  analysis-error in {errs}" if errs else "") + ("" if own in hits or not hits else f"  (own property {own} silent)"))
            for p in hits + errs:
                print(f"      {p}: {out[p][1]}")
    json.dump(res, open(a.out, "w"), indent=1)


main()
