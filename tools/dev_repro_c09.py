"""DEVELOPMENT TOOL - executes GETTSIM.  Reproduces C09 lint findings: compares numpy.vectorize(rule)
with the array form produced by the real rewriter on sampled inputs."""
import sys, json, glob, random, inspect, datetime, warnings, importlib, copy
warnings.filterwarnings("ignore")
import numpy
from _gettsim.policy_environment import set_up_policy_environment
from _gettsim.functions_loader import load_internal_functions
from _gettsim.vectorization import make_vectorizable
random.seed(3)
allf = load_internal_functions()
res = {}
for p in sorted(glob.glob("/verif/evidence/replay/C09-*.json")):
    rp = json.load(open(p))
    if rp["rule"] not in ("S1", "S2", "S3", "S4"): continue
    qual = rp["key"].split("|")[0]; name = qual.split(":")[1]
    f = [v for v in allf.values() if v.__name__ == name][0]
    info = getattr(f, "__info__", {})
    d = max(info.get("start_date", datetime.date(1,1,1)), datetime.date(1990,1,1))
    d = min(d if d.year > 1 else datetime.date(2020,1,1), info.get("end_date", datetime.date(9999,1,1)))
    if d.year < 1985: d = datetime.date(2010,1,1)
    params, _ = set_up_policy_environment(d)
    sig = inspect.signature(f)
    n = 6
    kw = {}
    for a, prm in sig.parameters.items():
        if a.endswith("_params"): kw[a] = params[a[:-7]]
        elif prm.annotation is float: kw[a] = numpy.array([random.choice([0.0, 10.0, 61.5, 63.0, 65.0, 67.0, 1000.0, 2500.0]) for _ in range(n)])
        elif prm.annotation is int: kw[a] = numpy.array([random.choice([0, 1, 2, 3, 30, 63, 65, 1950, 1960]) for _ in range(n)])
        elif prm.annotation is bool: kw[a] = numpy.array([random.choice([True, False]) for _ in range(n)])
    data_kw = {k: v for k, v in kw.items() if not k.endswith("_params")}
    par_kw = {k: v for k, v in kw.items() if k.endswith("_params")}
    try:
        scal = numpy.vectorize(lambda **x: f(**x, **par_kw))(**copy.deepcopy(data_kw))
    except Exception as e:
        scal = f"SCALAR RAISES {type(e).__name__}"
    try:
        vec = make_vectorizable(f, "numpy")
        arr = vec(**copy.deepcopy(data_kw), **par_kw)
        verdict = "SAME" if (not isinstance(scal, str)) and numpy.allclose(numpy.asarray(scal, dtype=float), numpy.broadcast_to(numpy.asarray(arr, dtype=float), numpy.shape(scal))) else "DIFFERENT NUMBERS"
    except Exception as e:
        verdict = f"LOUD {type(e).__name__}: {str(e)[:60]}"
    print(rp["rule"], qual, d, "->", verdict)
    res[rp["key"]] = verdict
json.dump(res, open("/verif/tools/repro_c09_result.json", "w"), indent=1, ensure_ascii=False)
