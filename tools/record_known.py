"""DEVELOPMENT TOOL: append the findings of the last run of a property (evidence/replay/<id>-*.json)
to known_findings.json after they have been triaged as genuine defects (reproduced against the real
code).  Checks never write this file.   usage: record_known.py C03 "<reproduction note>" [rule-filter]"""
import glob, json, sys
prop, note = sys.argv[1], sys.argv[2]
rf = sys.argv[3] if len(sys.argv) > 3 else None
path = "/verif/known_findings.json"
try: kf = json.load(open(path))
except FileNotFoundError: kf = {"findings": []}
have = {(k["property"], k["rule"], k["key"]) for k in kf["findings"]}
n = 0
for p in sorted(glob.glob(f"/verif/evidence/replay/{prop}-*.json")):
    rp = json.load(open(p))
    if rf and rp["rule"] != rf: continue
    ident = (prop, rp["rule"], rp["key"])
    if ident in have: continue
    kf["findings"].append({"property": prop, "rule": rp["rule"], "key": rp["key"], "where": rp["where"],
                           "what": rp["message"], "reproduced": note, "status": "known"})
    n += 1
json.dump(kf, open(path, "w"), indent=1, ensure_ascii=False)
print("added", n, "entries;", len(kf["findings"]), "total")
