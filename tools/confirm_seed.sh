#!/bin/bash
# DEVELOPMENT TOOL (runs GETTSIM's tests): confirm a seeded change in a scratch worktree.
# usage: confirm_seed.sh <dir with patch.diff + demo.py|test_demo.py> [jobs]
set -u
D=$(realpath "$1"); J=${2:-8}
NAME=$(basename "$D"); WT=/tmp/confirm_wt/$NAME
mkdir -p /tmp/confirm_wt; rm -rf "$WT"; git -C /repo worktree prune
git -C /repo worktree add --detach "$WT" HEAD >/dev/null 2>&1 || { echo "worktree failed"; exit 3; }
cp /repo/src/_gettsim/_version.py "$WT/src/_gettsim/" 2>/dev/null
DEMO=$(ls "$D"/demo.py "$D"/test_demo.py 2>/dev/null | head -1)
run_demo() { if [[ "$DEMO" == *test_demo.py ]]; then (cd "$WT" && PYTHONPATH="$WT/src" timeout 900 /venv/bin/python -m pytest -q -p no:cacheprovider "$DEMO" >/dev/null 2>&1); else (cd "$WT" && PYTHONPATH="$WT/src" timeout 900 /venv/bin/python "$DEMO" >/dev/null 2>&1); fi; echo $?; }
R0=$(run_demo)
if ! git -C "$WT" apply "$D/patch.diff" 2>/dev/null; then
  # the tree moved on (fix: commits); try with fuzz and re-base the stored patch onto the current HEAD
  if (cd "$WT" && patch -p1 --forward --no-backup-if-mismatch -s -i "$D/patch.diff"); then
    cp "$D/patch.diff" "$D/patch.orig.diff"; git -C "$WT" diff > "$D/patch.diff"; echo "$NAME: patch re-based onto current HEAD"
  else echo "$NAME: PATCH DOES NOT APPLY"; git -C /repo worktree remove --force "$WT"; exit 3; fi
fi
R1=$(run_demo)
SUITE=$(cd "$WT" && PYTHONPATH="$WT/src" /venv/bin/python -m pytest -q -p no:cacheprovider -n "$J" src/_gettsim_tests 2>&1 | tail -1)
git -C /repo worktree remove --force "$WT"
echo "$NAME: demo_clean_exit=$R0 demo_mutant_exit=$R1 suite='$SUITE'"
PASSED=$(echo "$SUITE" | grep -o '[0-9]* passed' | grep -o '[0-9]*'); FAILED=$(echo "$SUITE" | grep -o '[0-9]* failed' | grep -o '[0-9]*')
# the baseline is 5426 passed / 11 failed; a change that adds a rule may add a parametrised test case
OK=no; [[ "$R0" == 0 && "$R1" != 0 && "${PASSED:-0}" -ge 5426 && "${FAILED:-99}" -le 11 ]] && OK=yes
echo "{\"demo_clean_exit\": $R0, \"demo_mutant_exit\": $R1, \"suite\": \"$SUITE\", \"confirmed\": \"$OK\"}" > "$D/confirm.json"
[[ $OK == yes ]]
