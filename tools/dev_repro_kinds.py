"""DEVELOPMENT TOOL - executes GETTSIM.  Reproduces T1/T2 findings against the real rules: calls
the real scalar function on sampled arguments and records the Python types it returns."""
import sys, json, random, inspect, datetime, itertools, warnings, glob
warnings.filterwarnings("ignore")
from _gettsim.policy_environment import set_up_policy_environment
from _gettsim.functions_loader import load_internal_functions
random.seed(1)
F = [0.0, 0.5, 1.0, 99.99, 450.0, 1234.56, 5000.0, 30000.0, 1e5, 3.0, 12.0]
I = [0, 1, 2, 3, 5, 17, 18, 24, 30, 45, 58, 64, 67, 70, 1950, 1960, 2000, 2016]
allf = load_internal_functions()
out = {}
for p in sorted(glob.glob("/verif/evidence/replay/C03-*.json")):
    rp = json.load(open(p))
    qual = rp["key"].split("|")[0]; name = qual.split(":")[1]
    f = [v for k, v in allf.items() if v.__name__ == name][0]
    info = getattr(f, "__info__", {})
    sd = info.get("start_date", datetime.date(1,1,1)); ed = info.get("end_date", datetime.date(9999,1,1))
    d = max(sd, datetime.date(2015,1,1))
    if d > ed: d = max(sd, datetime.date(ed.year, 1, 1)) if ed.year > 1 else datetime.date(2000,1,1)
    if d < datetime.date(1985,1,1): d = datetime.date(min(ed.year, 2000),1,1)
    if name == "_unterhaltsvors_anspruch_kind_m_anwendungsvors": d = datetime.date(2015,1,1)
    params, _ = set_up_policy_environment(d)
    sig = inspect.signature(f)
    seen = {}
    for _ in range(4000):
        kw = {}
        for a, prm in sig.parameters.items():
            if a.endswith("_params"): kw[a] = params[a[:-7]]
            elif prm.annotation is float: kw[a] = random.choice(F)
            elif prm.annotation is int: kw[a] = random.choice(I)
            elif prm.annotation is bool: kw[a] = random.choice([True, False])
            else: kw[a] = random.choice(F)
        try: r = f(**kw)
        except Exception as e:
            seen.setdefault("EXC:" + type(e).__name__, {k: v for k, v in kw.items() if not k.endswith("_params")}); continue
        seen.setdefault(type(r).__name__, {k: v for k, v in kw.items() if not k.endswith("_params")})
    out[qual] = {"date": str(d), "declared": str(sig.return_annotation), "observed": {k: v for k, v in seen.items()}}
    print(qual, d, "declared", sig.return_annotation.__name__, "observed", sorted(seen))
json.dump(out, open("/verif/tools/repro_kinds_result.json", "w"), indent=1, default=str, ensure_ascii=False)
