#!/bin/bash
# apply a seeded change to /repo, run checks, undo.  usage: try_seed.sh <seed dir> [prop ...]
D=$(realpath "$1"); shift
PROPS="$@"; [ -z "$PROPS" ] && PROPS=$(python3 -c "import json;print(' '.join(c['property_id'] for c in json.load(open('/verif/MANIFEST.json'))['checks']))")
cd /verif
if ! git -C /repo diff --quiet; then echo "/repo is dirty - refusing"; exit 3; fi
git -C /repo apply "$D/patch.diff" || { echo "patch does not apply"; exit 3; }
trap 'git -C /repo checkout -- . ; git -C /repo clean -fdq src' EXIT
for p in $PROPS; do
  out=$(VERIF_EVIDENCE_DIR=/tmp/try_seed_ev ./vcheck $p 2>&1); rc=$?
  echo "== $(basename $D) $p exit=$rc"
  echo "$out" | grep -E "^\s+src/|ANALYSIS-ERROR|^  [0-9]" | grep -v KNOWN | head -4
done
