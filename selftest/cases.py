"""Seeded breaks and benign twins for every rule (see DESIGN.md §3.11 and §4)."""
from .run import Case, append, newfile, resub, sub

CASES = []


def B(name, prop, edits, expect=None, tier="quick"):
    CASES.append(Case(name, prop, "break", edits if isinstance(edits, list) else [edits], expect, tier))


def T(name, prop, edits, tier="quick"):
    CASES.append(Case(name, prop, "twin", edits if isinstance(edits, list) else [edits], None, tier))


# ------------------------------------------------------------------ C18
B("c18-mistyped-rate-2007", "C18", resub("parameters/eink_st.yaml", r"(2007-01-01:\n(?:.+\n)+?      rate_linear: )0\.15", r"\g<1>0.51"), "W2")
B("c18-swapped-thresholds", "C18", resub("parameters/eink_st.yaml", r"(2005-01-01:\n(?:.+\n)+?      upper_threshold: )12739", r"\g<1>52152"), "W1")
B("c18-soli-transition-threshold", "C18", sub("parameters/soli_st.yaml", "upper_threshold: 1089.6", "upper_threshold: 1189.6"), "W3")
B("c18-evaluator-side-left", "C18", sub("piecewise_functions.py", 'side="right"', 'side="left"'), "E")
B("c18-evaluator-power", "C18", sub("piecewise_functions.py", "* (increment_to_calc**pol)", "* (increment_to_calc ** (pol - 1))"), "E")
T("c18-new-year-tariff", "C18", resub("parameters/eink_st.yaml", r"(\n  2005-01-01:\n)", r"\n  2004-07-01:\n    deviation_from: previous\n    1:\n      upper_threshold: 12800\n\1"))
T("c18-evaluator-renamed-locals", "C18", [sub("piecewise_functions.py", "selected_bin", "idx", count=99), sub("piecewise_functions.py", "increment_to_calc", "delta", count=99)])

# ------------------------------------------------------------------ C03
B("c03-yaml-float-to-int", "C03", sub("parameters/elterngeld.yaml", "    scalar: 75.0\n", "    scalar: 75\n"), "elterngeld_geschwisterbonus_m")
B("c03-float-rule-returns-comparison", "C03", sub("transfers/elterngeld.py", "    else:\n        out = 0.0\n    return out\n\n\ndef elterngeld_mehrlingsbonus_m", "    else:\n        out = elterngeld_basisbetrag_m > 0\n    return out\n\n\ndef elterngeld_mehrlingsbonus_m"), "elterngeld_geschwisterbonus_m")
B("c03-int-literal-branch", "C03", resub("transfers/unterhaltsvors.py", r"kind_unterh_erhalt_m,\s*0\.0\s*\)", "kind_unterh_erhalt_m, 0)"), "unterhaltsvors_m")
B("c03-unwrapped-rule", "C03", sub("functions_loader.py", "vectorized_functions = {fn: _vectorize_func(f) for fn, f in functions.items()}", "vectorized_functions = {fn: (f if fn.startswith('_') else _vectorize_func(f)) for fn, f in functions.items()}"), "P0")
T("c03-yaml-int-to-float", "C03", sub("parameters/eink_st_abzuege.yaml", "scalar: 4000\n", "scalar: 4000.0\n", count=9))
T("c03-float-wrap", "C03", sub("transfers/elterngeld.py", "    else:\n        out = 0.0\n    return out\n\n\ndef elterngeld_mehrlingsbonus_m", "    else:\n        out = 0.0\n    return float(out)\n\n\ndef elterngeld_mehrlingsbonus_m"))

# ------------------------------------------------------------------ C08
B("c08-dropped-key-in-newest-entry", "C08", resub("parameters/sozialv_beitr.yaml", r"(  2023-07-01:\n    deviation_from: previous\n    ges_pflegev:\n      standard: 0.017\n)      zusatz_kinderlos: 0.006\n", r"    ges_pflegev:\n      standard: 0.017\n".replace("    ges_pflegev", "  2023-07-01:\n    ges_pflegev")), "K")
B("c08-rule-starts-before-its-parameter", "C08", [sub("transfers/rente.py", '@policy_info(end_date="2020-12-31")\ndef ges_rente_m', '@policy_info(end_date="2020-11-30")\ndef ges_rente_m'), sub("transfers/rente.py", 'start_date="2021-01-01"', 'start_date="2020-12-01"', count=1)], "K")
B("c08-new-argument-without-source", "C08", sub("transfers/kindergeld.py", "def kindergeld_ohne_staffelung_m(\n", "def kindergeld_ohne_staffelung_m(\n    kinderbonus_sonderzahlung_m_hh: float,\n"), "K2")
B("c08-yaml-date-moved-later", "C08", sub("parameters/ges_rente.yaml", "  2017-01-01:\n    scalar: 0.4\n", "  2017-07-01:\n    scalar: 0.4\n"), "K3")
T("c08-new-entry-repeating-all-keys", "C08", resub("parameters/kindergeld.yaml", r"(    note: Inflationsausgleichsgesetz\n    scalar: 250\n)", r"\1  2029-01-01:\n    scalar: 280\n"))
