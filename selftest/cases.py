"""Seeded breaks and benign twins for every rule (see DESIGN.md §3.11 and §4)."""
from .run import Case, append, newfile, resub, sub

CASES = []


def B(name, prop, edits, expect=None, tier="quick"):
    CASES.append(Case(name, prop, "break", edits if isinstance(edits, list) else [edits], expect, tier))


def T(name, prop, edits, tier="quick"):
    CASES.append(Case(name, prop, "twin", edits if isinstance(edits, list) else [edits], None, tier))


# ------------------------------------------------------------------ C18
B("c18-mistyped-rate-2007", "C18", resub("parameters/eink_st.yaml", r"(2007-01-01:\n(?:.+\n)+?      rate_linear: )0\.15", r"\g<1>0.51"), "W2")
B("c18-swapped-thresholds", "C18", resub("parameters/eink_st.yaml", r"(2005-01-01:\n(?:.+\n)+?      upper_threshold: )12739", r"\g<1>52152"), "W1")
B("c18-soli-transition-threshold", "C18", sub("parameters/soli_st.yaml", "upper_threshold: 1089.6", "upper_threshold: 1189.6"), "W3")
B("c18-evaluator-side-left", "C18", sub("piecewise_functions.py", 'side="right"', 'side="left"'), "E")
B("c18-evaluator-power", "C18", sub("piecewise_functions.py", "* (increment_to_calc**pol)", "* (increment_to_calc ** (pol - 1))"), "E")
T("c18-new-year-tariff", "C18", resub("parameters/eink_st.yaml", r"(\n  2005-01-01:\n)", r"\n  2004-07-01:\n    deviation_from: previous\n    1:\n      upper_threshold: 12800\n\1"))
T("c18-evaluator-renamed-locals", "C18", [sub("piecewise_functions.py", "selected_bin", "idx", count=99), sub("piecewise_functions.py", "increment_to_calc", "delta", count=99)])
