"""Seeded breaks and benign twins for every rule (see DESIGN.md §3.11 and §4)."""
from .run import Case, append, newfile, resub, sub

CASES = []


def B(name, prop, edits, expect=None, tier="quick"):
    CASES.append(Case(name, prop, "break", edits if isinstance(edits, list) else [edits], expect, tier))


def T(name, prop, edits, tier="quick"):
    CASES.append(Case(name, prop, "twin", edits if isinstance(edits, list) else [edits], None, tier))


# ------------------------------------------------------------------ C18
B("c18-mistyped-rate-2007", "C18", resub("parameters/eink_st.yaml", r"(2007-01-01:\n(?:.+\n)+?      rate_linear: )0\.15", r"\g<1>0.51"), "W2")
B("c18-swapped-thresholds", "C18", resub("parameters/eink_st.yaml", r"(2005-01-01:\n(?:.+\n)+?      upper_threshold: )12739", r"\g<1>52152"), "W1")
B("c18-soli-transition-threshold", "C18", sub("parameters/soli_st.yaml", "upper_threshold: 1089.6", "upper_threshold: 1189.6"), "W3")
B("c18-evaluator-side-left", "C18", sub("piecewise_functions.py", 'side="right"', 'side="left"'), "E")
B("c18-evaluator-power", "C18", sub("piecewise_functions.py", "* (increment_to_calc**pol)", "* (increment_to_calc ** (pol - 1))"), "E")
T("c18-new-year-tariff", "C18", resub("parameters/eink_st.yaml", r"(\n  2005-01-01:\n)", r"\n  2004-07-01:\n    deviation_from: previous\n    1:\n      upper_threshold: 12800\n\1"))
T("c18-evaluator-renamed-locals", "C18", [sub("piecewise_functions.py", "selected_bin", "idx", count=99), sub("piecewise_functions.py", "increment_to_calc", "delta", count=99)])

# ------------------------------------------------------------------ C03
B("c03-yaml-float-to-int", "C03", sub("parameters/elterngeld.yaml", "    scalar: 75.0\n", "    scalar: 75\n"), "elterngeld_geschwisterbonus_m")
B("c03-float-rule-returns-comparison", "C03", sub("transfers/elterngeld.py", "    else:\n        out = 0.0\n    return out\n\n\ndef elterngeld_mehrlingsbonus_m", "    else:\n        out = elterngeld_basisbetrag_m > 0\n    return out\n\n\ndef elterngeld_mehrlingsbonus_m"), "elterngeld_geschwisterbonus_m")
B("c03-int-literal-branch", "C03", resub("transfers/unterhaltsvors.py", r"kind_unterh_erhalt_m,\s*0\.0\s*\)", "kind_unterh_erhalt_m, 0)"), "unterhaltsvors_m")
B("c03-unwrapped-rule", "C03", sub("functions_loader.py", "vectorized_functions = {fn: _vectorize_func(f) for fn, f in functions.items()}", "vectorized_functions = {fn: (f if fn.startswith('_') else _vectorize_func(f)) for fn, f in functions.items()}"), "P0")
T("c03-yaml-int-to-float", "C03", sub("parameters/eink_st_abzuege.yaml", "scalar: 4000\n", "scalar: 4000.0\n", count=9))
T("c03-float-wrap", "C03", sub("transfers/elterngeld.py", "    else:\n        out = 0.0\n    return out\n\n\ndef elterngeld_mehrlingsbonus_m", "    else:\n        out = 0.0\n    return float(out)\n\n\ndef elterngeld_mehrlingsbonus_m"))

# ------------------------------------------------------------------ C08
B("c08-dropped-key-in-newest-entry", "C08", resub("parameters/sozialv_beitr.yaml", r"(  2023-07-01:\n    deviation_from: previous\n    ges_pflegev:\n      standard: 0.017\n)      zusatz_kinderlos: 0.006\n", r"    ges_pflegev:\n      standard: 0.017\n".replace("    ges_pflegev", "  2023-07-01:\n    ges_pflegev")), "K")
B("c08-rule-starts-before-its-parameter", "C08", [sub("transfers/rente.py", '@policy_info(end_date="2020-12-31")\ndef ges_rente_m', '@policy_info(end_date="2020-11-30")\ndef ges_rente_m'), sub("transfers/rente.py", 'start_date="2021-01-01"', 'start_date="2020-12-01"', count=1)], "K")
B("c08-new-argument-without-source", "C08", sub("transfers/kindergeld.py", "def kindergeld_ohne_staffelung_m(\n", "def kindergeld_ohne_staffelung_m(\n    kinderbonus_sonderzahlung_m_hh: float,\n"), "K2")
B("c08-yaml-date-moved-later", "C08", sub("parameters/ges_rente.yaml", "  2017-01-01:\n    scalar: 0.4\n", "  2017-07-01:\n    scalar: 0.4\n"), "K3")
T("c08-new-entry-repeating-all-keys", "C08", resub("parameters/kindergeld.yaml", r"(    note: Inflationsausgleichsgesetz\n    scalar: 250\n)", r"\1  2029-01-01:\n    scalar: 280\n"))

# ------------------------------------------------------------------ C07
B("c07-second-undecorated-implementation", "C07", append("transfers/kinderbonus.py", "def kindergeld_m(kindergeld_anz_ansprüche: int) -> float:\n    return 0.0\n"), "R1")
B("c07-end-date-overlaps-successor", "C07", sub("transfers/kinderzuschl/kinderzuschl.py", 'end_date="2019-06-30",\n    name_in_dag="_kinderzuschl_vor_vermög_check_m_bg"', 'end_date="2019-07-01",\n    name_in_dag="_kinderzuschl_vor_vermög_check_m_bg"'), "R1")
B("c07-function-defined-twice", "C07", append("transfers/kindergeld.py", "def kindergeld_anz_ansprüche(kindergeld_anspruch: bool) -> int:\n    return 1\n\n\ndef kindergeld_anz_ansprüche(kindergeld_anspruch: bool) -> int:\n    return 2\n"), "R")
B("c07-unpadded-date-key", "C07", resub("parameters/kindergeld.yaml", r"\n  2023-01-01:\n", "\n  2023-1-01:\n", count=1), "Y1")
B("c07-quoted-date-key", "C07", resub("parameters/kindergeld.yaml", r"\n  2023-01-01:\n", "\n  '2023-01-01':\n", count=1), "Y1")
B("c07-param-selector-strict", "C07", sub("policy_environment.py", "past_policies = [d for d in policy_dates if d <= date]", "past_policies = [d for d in policy_dates if d < date]"), "O2")
B("c07-rounding-selector-strict", "C07", sub("policy_environment.py", "if isinstance(key, datetime.date) and key <= date", "if isinstance(key, datetime.date) and key < date"), "O3")
B("c07-rounding-picks-earliest", "C07", sub("policy_environment.py", "policy_date_in_place = numpy.max(policy_dates_before_date)", "policy_date_in_place = numpy.min(policy_dates_before_date)"), "O3")
B("c07-activity-exclusive-end", "C07", sub("policy_environment.py", 'f.__info__["start_date"] <= date <= f.__info__["end_date"]', 'f.__info__["start_date"] <= date < f.__info__["end_date"]'), "O1")
B("c07-conflict-test-one-sided", "C07", sub("shared.py", '            start <= f.__info__["start_date"] <= end\n            or f.__info__["start_date"] <= start <= f.__info__["end_date"]\n', '            start <= f.__info__["start_date"] <= end\n'), "O4")
B("c07-deviation-target-missing", "C07", sub("parameters/arbeitsl_geld_2.yaml", "deviation_from: arbeitsl_geld_2.eink_anr_frei", "deviation_from: arbeitsl_geld_2.eink_anr_frei_neu", count=1), "Y")
T("c07-activity-respelled", "C07", sub("policy_environment.py", 'return f.__info__["start_date"] <= date <= f.__info__["end_date"]', 'return not (date < f.__info__["start_date"] or date > f.__info__["end_date"])'))
T("c07-selector-respelled", "C07", sub("policy_environment.py", "past_policies = [d for d in policy_dates if d <= date]", "past_policies = [d for d in policy_dates if not date < d]"))
T("c07-new-dated-entry", "C07", resub("parameters/kindergeld.yaml", r"(    note: Inflationsausgleichsgesetz\n    scalar: 250\n)", r"\1  2029-03-01:\n    scalar: 280\n"))

# ------------------------------------------------------------------ C13
B("c13-wrong-week-constant", "C13", sub("time_conversion.py", "_W_PER_Y = 365.25 / 7", "_W_PER_Y = 365.25 / 12"), "Q1")
B("c13-table-entry-swapped", "C13", sub("time_conversion.py", '"w_to_d": w_to_d,', '"w_to_d": d_to_w,'), "Q2")
B("c13-converter-multiplies-both", "C13", sub("time_conversion.py", "return value * _M_PER_Y / _D_PER_Y", "return value * _M_PER_Y * _D_PER_Y"), "Q1")
B("c13-lookup-key-reversed", "C13", sub("time_conversion.py", 'f"{time_unit}_to_{missing_time_unit}"', 'f"{missing_time_unit}_to_{time_unit}"'), "Q2")
B("c13-independent-yearly-rule", "C13", append("transfers/kindergeld.py", "def kindergeld_y(kindergeld_anz_ansprüche: int, kindergeld_params: dict) -> float:\n    return 11.5 * kindergeld_anz_ansprüche\n"), "Q3")
T("c13-converter-respelled", "C13", sub("time_conversion.py", "    return value / _M_PER_Y\n", "    return value * (1 / _M_PER_Y)\n"))
T("c13-days-constant-respelled", "C13", sub("time_conversion.py", "_D_PER_Y = 365.25", "_D_PER_Y = 1461 / 4"))
