"""Seeded breaks and benign twins for every rule (see DESIGN.md §3.11 and §4)."""
from .run import Case, append, newfile, resub, sub

CASES = []


def B(name, prop, edits, expect=None, tier="quick"):
    CASES.append(Case(name, prop, "break", edits if isinstance(edits, list) else [edits], expect, tier))


def T(name, prop, edits, tier="quick"):
    CASES.append(Case(name, prop, "twin", edits if isinstance(edits, list) else [edits], None, tier))


# ------------------------------------------------------------------ C18
B("c18-mistyped-rate-2007", "C18", resub("parameters/eink_st.yaml", r"(2007-01-01:\n(?:.+\n)+?      rate_linear: )0\.15", r"\g<1>0.51"), "W2")
B("c18-swapped-thresholds", "C18", resub("parameters/eink_st.yaml", r"(2005-01-01:\n(?:.+\n)+?      upper_threshold: )12739", r"\g<1>52152"), "W1")
B("c18-soli-transition-threshold", "C18", sub("parameters/soli_st.yaml", "upper_threshold: 1089.6", "upper_threshold: 1189.6"), "W3")
B("c18-evaluator-side-left", "C18", sub("piecewise_functions.py", 'side="right"', 'side="left"'), "E")
B("c18-evaluator-power", "C18", sub("piecewise_functions.py", "* (increment_to_calc**pol)", "* (increment_to_calc ** (pol - 1))"), "E")
T("c18-new-year-tariff", "C18", resub("parameters/eink_st.yaml", r"(\n  2005-01-01:\n)", r"\n  2004-07-01:\n    deviation_from: previous\n    1:\n      upper_threshold: 12800\n\1"))
T("c18-evaluator-renamed-locals", "C18", [sub("piecewise_functions.py", "selected_bin", "idx", count=99), sub("piecewise_functions.py", "increment_to_calc", "delta", count=99)])

# ------------------------------------------------------------------ C03
B("c03-yaml-float-to-int", "C03", sub("parameters/elterngeld.yaml", "    scalar: 75.0\n", "    scalar: 75\n"), "elterngeld_geschwisterbonus_m")
B("c03-float-rule-returns-comparison", "C03", sub("transfers/elterngeld.py", "    else:\n        out = 0.0\n    return out\n\n\ndef elterngeld_mehrlingsbonus_m", "    else:\n        out = elterngeld_basisbetrag_m > 0\n    return out\n\n\ndef elterngeld_mehrlingsbonus_m"), "elterngeld_geschwisterbonus_m")
B("c03-int-literal-branch", "C03", resub("transfers/unterhaltsvors.py", r"kind_unterh_erhalt_m,\s*0\.0\s*\)", "kind_unterh_erhalt_m, 0)"), "unterhaltsvors_m")
B("c03-unwrapped-rule", "C03", sub("functions_loader.py", "vectorized_functions = {fn: _vectorize_func(f) for fn, f in functions.items()}", "vectorized_functions = {fn: (f if fn.startswith('_') else _vectorize_func(f)) for fn, f in functions.items()}"), "P0")
T("c03-yaml-int-to-float", "C03", sub("parameters/eink_st_abzuege.yaml", "scalar: 4000\n", "scalar: 4000.0\n", count=9))
T("c03-float-wrap", "C03", sub("transfers/elterngeld.py", "    else:\n        out = 0.0\n    return out\n\n\ndef elterngeld_mehrlingsbonus_m", "    else:\n        out = 0.0\n    return float(out)\n\n\ndef elterngeld_mehrlingsbonus_m"))

# ------------------------------------------------------------------ C08
B("c08-dropped-key-in-newest-entry", "C08", resub("parameters/sozialv_beitr.yaml", r"(  2023-07-01:\n    deviation_from: previous\n    ges_pflegev:\n      standard: 0.017\n)      zusatz_kinderlos: 0.006\n", r"    ges_pflegev:\n      standard: 0.017\n".replace("    ges_pflegev", "  2023-07-01:\n    ges_pflegev")), "K")
B("c08-rule-starts-before-its-parameter", "C08", [sub("transfers/rente.py", '@policy_info(end_date="2020-12-31")\ndef ges_rente_m', '@policy_info(end_date="2020-11-30")\ndef ges_rente_m'), sub("transfers/rente.py", 'start_date="2021-01-01"', 'start_date="2020-12-01"', count=1)], "K")
B("c08-new-argument-without-source", "C08", sub("transfers/kindergeld.py", "def kindergeld_ohne_staffelung_m(\n", "def kindergeld_ohne_staffelung_m(\n    kinderbonus_sonderzahlung_m_hh: float,\n"), "K2")
B("c08-yaml-date-moved-later", "C08", sub("parameters/ges_rente.yaml", "  2017-01-01:\n    scalar: 0.4\n", "  2017-07-01:\n    scalar: 0.4\n"), "K3")
T("c08-new-entry-repeating-all-keys", "C08", resub("parameters/kindergeld.yaml", r"(    note: Inflationsausgleichsgesetz\n    scalar: 250\n)", r"\1  2029-01-01:\n    scalar: 280\n"))

# ------------------------------------------------------------------ C07
B("c07-second-undecorated-implementation", "C07", append("transfers/kinderbonus.py", "def kindergeld_m(kindergeld_anz_ansprüche: int) -> float:\n    return 0.0\n"), "R1")
B("c07-end-date-overlaps-successor", "C07", sub("transfers/kinderzuschl/kinderzuschl.py", 'end_date="2019-06-30",\n    name_in_dag="_kinderzuschl_vor_vermög_check_m_bg"', 'end_date="2019-07-01",\n    name_in_dag="_kinderzuschl_vor_vermög_check_m_bg"'), "R1")
B("c07-function-defined-twice", "C07", append("transfers/kindergeld.py", "def kindergeld_anz_ansprüche(kindergeld_anspruch: bool) -> int:\n    return 1\n\n\ndef kindergeld_anz_ansprüche(kindergeld_anspruch: bool) -> int:\n    return 2\n"), "R")
B("c07-unpadded-date-key", "C07", resub("parameters/kindergeld.yaml", r"\n  2023-01-01:\n", "\n  2023-1-01:\n", count=1), "Y1")
B("c07-quoted-date-key", "C07", resub("parameters/kindergeld.yaml", r"\n  2023-01-01:\n", "\n  '2023-01-01':\n", count=1), "Y1")
B("c07-param-selector-strict", "C07", sub("policy_environment.py", "past_policies = [d for d in policy_dates if d <= date]", "past_policies = [d for d in policy_dates if d < date]"), "O2")
B("c07-rounding-selector-strict", "C07", sub("policy_environment.py", "if isinstance(key, datetime.date) and key <= date", "if isinstance(key, datetime.date) and key < date"), "O3")
B("c07-rounding-picks-earliest", "C07", sub("policy_environment.py", "policy_date_in_place = numpy.max(policy_dates_before_date)", "policy_date_in_place = numpy.min(policy_dates_before_date)"), "O3")
B("c07-activity-exclusive-end", "C07", sub("policy_environment.py", 'f.__info__["start_date"] <= date <= f.__info__["end_date"]', 'f.__info__["start_date"] <= date < f.__info__["end_date"]'), "O1")
B("c07-conflict-test-one-sided", "C07", sub("shared.py", '            start <= f.__info__["start_date"] <= end\n            or f.__info__["start_date"] <= start <= f.__info__["end_date"]\n', '            start <= f.__info__["start_date"] <= end\n'), "O4")
B("c07-deviation-target-missing", "C07", sub("parameters/arbeitsl_geld_2.yaml", "deviation_from: arbeitsl_geld_2.eink_anr_frei", "deviation_from: arbeitsl_geld_2.eink_anr_frei_neu", count=1), "Y")
T("c07-activity-respelled", "C07", sub("policy_environment.py", 'return f.__info__["start_date"] <= date <= f.__info__["end_date"]', 'return not (date < f.__info__["start_date"] or date > f.__info__["end_date"])'))
T("c07-selector-respelled", "C07", sub("policy_environment.py", "past_policies = [d for d in policy_dates if d <= date]", "past_policies = [d for d in policy_dates if not date < d]"))
T("c07-new-dated-entry", "C07", resub("parameters/kindergeld.yaml", r"(    note: Inflationsausgleichsgesetz\n    scalar: 250\n)", r"\1  2029-03-01:\n    scalar: 280\n"))

# ------------------------------------------------------------------ C13
B("c13-wrong-week-constant", "C13", sub("time_conversion.py", "_W_PER_Y = 365.25 / 7", "_W_PER_Y = 365.25 / 12"), "Q1")
B("c13-table-entry-swapped", "C13", sub("time_conversion.py", '"w_to_d": w_to_d,', '"w_to_d": d_to_w,'), "Q2")
B("c13-converter-multiplies-both", "C13", sub("time_conversion.py", "return value * _M_PER_Y / _D_PER_Y", "return value * _M_PER_Y * _D_PER_Y"), "Q1")
B("c13-lookup-key-reversed", "C13", sub("time_conversion.py", 'f"{time_unit}_to_{missing_time_unit}"', 'f"{missing_time_unit}_to_{time_unit}"'), "Q2")
B("c13-independent-yearly-rule", "C13", append("transfers/kindergeld.py", "def kindergeld_y(kindergeld_anz_ansprüche: int, kindergeld_params: dict) -> float:\n    return 11.5 * kindergeld_anz_ansprüche\n"), "Q3")
T("c13-converter-respelled", "C13", sub("time_conversion.py", "    return value / _M_PER_Y\n", "    return value * (1 / _M_PER_Y)\n"))
T("c13-days-constant-respelled", "C13", sub("time_conversion.py", "_D_PER_Y = 365.25", "_D_PER_Y = 1461 / 4"))

# ------------------------------------------------------------------ C01 / C02
B("c01-int-literal-in-float-rule", "C01", resub("transfers/unterhaltsvors.py", r"kind_unterh_erhalt_m,\s*0\.0\s*\)", "kind_unterh_erhalt_m, 0)"), "T1")
B("c01-column-minus-its-max", "C01", sub("transfers/arbeitsl_geld_2/kindergelduebertrag.py", "    return join_numpy(\n        p_id_kindergeld_empf,\n        p_id,\n        _mean_kindergeld_per_child_m,\n        value_if_foreign_key_is_missing=0.0,\n    )", "    out = join_numpy(\n        p_id_kindergeld_empf,\n        p_id,\n        _mean_kindergeld_per_child_m,\n        value_if_foreign_key_is_missing=0.0,\n    )\n    return out - _mean_kindergeld_per_child_m.max()", count=1), "W2")
B("c01-join-by-searchsorted", "C01", sub("shared.py", "    indices = numpy.argmax(padded_matches_foreign_key, axis=1)", "    indices = numpy.searchsorted(primary_key, foreign_key)"), "W3")
B("c01-position-as-value", "C01", sub("aggregation_numpy.py", "            out[map_p_id_to_position[id_receiver]] += column[iloc]", "            out[map_p_id_to_position[id_receiver]] += column[iloc] + 0 * iloc"), "W1")
B("c01-debug-concat-by-label", "C01", sub("interface.py", "        results = pd.DataFrame({**data, **results})", "        results = pd.concat([pd.DataFrame(data), pd.DataFrame(results)], axis=1)"), "W4")
T("c01-float-wrap", "C01", sub("transfers/elterngeld.py", "    else:\n        out = 0.0\n    return out\n\n\ndef elterngeld_mehrlingsbonus_m", "    else:\n        out = 0.0\n    return float(out)\n\n\ndef elterngeld_mehrlingsbonus_m"))
T("c01-new-whole-column-rule-with-join", "C01", append("transfers/kindergeld.py", "@policy_info(skip_vectorization=True)\ndef kindergeld_empf_alter(\n    p_id_kindergeld_empf: numpy.ndarray[int], p_id: numpy.ndarray[int], alter: numpy.ndarray[int]\n) -> numpy.ndarray[int]:\n    return join_numpy(p_id_kindergeld_empf, p_id, alter, value_if_foreign_key_is_missing=0)\n"))
B("c02-rule-writes-module-cache", "C02", append("transfers/kindergeld.py", "_cache = {}\n\n\ndef kindergeld_cached_m(kindergeld_m: float) -> float:\n    _cache[kindergeld_m] = kindergeld_m\n    return _cache[kindergeld_m]\n"), "P")
B("c02-rule-updates-params", "C02", sub("transfers/kindergeld.py", "def kindergeld_ohne_staffelung_m(\n", "def kindergeld_doubled_m(kindergeld_m: float, kindergeld_params: dict) -> float:\n    kindergeld_params.update({'seen': True})\n    return 2 * kindergeld_m\n\n\ndef kindergeld_ohne_staffelung_m(\n", count=1), "P")
B("c02-rule-reads-clock", "C02", append("transfers/kindergeld.py", "import datetime\n\n\ndef kindergeld_heute_m(kindergeld_m: float) -> float:\n    return kindergeld_m if datetime.date.today().year > 2000 else 0.0\n"), "P")
T("c02-rule-reads-module-tuple", "C02", append("transfers/kindergeld.py", "_STUFEN = (1, 2, 3)\n\n\ndef kindergeld_stufe(kindergeld_anz_ansprüche: int) -> int:\n    return _STUFEN[min(kindergeld_anz_ansprüche, 2)]\n"))

# ------------------------------------------------------------------ C05
B("c05-string-annotation", "C05", resub("transfers/kindergeld.py", r"\A", "from __future__ import annotations\n"), "A1")
B("c05-unsupported-ndarray-annotation", "C05", sub("transfers/unterhaltsvors.py", ") -> numpy.ndarray[bool]:", ") -> numpy.typing.NDArray[numpy.bool_]:", count=1), "A1")
B("c05-merge-order-rules-before-time", "C05", sub("functions_loader.py", "        **aggregate_by_p_id_functions,\n        **time_conversion_functions,\n        **vectorized_functions,\n        **aggregate_by_group_functions,", "        **aggregate_by_p_id_functions,\n        **vectorized_functions,\n        **time_conversion_functions,\n        **aggregate_by_group_functions,"), "M")
B("c05-warning-dropped", "C05", sub("interface.py", "    if columns_overriding_functions:\n        warnings.warn(", "    if columns_overriding_functions and check_minimal_specification != \"ignore\":\n        warnings.warn("), "F-warn")
B("c05-int-rule-returns-float", "C05", sub("demographic_vars.py", "def kind_bis_2(alter: int, kind: bool) -> bool:", "def alter_halbjahre(alter: int) -> int:\n    return alter / 0.5\n\n\ndef kind_bis_2(alter: int, kind: bool) -> bool:"), "T2-lossless")

# ------------------------------------------------------------------ C06 / C14
B("c06-memoised-yaml-loader", "C06", [sub("policy_environment.py", "import copy\n", "import copy\nimport functools\n", count=1), sub("policy_environment.py", "def _load_parameter_group_from_yaml(\n", "@functools.lru_cache(maxsize=None)\ndef _load_parameter_group_from_yaml(\n")], "E3")
B("c06-rule-writes-params", "C06", sub("transfers/kindergeld.py", "def kindergeld_ohne_staffelung_m(\n", "def kindergeld_flag_m(kindergeld_m: float, kindergeld_params: dict) -> float:\n    kindergeld_params['seen'] = True\n    return kindergeld_m\n\n\ndef kindergeld_ohne_staffelung_m(\n", count=1), "P-params")
B("c06-rule-writes-params-through-alias", "C06", sub("transfers/kindergeld.py", "def kindergeld_ohne_staffelung_m(\n", "def kindergeld_flag_m(kindergeld_m: float, kindergeld_params: dict) -> float:\n    p = kindergeld_params['kindergeld']\n    p[99] = 0\n    return kindergeld_m\n\n\ndef kindergeld_ohne_staffelung_m(\n", count=1), "P-params")
B("c06-functions-dict-merged-in-place", "C06", sub("functions_loader.py", "            functions = {**functions, **source}", "            functions = functions or source\n            functions.update(source)"), "E1")
T("c06-memoised-loader-with-deepcopy", "C06", [sub("policy_environment.py", "import copy\n", "import copy\nimport functools\n", count=1), sub("policy_environment.py", "    raw_group_data = yaml.load(\n        (yaml_path / f\"{group}.yaml\").read_text(encoding=\"utf-8\"),\n        Loader=yaml.CLoader,\n    )\n", "    raw_group_data = copy.deepcopy(_read_group(yaml_path, group))\n"), append("policy_environment.py", "@functools.lru_cache(maxsize=None)\ndef _read_group(yaml_path, group):\n    return yaml.load((yaml_path / f\"{group}.yaml\").read_text(encoding=\"utf-8\"), Loader=yaml.CLoader)\n")])
B("c14-dict-input-not-copied", "C14", sub("interface.py", "        # Do not modify the dictionary of the caller when converting data types.\n        data = dict(data)\n", "        pass\n"), "E1")
B("c14-exec-in-module-namespace", "C14", sub("vectorization.py", "    scope = dict(func.__globals__)", "    scope = func.__globals__"), "E")
B("c14-module-level-memo", "C14", [sub("policy_environment.py", "def load_functions_for_date(date):", "_FUNCTIONS_BY_DATE = {}\n\n\ndef load_functions_for_date(date):"), sub("policy_environment.py", "    # Using TIME_DEPENDENT_FUNCTIONS here leads to failing tests.\n    functions = {}\n", "    if date in _FUNCTIONS_BY_DATE:\n        return _FUNCTIONS_BY_DATE[date]\n    functions = {}\n    _FUNCTIONS_BY_DATE[date] = functions\n")], "E2")
B("c14-clock-in-loader", "C14", sub("policy_environment.py", "    date = _parse_date(date)\n", "    date = _parse_date(date) if date is not None else datetime.date.today()\n", count=1), "P-nondet")
T("c14-dict-input-copied-differently", "C14", sub("interface.py", "        data = dict(data)\n    elif isinstance(data, pd.Series)", "        data = {k: v for k, v in data.items()}\n    elif isinstance(data, pd.Series)"))

# ------------------------------------------------------------------ C09
B("c09-elseless-augassign-in-rule", "C09", sub("transfers/rente.py", "    if wohnort_ost:\n        out = entgeltp_ost + entgeltp_update_lohn\n    else:\n        out = entgeltp_ost\n", "    out = entgeltp_ost\n    if wohnort_ost:\n        out += entgeltp_update_lohn\n"), "S1")
B("c09-reduction-over-list-of-columns", "C09", sub("transfers/rente.py", "out = min(out, _ges_rente_frauen_altersgrenze)", "out = min([out, _ges_rente_frauen_altersgrenze])", count=9), "S4")
B("c09-rewriter-cache", "C09", [sub("vectorization.py", "BACKEND_TO_MODULE = {", "_CACHE = {}\nBACKEND_TO_MODULE = {"), sub("vectorization.py", "    module = _module_from_backend(backend)\n    tree = _make_vectorizable_ast(func, module=module)\n\n    # recreate scope", "    module = _module_from_backend(backend)\n    if func.__name__ in _CACHE:\n        return _CACHE[func.__name__]\n    _CACHE[func.__name__] = func\n    tree = _make_vectorizable_ast(func, module=module)\n\n    # recreate scope")], "E2v")
T("c09-two-argument-max", "C09", sub("transfers/rente.py", "out = min(out, _ges_rente_frauen_altersgrenze)", "out = min(_ges_rente_frauen_altersgrenze, out)", count=1))
T("c09-elseless-plain-assignment", "C09", sub("transfers/rente.py", "    if wohnort_ost:\n        out = entgeltp_ost + entgeltp_update_lohn\n    else:\n        out = entgeltp_ost\n", "    out = entgeltp_ost\n    if wohnort_ost:\n        out = entgeltp_ost + entgeltp_update_lohn\n"))

# ------------------------------------------------------------------ C10
B("c10-decorator-loses-rounding-key", "C10", sub("social_insurance_contributions/eink_grenzen.py", '@policy_info(\n    start_date="2022-10-01",\n    name_in_dag="minijob_grenze",\n    params_key_for_rounding="sozialv_beitr",\n)', '@policy_info(start_date="2022-10-01", name_in_dag="minijob_grenze")'), "SR")
B("c10-yaml-key-not-transferred", "C10", sub("policy_environment.py", 'rounding_parameters = ["direction", "base", "to_add_after_rounding"]', 'rounding_parameters = ["direction", "base"]'), "RW")
B("c10-derived-function-keeps-rounding-key", "C10", sub("time_conversion.py", '        func.__info__ = {\n            key: value\n            for key, value in info.items()\n            if key != "params_key_for_rounding"\n        }', "        func.__info__ = dict(info)"), "ONCE")
B("c10-up-rounds-with-floor", "C10", sub("interface.py", "                rounded_out = base * np.ceil(out / base)", "                rounded_out = base * np.floor(out / base)"), "WRAP")
B("c10-offset-added-twice", "C10", sub("interface.py", "            rounded_out += to_add_after_rounding\n", "            rounded_out += to_add_after_rounding\n            rounded_out += to_add_after_rounding\n"), "WRAP")
B("c10-missing-spec-silently-skipped", "C10", sub("interface.py", "            if not (\n                params_key in params\n                and \"rounding\" in params[params_key]\n                and func_name in params[params_key][\"rounding\"]\n            ):\n                raise KeyError(", "            if not (\n                params_key in params\n                and \"rounding\" in params[params_key]\n            ):\n                raise KeyError("), "MISS")
B("c10-invalid-direction", "C10", sub("parameters/eink_st.yaml", "direction: down", "direction: downwards", count=1), "SV")
T("c10-remover-by-pop", "C10", sub("time_conversion.py", '        func.__info__ = {\n            key: value\n            for key, value in info.items()\n            if key != "params_key_for_rounding"\n        }', '        info = dict(info)\n        info.pop("params_key_for_rounding", None)\n        func.__info__ = info'))

# ------------------------------------------------------------------ C11
B("c11-max-branch-calls-min", "C11", sub("functions_loader.py", "                return grouped_max(source_col, group_id)", "                return grouped_min(source_col, group_id)"), "S-dispatch")
B("c11-arguments-swapped", "C11", sub("functions_loader.py", "                return sum_by_p_id(column, p_id_to_aggregate_by, p_id_to_store_by)", "                return sum_by_p_id(column, p_id_to_store_by, p_id_to_aggregate_by)"), "S-dispatch")
B("c11-backend-alias-swapped", "C11", sub("aggregation.py", "from _gettsim.aggregation_numpy import grouped_all as grouped_all_numpy", "from _gettsim.aggregation_numpy import grouped_any as grouped_all_numpy"), "S-backend")
B("c11-user-specs-lose-precedence", "C11", sub("functions_loader.py", "    aggregate_by_group_dict = {\n        **aggregate_by_group_dict,\n        **user_provided_aggregate_by_group_specs,\n    }", "    aggregate_by_group_dict = {\n        **user_provided_aggregate_by_group_specs,\n        **aggregate_by_group_dict,\n    }"), "PREC")
B("c11-bool-sum-stays-bool", "C11", sub("functions_loader.py", '    elif (source_col_type == bool) and (aggr in ["sum"]):', '    elif (source_col_type == bool) and (aggr in ["mean"]):'), "RT")
B("c11-unimplemented-pointer-kind", "C11", sub("transfers/kindergeld.py", '"aggr": "sum"', '"aggr": "max"', count=2), "SPEC")
T("c11-branches-reordered", "C11", [sub("functions_loader.py", '        if agg_specs["aggr"] == "sum":\n\n            @rename_arguments(\n                mapper=mapper,\n                annotations=annotations,\n            )\n            def aggregate_by_group_func(source_col, group_id):\n                return grouped_sum(source_col, group_id)\n\n        elif agg_specs["aggr"] == "mean":', '        if agg_specs["aggr"] == "mean":'), sub("functions_loader.py", '                return grouped_all(source_col, group_id)\n\n        else:', '                return grouped_all(source_col, group_id)\n\n        elif agg_specs["aggr"] == "sum":\n\n            @rename_arguments(\n                mapper=mapper,\n                annotations=annotations,\n            )\n            def aggregate_by_group_func(source_col, group_id):\n                return grouped_sum(source_col, group_id)\n\n        else:')])

# ------------------------------------------------------------------ C15 / C16 / C17 / C19 / C20
B("c15-individual-argument-in-bg-rule", "C15", sub("transfers/arbeitsl_geld_2/arbeitsl_geld_2.py", "def arbeitsl_geld_2_m_bg(\n    arbeitsl_geld_2_vor_vorrang_m_bg: float,", "def arbeitsl_geld_2_m_bg(\n    alter: int,\n    arbeitsl_geld_2_vor_vorrang_m_bg: float,"), "L")
B("c15-finer-group-in-wthh-rule", "C15", sub("transfers/wohngeld.py", "vermögen_bedürft_wthh", "vermögen_bedürft_bg", count=9), "L")
B("c15-tolerant-input-check", "C15", sub("interface.py", "                if not (max_value == col).all():", "                if not numpy.isclose(max_value, col).all():"), "L-in")
T("c15-enclosing-group-argument", "C15", sub("transfers/arbeitsl_geld_2/arbeitsl_geld_2.py", "def arbeitsl_geld_2_m_bg(\n    arbeitsl_geld_2_vor_vorrang_m_bg: float,", "def arbeitsl_geld_2_m_bg(\n    anz_personen_hh: int,\n    arbeitsl_geld_2_vor_vorrang_m_bg: float,"))
B("c16-unguarded-data-denominator", "C16", sub("transfers/kindergeld.py", "def kindergeld_ohne_staffelung_m(\n", "def kindergeld_pro_kind_fg(kindergeld_m_fg: float, anz_kinder_fg: int) -> float:\n    return kindergeld_m_fg / anz_kinder_fg\n\n\ndef kindergeld_ohne_staffelung_m(\n    kindergeld_pro_kind_fg: float,\n", count=1), "Z")
B("c16-gate-pays-more-than-entitlement", "C16", sub("transfers/arbeitsl_geld_2/arbeitsl_geld_2.py", "    else:\n        out = arbeitsl_geld_2_vor_vorrang_m_bg\n", "    else:\n        out = 1.1 * arbeitsl_geld_2_vor_vorrang_m_bg\n"), "G")
B("c16-monthly-wage-capped-at-yearly-ceiling", "C16", [sub("transfers/arbeitsl_geld.py", "    _ges_rentenv_beitr_bemess_grenze_m: float,\n", "    _ges_rentenv_beitr_bemess_grenze_y: float,\n", count=1), sub("transfers/arbeitsl_geld.py", "min(bruttolohn_vorj_m, _ges_rentenv_beitr_bemess_grenze_m)", "min(bruttolohn_vorj_m, _ges_rentenv_beitr_bemess_grenze_y)")], "U")
T("c16-guarded-denominator", "C16", sub("transfers/kindergeld.py", "def kindergeld_ohne_staffelung_m(\n", "def kindergeld_pro_kind_fg(kindergeld_m_fg: float, anz_kinder_fg: int) -> float:\n    return kindergeld_m_fg / anz_kinder_fg if anz_kinder_fg > 0 else 0.0\n\n\ndef kindergeld_ohne_staffelung_m(\n    kindergeld_pro_kind_fg: float,\n", count=1))
T("c16-explicit-unit-conversion", "C16", sub("transfers/arbeitsl_geld.py", "min(bruttolohn_vorj_m, _ges_rentenv_beitr_bemess_grenze_m)", "min(bruttolohn_vorj_m, 12 * _ges_rentenv_beitr_bemess_grenze_m / 12)"))
B("c17-alg2-guard-drops-a-flag", "C17", sub("transfers/arbeitsl_geld_2/arbeitsl_geld_2.py", "        wohngeld_vorrang_bg\n        or kinderzuschl_vorrang_bg\n        or wohngeld_kinderzuschl_vorrang_bg\n", "        wohngeld_vorrang_bg\n        or wohngeld_kinderzuschl_vorrang_bg\n"), "X1")
B("c17-wthh-aggregate-all", "C17", sub("transfers/benefit_checks/benefit_checks.py", '        "source_col": "wohngeld_vorrang_bg",\n        "aggr": "any",', '        "source_col": "wohngeld_vorrang_bg",\n        "aggr": "all",'), "X2")
B("c17-wohngeld-ignores-pensioner-flag", "C17", sub("transfers/wohngeld.py", "    if not erwachsene_alle_rentner_hh and (\n        wohngeld_vorrang_wthh or wohngeld_kinderzuschl_vorrang_wthh\n    ):", "    if (\n        not erwachsene_alle_rentner_hh and wohngeld_vorrang_wthh\n    ) or wohngeld_kinderzuschl_vorrang_wthh:"), "X1")
B("c17-split-needs-both-flags", "C17", sub("groupings.py", "        if wohngeld_vorrang_bg[index] or wohngeld_kinderzuschl_vorrang_bg[index]:", "        if wohngeld_vorrang_bg[index] and wohngeld_kinderzuschl_vorrang_bg[index]:"), "X2")
T("c17-disjuncts-reordered", "C17", sub("transfers/arbeitsl_geld_2/arbeitsl_geld_2.py", "        wohngeld_vorrang_bg\n        or kinderzuschl_vorrang_bg\n        or wohngeld_kinderzuschl_vorrang_bg\n", "        kinderzuschl_vorrang_bg\n        or wohngeld_kinderzuschl_vorrang_bg\n        or wohngeld_vorrang_bg\n"))
T("c17-split-vectorised", "C17", sub("groupings.py", "    result = []\n    for index, current_hh_id in enumerate(hh_id):\n        if wohngeld_vorrang_bg[index] or wohngeld_kinderzuschl_vorrang_bg[index]:\n            result.append(current_hh_id * 100 + 1)\n        else:\n            result.append(current_hh_id * 100)\n\n    return numpy.asarray(result)", "    vorrang = wohngeld_vorrang_bg | wohngeld_kinderzuschl_vorrang_bg\n    return numpy.where(vorrang, hh_id * 100 + 1, hh_id * 100)"))
B("c19-wage-not-capped", "C19", sub("social_insurance_contributions/ges_rentenv.py", "    out = min(bruttolohn_m, _ges_rentenv_beitr_bemess_grenze_m)\n    return out", "    out = bruttolohn_m if _ges_rentenv_beitr_bemess_grenze_m > 0 else 0.0\n    return out"), "M1")
B("c19-minijob-pays-on-wage", "C19", sub("social_insurance_contributions/ges_rentenv.py", "    if geringfügig_beschäftigt:\n        out = 0.0\n    elif in_gleitzone:\n        out = _ges_rentenv_beitr_midijob_arbeitnehmer_m", "    if geringfügig_beschäftigt:\n        out = 0.036 * _ges_rentenv_beitr_bruttolohn_m\n    elif in_gleitzone:\n        out = _ges_rentenv_beitr_midijob_arbeitnehmer_m"), "M0")
T("c19-cap-respelled", "C19", sub("social_insurance_contributions/ges_rentenv.py", "    out = min(bruttolohn_m, _ges_rentenv_beitr_bemess_grenze_m)\n    return out", "    return min(_ges_rentenv_beitr_bemess_grenze_m, bruttolohn_m)"))
B("c20-foreign-key-check-not-called", "C20", sub("interface.py", "    _fail_if_pid_is_non_unique(data)\n    _fail_if_foreign_keys_are_invalid(data)\n", "    _fail_if_pid_is_non_unique(data)\n"), "F1")
B("c20-pointer-not-in-foreign-keys", "C20", sub("config.py", '    "p_id_elternteil_2",\n]', "]"), "S-fk")
B("c20-float-to-int-without-test", "C20", sub("gettsim_typing.py", "                if np.array_equal(out, out.astype(np.int64)):\n                    out = out.astype(np.int64)\n                else:\n                    raise ValueError(\n                        basic_error_msg + \" This conversion is only supported if all\"\n                        \" decimal places of input data are equal to 0.\"\n                    )", "                out = out.astype(np.int64)"), "F3")
B("c20-conversion-warning-dropped", "C20", sub("interface.py", "    elif len(collected_conversions) > 1:\n        warnings.warn(", "    elif len(collected_conversions) > 2:\n        warnings.warn("), "F4")
B("c20-validator-only-for-dataframes", "C20", sub("interface.py", "    # Check that group variables are constant within groups\n    _fail_if_group_variables_not_constant_within_groups(data)\n", "    if len(data) > 100:\n        _fail_if_group_variables_not_constant_within_groups(data)\n"), "F1")
T("c20-validators-moved-into-helper", "C20", [sub("interface.py", "    # Check that group variables are constant within groups\n    _fail_if_group_variables_not_constant_within_groups(data)\n    _fail_if_pid_is_non_unique(data)\n    _fail_if_foreign_keys_are_invalid(data)\n", "    _run_checks(data)\n"), append("interface.py", "def _run_checks(data):\n    _fail_if_group_variables_not_constant_within_groups(data)\n    _fail_if_pid_is_non_unique(data)\n    _fail_if_foreign_keys_are_invalid(data)\n")])
T("c20-foreign-key-check-two-loops", "C20", sub("interface.py", "        # Referenced `p_id` must not be the same as the `p_id` of the same row\n        if (data[foreign_key] == data[\"p_id\"]).any():", "    for foreign_key in [k for k in FOREIGN_KEYS if k in data]:\n        # Referenced `p_id` must not be the same as the `p_id` of the same row\n        if (data[foreign_key] == data[\"p_id\"]).any():"))
# C07 additions
B("c07-prior-year-by-365-days", "C07", sub("policy_environment.py", "            dt = dt.replace(year=dt.year - years)\n\n        # Take care of leap years\n        except ValueError:\n            dt = dt.replace(year=dt.year - years, day=dt.day - 1)\n        return dt", "            dt = dt - datetime.timedelta(days=365 * years)\n        except ValueError:\n            pass\n        return dt"), "O5")
B("c07-ten-day-hole", "C07", sub("transfers/rente.py", 'end_date="2007-04-29"', 'end_date="2007-04-19"', count=1), "R4")
B("c13-conversion-precedence-reversed", "C13", [sub("time_conversion.py", "    for name in data_cols:\n        result.update(", "    from_data = {}\n    for name in data_cols:\n        from_data.update("), sub("time_conversion.py", "    return result\n\n\ndef _create_time_conversion_functions", "    return {**from_data, **result}\n\n\ndef _create_time_conversion_functions")], "Q2")
T("c13-conversion-precedence-respelled", "C13", [sub("time_conversion.py", "    for name in data_cols:\n        result.update(", "    from_data = {}\n    for name in data_cols:\n        from_data.update("), sub("time_conversion.py", "    return result\n\n\ndef _create_time_conversion_functions", "    return {**result, **from_data}\n\n\ndef _create_time_conversion_functions")])
B("c07-jahresanfang-second-of-january", "C07", sub("policy_environment.py", "        dt = dt.replace(month=1, day=1)\n", "        dt = dt.replace(month=1, day=2)\n"), "O")
B("c07-vorjahr-two-years", "C07", sub("policy_environment.py", "date_last_year = subtract_years_from_date(date, years=1)", "date_last_year = subtract_years_from_date(date, years=2)"), "O6")
B("c07-deviation-base-at-wrong-date", "C07", sub("policy_environment.py", "                        out_params[param] = _load_parameter_group_from_yaml(\n                            date,\n                            path_list[0],", "                        out_params[param] = _load_parameter_group_from_yaml(\n                            numpy.max(past_policies),\n                            path_list[0],"), "O6")
T("c07-loader-locals-renamed", "C07", [sub("policy_environment.py", "past_policies", "earlier_entries", count=99), sub("policy_environment.py", "new_date", "day_before", count=99)])
