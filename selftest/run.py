"""Self-test of the checkers, both ways (not a manifest command).

For every case a scratch copy of /repo/src/_gettsim (1 MB, outside /repo and /verif) gets one edit;
the check of the case's property runs on it with --root.  `break` cases must exit 1 and mention
the expected rule; `twin` cases (behaviour-preserving edits) must exit 0.   usage:
    ./vcheck selftest [-k substring] [-j jobs] [--list]
"""
from __future__ import annotations

import argparse
import concurrent.futures as cf
import os
import re
import shutil
import subprocess
import sys
import tempfile
from pathlib import Path

VERIF = Path(__file__).resolve().parent.parent
SRC = Path("/repo/src/_gettsim")


class Case:
    def __init__(self, name, prop, kind, edits, expect=None, tier="quick"):
        self.name, self.prop, self.kind, self.edits, self.expect, self.tier = name, prop, kind, edits, expect, tier


def sub(rel, old, new, count=1):
    """text replacement edit; fails loudly if the anchor text is not present"""
    def f(root):
        p = root / "src/_gettsim" / rel
        s = p.read_text(encoding="utf-8")
        if old not in s:
            raise RuntimeError(f"selftest edit anchor not found in {rel}: {old[:60]!r}")
        p.write_text(s.replace(old, new, count), encoding="utf-8")
    return f


def resub(rel, pat, new, count=1, flags=0):
    def f(root):
        p = root / "src/_gettsim" / rel
        s = p.read_text(encoding="utf-8")
        s2, n = re.subn(pat, new, s, count=count, flags=flags)
        if n == 0:
            raise RuntimeError(f"selftest edit pattern not found in {rel}: {pat[:60]!r}")
        p.write_text(s2, encoding="utf-8")
    return f


def patch(name):
    """apply a stored unified diff (selftest/patches/<name>.diff, a confirmed behaviour-preserving refactoring)"""
    def f(root):
        import subprocess
        pf = Path(__file__).resolve().parent / "patches" / f"{name}.diff"
        r = subprocess.run(["patch", "-p1", "--forward", "--no-backup-if-mismatch", "-s", "-i", str(pf)], cwd=root, capture_output=True, text=True)
        if r.returncode != 0:
            raise RuntimeError(f"selftest patch {name} does not apply: {r.stdout[-200:]}{r.stderr[-200:]}")
    return f


def append(rel, text):
    def f(root):
        p = root / "src/_gettsim" / rel
        p.write_text(p.read_text(encoding="utf-8") + "\n" + text, encoding="utf-8")
    return f


def newfile(rel, text):
    def f(root):
        p = root / "src/_gettsim" / rel
        p.write_text(text, encoding="utf-8")
    return f


def run_case(c: Case):
    tmp = Path(tempfile.mkdtemp(prefix="vst_", dir="/tmp"))
    try:
        dst = tmp / "src/_gettsim"
        shutil.copytree(SRC, dst, ignore=shutil.ignore_patterns("__pycache__", "*.pyc"))
        # the rewriter's tested contract is part of what C09 reads
        (tmp / "src/_gettsim_tests").mkdir()
        shutil.copy(SRC.parent / "_gettsim_tests/test_vectorization.py", tmp / "src/_gettsim_tests/test_vectorization.py")
        try:
            for e in c.edits:
                e(tmp)
        except RuntimeError as e:
            return c, "EDIT-FAILED", str(e)
        # the variant must still compile
        for p in dst.rglob("*.py"):
            try:
                compile(p.read_text(encoding="utf-8"), str(p), "exec")
            except SyntaxError as e:
                return c, "EDIT-FAILED", f"variant does not compile: {e}"
        env = dict(os.environ, VERIF_SELFTEST="1", VERIF_EVIDENCE_DIR=str(tmp / "evidence"))
        r = subprocess.run(
            [str(VERIF / "vcheck"), c.prop, "--tier", c.tier, "--root", str(tmp)],
            capture_output=True, text=True, env=env, timeout=900,
        )
        out = r.stdout + r.stderr
        if c.kind == "break":
            if r.returncode != 1:
                return c, "MISSED", f"exit {r.returncode}: " + "\n".join(l for l in out.splitlines() if not l.startswith("KNOWN-FINDING"))[-600:]
            if c.expect and not re.search(c.expect, out):
                return c, "WRONG-REPORT", f"expected /{c.expect}/ in report: " + out[-600:]
            return c, "ok", ""
        if r.returncode != 0:
            return c, "FALSE-ALARM", f"exit {r.returncode}: " + "\n".join(l for l in out.splitlines() if not l.startswith("KNOWN-FINDING"))[-900:]
        return c, "ok", ""
    finally:
        shutil.rmtree(tmp, ignore_errors=True)


def main(argv):
    ap = argparse.ArgumentParser()
    ap.add_argument("-k", default="")
    ap.add_argument("-j", type=int, default=16)
    ap.add_argument("--list", action="store_true")
    a = ap.parse_args(argv)
    from selftest.cases import CASES

    keys = [k for k in a.k.split("|")] if a.k else [""]
    cases = [c for c in CASES if any(k in c.name or k == c.prop for k in keys)]
    if a.list:
        for c in cases:
            print(c.prop, c.kind, c.name)
        return 0
    bad = 0
    with cf.ThreadPoolExecutor(a.j) as ex:
        for c, verdict, detail in ex.map(run_case, cases):
            print(f"{c.prop} {c.kind:5s} {c.name:58s} {verdict}")
            if verdict != "ok":
                bad += 1
                print("      " + detail.replace("\n", "\n      "))
    print(f"{len(cases)} cases, {bad} not ok")
    return 1 if bad else 0


if __name__ == "__main__":
    sys.exit(main(sys.argv[1:]))
