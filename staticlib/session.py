"""Analysis session: builds the models once per process and runs the abstract interpreter over
(rule x interval), spread over the available cores."""
from __future__ import annotations

import ast
import datetime
import functools
import multiprocessing as mp
import os

from .absint import Abs, Conc, Interp, kinds
from .dagmodel import Dag
from .envmodel import EnvModel
from .srcmodel import Repo

SCALAR = {"float": "float", "int": "int", "bool": "bool"}
_S = None  # per-process session (inherited through fork)


class Session:
    def __init__(self, root):
        self.repo = Repo(root)
        self.em = EnvModel(self.repo)
        self._dags = {}

    def dag(self, date, **kw):
        key = (date, tuple(sorted(kw.items()))) if not kw else None
        if key is not None and key in self._dags:
            return self._dags[key]
        d = Dag(self.repo, date, **kw)
        if key is not None:
            self._dags[key] = d
        return d

    # ------------------------------------------------------------------ call graph among policy functions
    @functools.cached_property
    def helper_quals(self):
        """policy-module functions that are called by bare name from another policy function"""
        out = set()
        for r in self.repo.rules:
            vis = self.repo.helpers_visible_from(r.mod)
            for n in ast.walk(r.node):
                if isinstance(n, ast.Call) and isinstance(n.func, ast.Name) and n.func.id in vis and n.func.id != r.name:
                    m2, fd = vis[n.func.id]
                    out.add(f"{m2.rel}:{fd.name}")
        return out

    def is_scalar_rule(self, r):
        if r.skip_vec or r.ret not in SCALAR or r.bad_decorator:
            return False
        if r.qual in self.helper_quals and any(
            (ann or "").startswith("dict") and not a.endswith("_params") for a, ann in r.args
        ):
            return False
        return True

    # ------------------------------------------------------------------ producer-side kinds
    def producer_kind(self, dag, name, _seen=None):
        """kind set of column `name` as produced (never from the consumer's annotation)"""
        _seen = _seen or set()
        if name in _seen:
            return None
        _seen = _seen | {name}
        it = self.repo.input_types
        if name in dag.data and name in it:
            return {_ann_kind(it[name])}
        node = dag.nodes.get(name) or dag.overridden.get(name)
        if node is None:
            return None
        if node.kind == "rule":
            k = _ann_kind(node.rule.ret)
            return {k} if k else None
        if node.kind == "time":
            return {"float"}
        if node.kind == "grouping":
            return {"int"}
        if node.kind in ("grp_agg", "pid_agg"):
            aggr = node.spec.get("aggr")
            if aggr == "count":
                return {"int"} if node.kind == "pid_agg" else {"float"}  # grouped_count sums numpy.ones -> float64
            src = self.producer_kind(dag, node.spec.get("source_col"), _seen)
            if not src:
                return None
            (s,) = src if len(src) == 1 else (None,)
            if s is None:
                return src
            if aggr == "sum" and s == "bool":
                return {"int"}
            if aggr in ("any", "all"):
                return {"bool"}
            if aggr == "mean":
                return {"float"}
            return {s}
        return None

    def producer_sign(self, dag, name, _stack=()):
        """'pos' for count aggregates (every person is in his own group); 'nonneg' for sums of booleans or of
        non-negative columns; for rules the sign of the abstract result (memoised per date)"""
        cache = self.__dict__.setdefault("_psign", {})
        key = (dag.date, name)
        if key in cache:
            return cache[key]
        if name in _stack or len(_stack) > 12:
            return None
        node = dag.nodes.get(name)
        out = None
        if node is None:
            out = None
        elif node.kind == "grp_agg" and node.spec.get("aggr") == "count":
            out = "pos"
        elif node.kind in ("grp_agg", "pid_agg") and node.spec.get("aggr") in ("sum", "max", "mean", "min"):
            src = node.spec.get("source_col")
            if node.spec.get("aggr") == "sum" and self.producer_kind(dag, src) == {"bool"}:
                out = "nonneg"
            else:
                sg = self.producer_sign(dag, src, (*_stack, name))
                out = "nonneg" if sg in ("pos", "nonneg") else None  # groups / pointers may be empty: no 'pos'
                if node.kind == "grp_agg" and sg == "pos":
                    out = "pos"  # every person is a member of his own group
        elif node.kind == "time":
            out = self.producer_sign(dag, node.args[0], (*_stack, name))
        elif node.kind == "rule" and self.is_scalar_rule(node.rule):
            from .absint import sign_of

            cache[key] = None  # cut cycles
            try:
                out = sign_of(self.analyse_rule(node.rule, dag.date).res)
            except Exception:  # noqa: BLE001
                out = None
        cache[key] = out
        return out

    def params_only_value(self, dag, name, _stack=()):
        """abstract value of a node that (transitively) depends on parameters only: such a node has the
        same value in every row, so consumers can be partially evaluated with it (rounding applied)."""
        cache = self.__dict__.setdefault("_pov", {})
        key = (dag.date, name)
        if key in cache:
            return cache[key]
        node = dag.nodes.get(name)
        out = None
        if node is not None and node.kind == "rule" and name not in _stack and self.is_scalar_rule(node.rule):
            r = node.rule
            args = [a for a in r.argnames if not a.endswith("_params") and a not in r.args_with_default]
            sub = {}
            ok = True
            for a in args:
                v = self.params_only_value(dag, a, (*_stack, name))
                if v is None:
                    ok = False
                    break
                sub[a] = v
            if ok:
                params, _, _ = self.em.params(dag.date)
                env, _ = self.rule_env(r, dag, params, arg_overrides=sub)
                it = Interp(self.repo, r.mod)
                try:
                    res, _ = it.run_function(r.node, env)
                except Exception:  # noqa: BLE001
                    res = None
                bad = any(e[0] in ("param-missing", "unknown-call", "unknown-name", "unhandled-stmt") for e in it.events)
                from .absint import alts as _alts, mk_oneof

                a = _alts(res) if res is not None and not bad else None
                if a is not None and all(isinstance(x, (int, float)) and not isinstance(x, bool) or isinstance(x, bool) for x in a):
                    if r.rounding_key:
                        spec = params.get(r.rounding_key, {}).get("rounding", {}).get(name) if isinstance(params.get(r.rounding_key), dict) else None
                        a = [_apply_rounding(x, spec) for x in a] if spec and "base" in spec and "direction" in spec else None
                    if a is not None and all(x is not None for x in a):
                        out = mk_oneof(a)
        cache[key] = out
        return out

    def rule_env(self, r, dag, params, arg_overrides=None, sign_fn=None):
        env, notes = {}, []
        for a, ann in r.args:
            if a.endswith("_params"):
                g = a[: -len("_params")]
                if g in params:
                    env[a] = Conc(params[g])
                else:
                    env[a] = Abs({"missing-params"})
                    notes.append(("params-group-missing", g))
                continue
            if arg_overrides and a in arg_overrides:
                env[a] = arg_overrides[a]
                continue
            pv = self.params_only_value(dag, a)
            if pv is not None:
                env[a] = pv
                continue
            pk = self.producer_kind(dag, a)
            if pk is None:
                k = _ann_kind(ann)
                pk = {k} if k else {"obj"}
                notes.append(("producer-missing", a))
            sg = sign_fn(a) if sign_fn else self.producer_sign(dag, a)
            if isinstance(sg, tuple):  # (sign, lower bound, upper bound) from the interval prover
                env[a] = Abs(pk, deps={a}, sym=a, sign=sg[0], lb=sg[1], ub=sg[2])
            else:
                env[a] = Abs(pk, deps={a}, sym=a, sign=sg)
        return env, notes

    def analyse_rule(self, r, date, mode="kinds", assign=None, arg_overrides=None, sign_fn=None):
        params, _, _ = self.em.params(date)
        dag = self.dag(date)
        env, notes = self.rule_env(r, dag, params, arg_overrides, sign_fn)
        it = Interp(self.repo, r.mod, mode=mode, assign=assign)
        res, rets = it.run_function(r.node, env)
        return RuleResult(r, date, res, rets, it, notes)

    def analyse_date(self, date, which="all"):
        out = {}
        dag = self.dag(date)
        for r in self.repo.rules:
            if r.start is None or not ((not r.decorated) or r.active(date)):
                continue
            if not self.is_scalar_rule(r):
                continue
            try:
                rr = self.analyse_rule(r, date)
            except RecursionError:
                rr = None
            except Exception as e:  # noqa: BLE001
                out[r.qual] = ("crash", f"{type(e).__name__}: {e}")
                continue
            out[r.qual] = rr.summary() if rr else ("crash", "recursion")
        return out


def _apply_rounding(x, spec):
    """model of the rounding wrapper: base * ceil|floor|round(x / base) (+ offset when the loader transfers it)"""
    import math

    import numpy

    try:
        base, direction = spec["base"], spec["direction"]
        # numpy.ceil / floor / round return floats: a rounded column is always float
        if direction == "up":
            r = base * float(numpy.ceil(x / base))
        elif direction == "down":
            r = base * float(numpy.floor(x / base))
        elif direction == "nearest":
            r = base * float(numpy.round(x / base))
        else:
            return None
        return r + spec.get("to_add_after_rounding", 0)
    except Exception:  # noqa: BLE001
        return None


def _ann_kind(ann):
    if ann is None:
        return None
    ann = ann.strip()
    if ann in SCALAR:
        return ann
    for k in SCALAR:
        if ann in (f"numpy.ndarray[{k}]", f"np.ndarray[{k}]"):
            return k
    if "datetime64" in ann:
        return "date"
    return None


class RuleResult:
    def __init__(self, rule, date, res, rets, interp, notes):
        self.rule = rule
        self.date = date
        self.res = res
        self.rets = rets
        self.interp = interp
        self.notes = notes

    def summary(self):
        """picklable summary"""
        rets = []
        for v, g, ln in self.rets:
            rets.append((sorted(kinds(v)), [(p, t) for p, t, *_ in g], ln))
        evs = []
        for e in self.interp.events:
            e2 = []
            for x in e:
                if isinstance(x, (Conc, Abs)) or hasattr(x, "deps"):
                    e2.append(_den_summary(x))
                elif isinstance(x, tuple) and x and isinstance(x[0], tuple):
                    e2.append(tuple((p, t) for p, t, *_ in x))
                elif isinstance(x, frozenset):
                    e2.append(sorted(x))
                else:
                    e2.append(x)
            evs.append(tuple(e2))
        return ("ok", sorted(kinds(self.res)), rets, evs, list(self.interp.unhandled), self.notes)


def _den_summary(v):
    """summary of an abstract value for denominators"""
    from .absint import OneOf, alts

    a = alts(v)
    if a is not None:
        try:
            vals = [float(x) for x in a]
            return ("alts", min(vals), max(vals), any(x == 0 for x in vals), len(vals))
        except Exception:  # noqa: BLE001
            return ("alts-nonnum", None, None, True, len(a))
    return ("abs", sorted(kinds(v)), sorted(v.deps), getattr(v, "sym", None), getattr(v, "sign", None))


def get_session(root):
    global _S
    if _S is None or str(_S.repo.root) != str(root):
        _S = Session(root)
    return _S


def _work(date):
    return date, _S.analyse_date(date)


def analyse_dates(root, dates, jobs=None):
    """{date: {qual: summary}} computed in parallel (fork; the session is inherited)"""
    s = get_session(root)
    # warm shared caches before forking
    s.repo.rules, s.helper_quals, s.repo.agg_specs  # noqa: B018
    jobs = jobs or min(16, os.cpu_count() or 1, max(1, len(dates)))
    if jobs <= 1 or len(dates) <= 1:
        return dict(_work(d) for d in dates)
    ctx = mp.get_context("fork")
    with ctx.Pool(jobs) as pool:
        return dict(pool.imap_unordered(_work, dates, chunksize=1))


# ---------------------------------------------------------------------- generic parallel map over dates
_FN = None


def _call(item):
    return item, _FN(_S, item)


def parallel_map(root, fn, items, jobs=None, chunksize=8):
    """{item: fn(session, item)} over forked workers that inherit the session (fn must be a module-level function
    returning something picklable)"""
    global _FN
    s = get_session(root)
    s.repo.rules, s.helper_quals, s.repo.agg_specs  # noqa: B018
    _FN = fn
    items = list(items)
    jobs = jobs or min(16, os.cpu_count() or 1, max(1, len(items)))
    if jobs <= 1 or len(items) <= 2:
        return dict(_call(i) for i in items)
    ctx = mp.get_context("fork")
    with ctx.Pool(jobs) as pool:
        return dict(pool.imap_unordered(_call, items, chunksize=chunksize))


def env_fingerprint(s, d):
    """digest of everything the analyses depend on at date d except the date stamp itself:
    parameter environment (structure and values) and the set of active implementations"""
    import hashlib

    import numpy

    params, problems, _ = s.em.params(d)
    h = hashlib.sha1()

    def feed(x, depth=0):
        if isinstance(x, dict):
            for k in sorted(x, key=repr):
                if k == "datum" and depth == 1:
                    continue
                h.update(repr(k).encode())
                feed(x[k], depth + 1)
        elif isinstance(x, numpy.ndarray):
            h.update(x.tobytes())
        else:
            h.update(repr(x).encode())

    feed(params)
    h.update(repr(sorted(problems)).encode())
    act = sorted(r.qual for r in s.repo.rules if r.start is not None and ((not r.decorated) or r.active(d)))
    h.update(repr(act).encode())
    # keep the per-date caches of the worker small
    s.em._cache.pop(d, None)
    return h.hexdigest()
