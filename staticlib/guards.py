"""Guard dominance (F): for every statement of a function, the list of (test, polarity) pairs that
certainly hold when it executes - from enclosing if/else branches and from *guard clauses*
(`if C: raise/return/continue/break` makes the rest of the block run under `not C`).
Syntax-directed; loops and try blocks pass the conditions through unchanged."""
from __future__ import annotations

import ast
import itertools


def terminates(stmts):
    """the block never completes normally (ends in raise / return / continue / break on every path)"""
    if not stmts:
        return False
    last = stmts[-1]
    if isinstance(last, (ast.Raise, ast.Return, ast.Continue, ast.Break)):
        return True
    if isinstance(last, ast.If):
        return terminates(last.body) and bool(last.orelse) and terminates(last.orelse)
    if isinstance(last, (ast.With,)):
        return terminates(last.body)
    return False


class Dominance:
    def __init__(self, fn):
        self.fn = fn
        self.conds: dict[ast.AST, list] = {}
        self.parent: dict[ast.AST, ast.AST] = {}
        for n in ast.walk(fn):
            for c in ast.iter_child_nodes(n):
                self.parent[c] = n
        self._block(fn.body, [])

    def _block(self, stmts, conds):
        conds = list(conds)
        for s in stmts:
            self.conds[s] = list(conds)
            if isinstance(s, ast.If):
                self._block(s.body, [*conds, (s.test, True)])
                self._block(s.orelse, [*conds, (s.test, False)])
                if terminates(s.body) and not (s.orelse and terminates(s.orelse)):
                    conds.append((s.test, False))
                elif s.orelse and terminates(s.orelse):
                    conds.append((s.test, True))
            elif isinstance(s, (ast.For, ast.AsyncFor, ast.While)):
                self._block(s.body, conds)
                self._block(s.orelse, conds)
            elif isinstance(s, (ast.With, ast.AsyncWith)):
                self._block(s.body, conds)
            elif isinstance(s, ast.Try):
                self._block(s.body, conds)
                for h in s.handlers:
                    self.conds[h] = list(conds)
                    self._block(h.body, conds)
                self._block(s.orelse, conds)
                self._block(s.finalbody, conds)
            elif isinstance(s, (ast.FunctionDef, ast.AsyncFunctionDef, ast.ClassDef)):
                pass
            elif isinstance(s, ast.Match):
                for c in s.cases:
                    self._block(c.body, conds)

    def of(self, node):
        """conditions dominating `node` (any node inside the function); includes comprehension filters and
        the test of an enclosing conditional expression"""
        extra = []
        n = node
        while n not in self.conds:
            p = self.parent.get(n)
            if p is None:
                return extra
            if isinstance(p, ast.IfExp):
                if n is p.body:
                    extra.append((p.test, True))
                elif n is p.orelse:
                    extra.append((p.test, False))
            if isinstance(p, (ast.ListComp, ast.SetComp, ast.GeneratorExp, ast.DictComp)) and not isinstance(n, ast.comprehension):
                for g in p.generators:
                    for c in g.ifs:
                        extra.append((c, True))
            if isinstance(p, ast.BoolOp) and n in p.values:
                i = p.values.index(n)
                for prev in p.values[:i]:
                    extra.append((prev, isinstance(p.op, ast.And)))
            n = p
        return [*self.conds[n], *extra]


class _Norm(ast.NodeTransformer):
    """`a not in b` -> `not (a in b)`, `a != b` -> `not (a == b)`, `a is not b` -> `not (a is b)` so that one atom
    serves both polarities"""

    def visit_Compare(self, n):
        self.generic_visit(n)
        if len(n.ops) == 1 and isinstance(n.ops[0], (ast.NotIn, ast.NotEq, ast.IsNot)):
            pos = {ast.NotIn: ast.In, ast.NotEq: ast.Eq, ast.IsNot: ast.Is}[type(n.ops[0])]()
            return ast.UnaryOp(op=ast.Not(), operand=ast.Compare(left=n.left, ops=[pos], comparators=n.comparators))
        return n


def normalize(test):
    t = _Norm().visit(ast.parse(ast.unparse(test), mode="eval").body)
    ast.fix_missing_locations(t)
    return t


def atoms_and_eval(conds, atom_of):
    """Build an evaluator for the conjunction of (test, polarity) pairs.  `atom_of(node) -> name | None` names the
    sub-expressions treated as atoms (everything else that is not and/or/not must be an atom, else ValueError).
    returns (atom names, fn(assignment dict) -> bool)"""
    names = []

    def ev(e, env):
        a = atom_of(e)
        if a is not None:
            if a not in names:
                names.append(a)
            return env.get(a, False)
        if isinstance(e, ast.BoolOp):
            vals = [ev(v, env) for v in e.values]
            return all(vals) if isinstance(e.op, ast.And) else any(vals)
        if isinstance(e, ast.UnaryOp) and isinstance(e.op, ast.Not):
            return not ev(e.operand, env)
        if isinstance(e, ast.Constant) and isinstance(e.value, bool):
            return e.value
        # opaque atom keyed by its text
        k = "opaque:" + ast.unparse(e)
        if k not in names:
            names.append(k)
        return env.get(k, False)

    conds = [(normalize(t), pol) for t, pol in conds]

    def conj(env):
        return all(ev(t, env) == pol for t, pol in conds)

    for t, _ in conds:  # discover atoms (no short-circuit)
        ev(t, {})
    return names, conj


def implies(conds, atom_of, conclusion):
    """do the dominating conditions imply `conclusion(env)` for every truth assignment of the atoms?"""
    names, conj = atoms_and_eval(conds, atom_of)
    if len(names) > 14:
        raise ValueError("too many atoms")
    for vals in itertools.product([False, True], repeat=len(names)):
        env = dict(zip(names, vals))
        if conj(env) and not conclusion(env):
            return False, env
    return True, None


def scope_functions(mod, fn, include_nested=True):
    """fn plus the module-level functions it (transitively) calls by bare name, plus nested defs"""
    out, todo = [], [fn]
    seen = set()
    while todo:
        f = todo.pop()
        if id(f) in seen:
            continue
        seen.add(id(f))
        out.append(f)
        for n in ast.walk(f):
            if isinstance(n, ast.Call) and isinstance(n.func, ast.Name) and n.func.id in mod.functions:
                todo.append(mod.functions[n.func.id])
    return out


def eval_sized(test, sizes):
    """evaluate a test in which the names in `sizes` are containers of the given sizes (truthiness and len());
    returns True/False, or None if the test involves anything else"""
    class R(ast.NodeTransformer):
        def visit_Call(self, n):
            if isinstance(n.func, ast.Name) and n.func.id == "len" and len(n.args) == 1 and ast.unparse(n.args[0]) in sizes:
                return ast.Constant(sizes[ast.unparse(n.args[0])])
            return self.generic_visit(n)

        def visit_Attribute(self, n):
            if ast.unparse(n) in sizes:
                return ast.Constant(sizes[ast.unparse(n)])
            return self.generic_visit(n)

        def visit_Compare(self, n):
            # `x.body == []` / `x.body != []`: emptiness of a sized container
            if len(n.ops) == 1 and isinstance(n.ops[0], (ast.Eq, ast.NotEq)) and ast.unparse(n.left) in sizes and isinstance(n.comparators[0], (ast.List, ast.Tuple)) and not n.comparators[0].elts:
                return ast.Constant((sizes[ast.unparse(n.left)] == 0) == isinstance(n.ops[0], ast.Eq))
            return self.generic_visit(n)

        def visit_Name(self, n):
            if n.id in sizes:
                return ast.Constant(sizes[n.id])
            return n

    e = R().visit(ast.parse(ast.unparse(test), mode="eval").body)
    ast.fix_missing_locations(e)
    if isinstance(e, ast.BoolOp):
        # three-valued and / or: `False and <unknown>` is False, `True or <unknown>` is True
        vals = [eval_sized(v, {}) for v in e.values]
        if isinstance(e.op, ast.And):
            return False if False in vals else (True if all(v is True for v in vals) else None)
        return True if True in vals else (False if all(v is False for v in vals) else None)
    if isinstance(e, ast.UnaryOp) and isinstance(e.op, ast.Not):
        v = eval_sized(e.operand, {})
        return None if v is None else not v
    safe = {"min": min, "max": max, "abs": abs, "sum": sum, "any": any, "all": all, "bool": bool, "int": int}
    callee_names = {id(x.func) for x in ast.walk(e) if isinstance(x, ast.Call) and isinstance(x.func, ast.Name) and x.func.id in safe}
    for x in ast.walk(e):
        if isinstance(x, ast.Call) and id(x.func) not in callee_names:
            return None
        if isinstance(x, ast.Name) and id(x) not in callee_names:
            return None
        if isinstance(x, (ast.Attribute, ast.Subscript)):
            return None
    try:
        return bool(eval(compile(ast.Expression(e), "<t>", "eval"), {"__builtins__": safe}))  # noqa: S307 - constant expression over min/max/...
    except Exception:  # noqa: BLE001
        return None
