"""Abstract interpreter (T) for the scalar rule language.

Domain: Conc(v) concrete Python value (literal, parameter subtree, folded expression);
OneOf{v1..vn} finite set of concrete alternatives; Abs(K) scalar of unknown value with kind set
K subset of {bool,int,float,str,date,...}, optionally tagged `sym` (it *is* argument `sym`,
untouched) and with the set of arguments it was computed from (`deps`, value flow); AList.
Rules receive native Python scalars from numpy.vectorize, so Python arithmetic applies.

Modes: kinds (both branches of data-dependent tests, join), atoms (a total truth assignment for
boolean arguments and data-dependent tests makes every test fold: exactly one path).
"""
from __future__ import annotations

import ast
import functools
import datetime
import math
import operator

import numpy

NUM = {"bool", "int", "float"}
MAX_ALTS = 64


class V:
    deps: frozenset = frozenset()


class Conc(V):
    __slots__ = ("v",)
    deps = frozenset()

    def __init__(self, v):
        self.v = v

    def __repr__(self):
        return f"Conc({self.v!r})"[:90]


class Abs(V):
    __slots__ = ("k", "deps", "sym", "cap", "sign", "neg", "lb", "ub", "lin", "mono")

    def __init__(self, k, deps=frozenset(), sym=None, cap=None, sign=None, neg=frozenset(), lb=None, ub=None, lin=None, mono=None):
        # linear domain in ONE designated symbol w (e.g. the gross wage): lin = (a, b) means value == a * w + b exactly;
        # mono = 'inc' means non-decreasing in w (implied by lin with a >= 0)
        self.lin = lin
        self.mono = "inc" if (lin is not None and lin[0] >= 0) else mono
        # numeric bounds (non-strict), None = unknown; a lower bound >= 0 implies the sign
        self.lb, self.ub = lb, ub
        if sign is None and lb is not None and lb >= 0:
            sign = "pos" if lb > 0 else "nonneg"
        self.k = frozenset(k)
        self.deps = frozenset(deps)
        self.sym = sym
        self.cap = cap  # ('min'|'max', symarg, deps of the other operand)
        self.sign = sign  # None | 'pos' (> 0) | 'nonneg' (>= 0)
        # where non-negativity was lost, when sign is None: {(kind, line, module, text)}; empty = unknown origin
        self.neg = frozenset(neg) if sign is None else frozenset()

    def __repr__(self):
        s = f"Abs({sorted(self.k)}"
        if self.sym:
            s += f", sym={self.sym}"
        return s + ")"


class OneOf(V):
    __slots__ = ("vals", "deps")

    def __init__(self, vals, deps=frozenset()):
        self.vals = list(vals)
        self.deps = frozenset(deps)

    def __repr__(self):
        return f"OneOf(n={len(self.vals)})"


class AList(V):
    __slots__ = ("elems", "deps")

    def __init__(self, elems):
        self.elems = list(elems)
        d = frozenset()
        for e in self.elems:
            d |= e.deps
        self.deps = d

    def __repr__(self):
        return f"AList({self.elems})"[:90]


def kind_of(v):
    if isinstance(v, (bool, numpy.bool_)):
        return "bool"
    if isinstance(v, (int, numpy.integer)):
        return "int"
    if isinstance(v, (float, numpy.floating)):
        return "float"
    if isinstance(v, str):
        return "str"
    if v is None:
        return "none"
    if isinstance(v, (numpy.datetime64, datetime.date)):
        return "date"
    if isinstance(v, (numpy.timedelta64, datetime.timedelta)):
        return "timedelta"
    if isinstance(v, numpy.ndarray):
        return "array"
    if isinstance(v, dict):
        return "dict"
    if isinstance(v, (list, tuple, set, frozenset)):
        return "seq"
    return "obj"


def kinds(av):
    if isinstance(av, Conc):
        if isinstance(av.v, V):
            return kinds(av.v)
        return frozenset([kind_of(av.v)])
    if isinstance(av, Abs):
        return av.k
    if isinstance(av, OneOf):
        return frozenset(kind_of(v) for v in av.vals) or frozenset(["obj"])
    if isinstance(av, AList):
        return frozenset(["seq"])
    return frozenset(["obj"])


def sign_of(av):
    """'pos' | 'nonneg' | None"""
    a = alts(av)
    if a is not None:
        try:
            vals = [float(x) for x in a if not isinstance(x, V)]
            if len(vals) != len(a) or any(math.isnan(x) for x in vals):
                return None
            if all(x > 0 for x in vals):
                return "pos"
            if all(x >= 0 for x in vals):
                return "nonneg"
        except Exception:  # noqa: BLE001
            return None
        return None
    if isinstance(av, Abs):
        if av.sign is None and av.k and av.k <= {"bool"}:
            return "nonneg"
        return av.sign
    return None


def lb_of(av):
    a = alts(av)
    if a is not None:
        try:
            vals = [float(x) for x in a if not isinstance(x, V)]
            return min(vals) if vals and len(vals) == len(a) and not any(math.isnan(x) for x in vals) else None
        except Exception:  # noqa: BLE001
            return None
    if isinstance(av, Abs):
        if av.lb is not None:
            return av.lb
        return 0.0 if sign_of(av) else None
    return None


def ub_of(av):
    a = alts(av)
    if a is not None:
        try:
            vals = [float(x) for x in a if not isinstance(x, V)]
            return max(vals) if vals and len(vals) == len(a) and not any(math.isnan(x) for x in vals) else None
        except Exception:  # noqa: BLE001
            return None
    if isinstance(av, Abs):
        if av.ub is not None:
            return av.ub
        return 1.0 if av.k and av.k <= {"bool"} else None
    return None


def lin_of(av):
    """(a, b) with value == a * w + b, or None; concrete numbers are (0, v)"""
    if isinstance(av, Conc) and isinstance(av.v, (int, float)):
        return (0.0, float(av.v))
    if isinstance(av, Abs):
        return av.lin
    return None


def mono_of(av):
    """'inc' (non-decreasing in w; constants included) or None"""
    if isinstance(av, (Conc, OneOf)) and alts(av) is not None and all(isinstance(x, (int, float)) for x in alts(av)):
        return "inc"
    if isinstance(av, Abs):
        return av.mono
    return None


def lin_binop(op, a, b):
    la, lb_ = lin_of(a), lin_of(b)
    if la is None or lb_ is None:
        return None
    (a1, b1), (a2, b2) = la, lb_
    if isinstance(op, ast.Add):
        return (a1 + a2, b1 + b2)
    if isinstance(op, ast.Sub):
        return (a1 - a2, b1 - b2)
    if isinstance(op, ast.Mult):
        if a1 == 0:
            return (b1 * a2, b1 * b2)
        if a2 == 0:
            return (a1 * b2, b1 * b2)
        return None
    if isinstance(op, ast.Div):
        if a2 == 0 and b2 != 0:
            return (a1 / b2, b1 / b2)
    return None


def _both(f, x, y):
    return f(x, y) if x is not None and y is not None else None


def neg_of(av):
    """origins of a possibly negative value (empty when the sign is known or the origin is not)"""
    if sign_of(av) is not None:
        return frozenset()
    if isinstance(av, Abs):
        return av.neg
    a = alts(av)
    if a is not None:
        try:
            if any(float(x) < 0 for x in a if not isinstance(x, V)):
                return frozenset({("negative-constant", 0, "", str([x for x in a if not isinstance(x, V)][:4]))})
        except Exception:  # noqa: BLE001
            pass
    return frozenset()


def _sign_join(a, b):
    if a == "pos" and b == "pos":
        return "pos"
    if a in ("pos", "nonneg") and b in ("pos", "nonneg"):
        return "nonneg"
    return None


def sign_binop(op, a, b):
    sa, sb = sign_of(a), sign_of(b)
    if sa is None or sb is None:
        return None
    if isinstance(op, ast.Add):
        return "pos" if "pos" in (sa, sb) else "nonneg"
    if isinstance(op, ast.Mult):
        return "pos" if sa == sb == "pos" else "nonneg"
    if isinstance(op, ast.Div):
        if sb == "pos":
            return "pos" if sa == "pos" else "nonneg"
    return None


def alts(av):
    """list of concrete alternatives or None"""
    if isinstance(av, Conc):
        return [av.v]
    if isinstance(av, OneOf):
        return av.vals
    return None


def _same(a, b):
    try:
        if type(a) is not type(b):
            return False
        r = a == b
        if isinstance(r, numpy.ndarray):
            return bool(r.all())
        return bool(r)
    except Exception:  # noqa: BLE001
        return a is b


def mk_oneof(vals, deps=frozenset()):
    out = []
    for v in vals:
        if not any(_same(v, w) for w in out):
            out.append(v)
    if len(out) == 1 and not deps:
        return Conc(out[0])
    if len(out) > MAX_ALTS:
        return Abs({kind_of(v) for v in out}, deps)
    return OneOf(out, deps)


def join(a, b):
    if a is None:
        return b
    if b is None:
        return a
    if a is b:
        return a
    aa, bb = alts(a), alts(b)
    if aa is not None and bb is not None:
        return mk_oneof([*aa, *bb], a.deps | b.deps)
    if isinstance(a, AList) and isinstance(b, AList) and len(a.elems) == len(b.elems):
        return AList([join(x, y) for x, y in zip(a.elems, b.elems)])
    sg = _sign_join(sign_of(a), sign_of(b))
    ng = neg_of(a) | neg_of(b)
    lb, ub = _both(min, lb_of(a), lb_of(b)), _both(max, ub_of(a), ub_of(b))
    lin = lin_of(a) if (lin_of(a) is not None and lin_of(a) == lin_of(b)) else None  # two branches with the same form
    if isinstance(a, Abs) and isinstance(b, Abs) and a.sym and a.sym == b.sym:
        return Abs(a.k | b.k, a.deps | b.deps, sym=a.sym, sign=sg, neg=ng, lb=lb, ub=ub, lin=lin)
    return Abs(kinds(a) | kinds(b), a.deps | b.deps, sign=sg, neg=ng, lb=lb, ub=ub, lin=lin)


def _minmax_abs(fname, src, deps):
    """abstract result of min/max over the operand values `src` (kinds, cap provenance, sign)"""
    r = None
    for s in src:
        r = join(r, s)
    ks = kinds(r) if r is not None else frozenset(["obj"])
    cap = None
    if len(src) == 2:
        opts = []
        for me, other in ((src[0], src[1]), (src[1], src[0])):
            if isinstance(me, Abs) and me.sym:
                opts.append((me.sym, other.deps))
        if opts:
            cap = (fname, opts)
    sgs = [sign_of(x) for x in src]
    if fname == "min":
        sg = "pos" if all(x == "pos" for x in sgs) else ("nonneg" if all(x in ("pos", "nonneg") for x in sgs) else None)
    else:
        sg = "pos" if "pos" in sgs else ("nonneg" if "nonneg" in sgs else None)
    lbs, ubs = [lb_of(x) for x in src], [ub_of(x) for x in src]
    if fname == "min":
        lb = min(lbs) if src and all(x is not None for x in lbs) else None
        ub = min([x for x in ubs if x is not None], default=None)
    else:
        lb = max([x for x in lbs if x is not None], default=None)
        ub = max(ubs) if src and all(x is not None for x in ubs) else None
    ng = frozenset()
    if sg is None and not (lb is not None and lb >= 0):
        for x in src:
            ng |= neg_of(x)
    mono = "inc" if src and all(mono_of(x) for x in src) else None
    lin = lin_of(src[0]) if len(src) == 1 else None
    return Abs(ks, deps, cap=cap, sign=sg, neg=ng, lb=lb, ub=ub, lin=lin, mono=mono)


def bounds_binop(op, a, b):
    """interval arithmetic on (lb, ub); None = unbounded / unknown"""
    la, ua, lb_, ub_ = lb_of(a), ub_of(a), lb_of(b), ub_of(b)
    if isinstance(op, ast.Add):
        return _both(operator.add, la, lb_), _both(operator.add, ua, ub_)
    if isinstance(op, ast.Sub):
        return _both(operator.sub, la, ub_), _both(operator.sub, ua, lb_)
    if isinstance(op, ast.Mult):
        if la is not None and lb_ is not None and la >= 0 and lb_ >= 0:
            return la * lb_, _both(operator.mul, ua, ub_)
        return None, None
    if isinstance(op, ast.Div):
        if la is not None and lb_ is not None and la >= 0 and lb_ >= 0:
            lo = la / ub_ if ub_ is not None and ub_ > 0 and not math.isinf(ub_) else 0.0
            hi = ua / lb_ if ua is not None and lb_ > 0 else None
            return lo, hi
        return None, None
    return None, None


@functools.lru_cache(maxsize=4096)
def _guard_facts(txt, positive):
    """comparison facts (left text, op type, right text) that hold when the guard `txt` has the given truth value"""
    facts = []

    def add(t, pol):
        if isinstance(t, ast.BoolOp):
            if (isinstance(t.op, ast.And) and pol) or (isinstance(t.op, ast.Or) and not pol):
                for v in t.values:
                    add(v, pol)
            return
        if isinstance(t, ast.UnaryOp) and isinstance(t.op, ast.Not):
            add(t.operand, not pol)
            return
        if isinstance(t, ast.Compare) and len(t.ops) == 1:
            o = type(t.ops[0])
            if not pol:
                o = {ast.Lt: ast.GtE, ast.LtE: ast.Gt, ast.Gt: ast.LtE, ast.GtE: ast.Lt, ast.Eq: ast.NotEq, ast.NotEq: ast.Eq}.get(o)
            if o is not None:
                facts.append((ast.unparse(t.left), o, ast.unparse(t.comparators[0])))

    try:
        add(ast.parse(txt, mode="eval").body, positive)
    except SyntaxError:
        pass
    return tuple(facts)


def guard_orders(guards, lt, rt):
    """'pos' if the path guards imply lt > rt, 'nonneg' if they imply lt >= rt, else None.  Guards are
    (polarity, test text, deps); conjunctions under '+' and disjunctions under '-' are split."""
    facts = []

    def add(t, pol):
        if isinstance(t, ast.BoolOp):
            if (isinstance(t.op, ast.And) and pol) or (isinstance(t.op, ast.Or) and not pol):
                for v in t.values:
                    add(v, pol)
            return
        if isinstance(t, ast.UnaryOp) and isinstance(t.op, ast.Not):
            add(t.operand, not pol)
            return
        if isinstance(t, ast.Compare) and len(t.ops) == 1:
            facts.append((ast.unparse(t.left), type(t.ops[0]), ast.unparse(t.comparators[0]), pol))

    for gd in guards:
        try:
            add(ast.parse(gd[1], mode="eval").body, gd[0] == "+")
        except SyntaxError:
            continue
    best = None
    for l_, op, r_, pol in facts:
        if (l_, r_) == (lt, rt):
            o = op
        elif (l_, r_) == (rt, lt):
            o = {ast.Lt: ast.Gt, ast.LtE: ast.GtE, ast.Gt: ast.Lt, ast.GtE: ast.LtE}.get(op)
        else:
            continue
        if o is None:
            continue
        if not pol:
            o = {ast.Lt: ast.GtE, ast.LtE: ast.Gt, ast.Gt: ast.LtE, ast.GtE: ast.Lt}.get(o)
        if o is ast.Gt:
            return "pos"
        if o is ast.GtE:
            best = "nonneg"
    return best


def _same_value(x, y):
    return x is y or (isinstance(x, Conc) and isinstance(y, Conc) and type(x.v) is type(y.v) and x.v == y.v)


OPS = {
    ast.Add: operator.add, ast.Sub: operator.sub, ast.Mult: operator.mul, ast.Div: operator.truediv,
    ast.FloorDiv: operator.floordiv, ast.Mod: operator.mod, ast.Pow: operator.pow,
    ast.BitAnd: operator.and_, ast.BitOr: operator.or_,
}
CMP = {
    ast.Lt: operator.lt, ast.LtE: operator.le, ast.Gt: operator.gt, ast.GtE: operator.ge,
    ast.Eq: operator.eq, ast.NotEq: operator.ne, ast.In: lambda a, b: a in b,
    ast.NotIn: lambda a, b: a not in b, ast.Is: operator.is_, ast.IsNot: operator.is_not,
}
PURE = {
    "min": min, "max": max, "sum": sum, "len": len, "list": list, "sorted": sorted, "float": float,
    "int": int, "bool": bool, "range": range, "zip": zip, "dict": dict, "iter": iter, "next": next,
    "abs": abs, "round": round, "any": any, "all": all, "tuple": tuple, "set": set, "str": str,
    "enumerate": enumerate,
}
TYPE_NAMES = {"int": int, "float": float, "bool": bool, "str": str, "dict": dict, "list": list, "tuple": tuple}


def arith_kinds(op, ka, kb, right=None):
    out = set()
    for x in ka:
        for y in kb:
            if x == "date" or y == "date" or x == "timedelta" or y == "timedelta":
                if isinstance(op, ast.Sub) and x == "date" and y == "date":
                    out.add("timedelta")
                elif x == "date" or y == "date":
                    out.add("date")
                else:
                    out.add("timedelta")
                continue
            if x not in NUM or y not in NUM:
                out.add("obj")
                continue
            if isinstance(op, ast.Div):
                out.add("float")
            elif "float" in (x, y):
                out.add("float")
            elif isinstance(op, ast.Pow):
                if isinstance(right, Conc) and isinstance(right.v, int) and right.v >= 0:
                    out.add("int")
                else:
                    out |= {"int", "float"}
            elif isinstance(op, (ast.BitAnd, ast.BitOr)) and x == "bool" and y == "bool":
                out.add("bool")
            else:
                out.add("int")
    return frozenset(out)


def pw_eval(x, thresholds, rates, intercepts, rates_multiplier=None):
    """documented semantics of piecewise_polynomial for one concrete scalar"""
    thresholds = numpy.asarray(thresholds)
    rates = numpy.asarray(rates)
    b = int(numpy.searchsorted(thresholds, x, side="right")) - 1
    inc = x - thresholds[b]
    n = len(thresholds) - 1
    deg = rates.shape[0]
    if rates_multiplier is not None:
        out = intercepts[0]
        for i in range(2, n):
            ti = thresholds[i] - thresholds[i - 1]
            for pol in range(1, deg + 1):
                if b >= i:
                    out += rates_multiplier * rates[pol - 1, i - 1] * ti**pol
    else:
        out = intercepts[b]
    rm = 1 if rates_multiplier is None else rates_multiplier
    if b > 0:
        for pol in range(1, deg + 1):
            out += rates[pol - 1][b] * rm * inc**pol
    return float(out)


def pw_nonneg(thresholds, rates, intercepts, x_nonneg, multiplier_sign=None):
    """is the piecewise polynomial >= 0 for every x (x >= 0 if x_nonneg)?  Exact on each piece: a polynomial of
    degree <= 2 attains its minimum over an interval at an end point or at its vertex; higher degrees are
    accepted only when every coefficient is non-negative."""
    th = [float(t) for t in thresholds]
    R = numpy.asarray(rates, dtype=float)
    deg = R.shape[0]
    n = len(th) - 1
    if multiplier_sign is not None:
        # intercepts are rebuilt from intercepts[0] and the scaled rates: non-negative coefficients needed
        return multiplier_sign in ("pos", "nonneg") and float(intercepts[0]) >= 0 and bool((R[:, : n] >= 0).all())
    for b in range(n):
        lo, hi = th[b], th[b + 1]
        if x_nonneg and hi <= 0:
            continue
        c0 = float(intercepts[b])
        cs = [R[p][b] if b > 0 else 0.0 for p in range(deg)]  # the lowest piece is constant
        if b == 0 and any(R[p][0] != 0 for p in range(deg)):
            return False
        start = max(lo, 0.0) if x_nonneg else lo
        if math.isinf(start):
            if any(c != 0 for c in cs):
                return False
            if c0 < 0:
                return False
            continue

        def val(x):
            inc = x - lo
            return c0 + sum(cs[p] * inc ** (p + 1) for p in range(deg))

        pts = [start]
        if not math.isinf(hi):
            pts.append(hi)
        elif deg <= 2:
            # behaviour at +inf is decided by the leading non-zero coefficient
            lead = next((c for c in reversed(cs) if c != 0), 0.0)
            if lead < 0:
                return False
        if deg <= 2:
            if deg == 2 and cs[1] != 0:
                v = lo - cs[0] / (2 * cs[1])
                if start < v < hi:
                    pts.append(v)
            if any(val(x) < -1e-9 for x in pts):
                return False
        else:
            if c0 < 0 or any(c < 0 for c in cs):
                return False
    return True


class Bail(Exception):
    """construct outside the modelled language"""


class Interp:
    def __init__(self, repo, mod, mode="kinds", assign=None, max_depth=8, allow_store=False):
        self.repo = repo
        self.mod = mod
        self.mode = mode
        self.assign = assign or {}
        self.atoms_found: list[str] = []
        self.events: list[tuple] = []
        self.max_depth = max_depth
        self.depth = 0
        self.allow_store = allow_store
        self.unhandled: list[str] = []
        self.modstack = [mod]
        self.gbase: list[int] = []
        self.defstack: list[dict] = []
        self.fnstack: list = []
        self.rematerialising = 0
        self.rets = []

    # ------------------------------------------------------------------ helpers
    def E(self, kind, node, *data, guards=()):
        self.events.append((kind, getattr(node, "lineno", 0), self.modstack[-1].rel, *data, tuple(guards)))

    def truth(self, v, node, guards):
        """True/False if the test folds, else None"""
        if isinstance(v, Conc):
            try:
                return bool(v.v)
            except Exception:  # noqa: BLE001
                return None
        if isinstance(v, OneOf):
            try:
                ts = {bool(x) for x in v.vals}
                if len(ts) == 1:
                    return ts.pop()
            except Exception:  # noqa: BLE001
                pass
        if self.mode == "atoms":
            # only primitive tests are atoms; compound tests fold from their parts
            if isinstance(node, (ast.BoolOp, ast.IfExp)) or (isinstance(node, ast.UnaryOp) and isinstance(node.op, ast.Not)):
                return None
            key = ast.unparse(node)
            if key not in self.atoms_found:
                self.atoms_found.append(key)
            if key in self.assign:
                return self.assign[key]
        return None

    # ------------------------------------------------------------------ expressions
    def ev(self, n, env, g):
        m = getattr(self, "ev_" + type(n).__name__, None)
        if m is None:
            self.unhandled.append(f"expr {type(n).__name__}")
            return Abs({"obj"})
        return m(n, env, g)

    def refine(self, name, v, env, g):
        """narrow the bounds of a numeric name by the path guards that compare it with a concrete number
        (a constant, or a name / parameter path bound to concrete numbers in the current environment)"""
        lb, ub = lb_of(v), ub_of(v)
        lb0, ub0 = lb, ub
        strict_pos = False

        def number(txt):
            try:
                e = ast.parse(txt, mode="eval").body
            except SyntaxError:
                return None
            if isinstance(e, ast.Constant) and isinstance(e.value, (int, float)) and not isinstance(e.value, bool):
                return float(e.value), float(e.value)
            if isinstance(e, ast.Name) and e.id != name and e.id in env:
                w = env[e.id]
                lo, hi = lb_of(w), ub_of(w)
                if alts(w) is not None and lo is not None:
                    return lo, hi
                return None
            if isinstance(e, (ast.Call, ast.Subscript, ast.BinOp)) and not any(isinstance(x, ast.Name) and x.id == name for x in ast.walk(e)) and self.rematerialising < 4:
                # e.g. `n > max(table)`: a parameter-valued expression, evaluated quietly in the current environment
                self.rematerialising += 1
                ev_save, self.events = self.events, []
                try:
                    w = self.ev(e, env, [])
                except Exception:  # noqa: BLE001
                    w = None
                finally:
                    self.events = ev_save
                    self.rematerialising -= 1
                if w is not None and alts(w) is not None and not w.deps:
                    lo, hi = lb_of(w), ub_of(w)
                    if lo is not None:
                        return lo, hi
            return None

        for gd in g:
            for l_, o, r_ in _guard_facts(gd[1], gd[0] == "+"):
                if l_ == name:
                    other = number(r_)
                elif r_ == name:
                    other = number(l_)
                    o = {ast.Lt: ast.Gt, ast.LtE: ast.GtE, ast.Gt: ast.Lt, ast.GtE: ast.LtE}.get(o, o)
                else:
                    continue
                if other is None:
                    continue
                lo, hi = other
                if o in (ast.Gt, ast.GtE):
                    lb = lo if lb is None else max(lb, lo)
                    if o is ast.Gt and lo >= 0:
                        strict_pos = True
                elif o in (ast.Lt, ast.LtE):
                    ub = hi if ub is None else min(ub, hi)
                elif o is ast.Eq:
                    lb = lo if lb is None else max(lb, lo)
                    ub = hi if ub is None else min(ub, hi)
        if (lb, ub) == (lb0, ub0) and not strict_pos:
            return v
        # integers: x > c means x >= c + 1 is not assumed (columns may be floats)
        sg = v.sign
        if strict_pos or (lb is not None and lb > 0):
            sg = "pos"
        elif sg is None and lb is not None and lb >= 0:
            sg = "nonneg"
        return Abs(v.k, v.deps, sym=v.sym, cap=v.cap, sign=sg, neg=v.neg, lb=lb, ub=ub, lin=v.lin, mono=v.mono)

    def clamped_difference(self, n, env, g):
        """`max(0, need - income)`: what is subtracted must itself be non-negative, or the clamped amount exceeds
        the need.  Records a 'clamped-minus' event for every subtracted sub-expression whose sign is unknown."""
        zero = [a for a in n.args if isinstance(a, ast.Constant) and a.value in (0, 0.0) and not isinstance(a.value, bool)]
        if len(zero) != 1:
            return
        e = next(a for a in n.args if a is not zero[0])
        exprs = [e]
        if isinstance(e, ast.Name) and self.defstack and e.id in self.defstack[-1]:
            exprs = [self.defstack[-1][e.id]]
        elif isinstance(e, ast.Name) and self.fnstack:
            # assigned on several branches (`if c: out = 0.0 else: out = need - income`): every assigned expression
            exprs = [st.value for st in ast.walk(self.fnstack[-1]) if isinstance(st, ast.Assign) and len(st.targets) == 1
                     and isinstance(st.targets[0], ast.Name) and st.targets[0].id == e.id]
        subs = []

        def walk(x, negated):
            if isinstance(x, ast.BinOp) and isinstance(x.op, ast.Sub):
                walk(x.left, negated)
                if negated:
                    return
                subs.append(x.right)
            elif isinstance(x, ast.BinOp) and isinstance(x.op, ast.Add) and not negated:
                walk(x.left, negated)
                walk(x.right, negated)

        for e_ in exprs:
            walk(e_, False)
        if not subs:
            return
        self.rematerialising += 1
        ev_save, self.events = self.events, []
        try:
            vals = [(x, self.ev(x, env, g)) for x in subs]
        except Exception:  # noqa: BLE001
            vals = []
        finally:
            self.events = ev_save
            self.rematerialising -= 1
        for x, v in vals:
            if sign_of(v) is None:
                self.E("clamped-minus", n, ast.unparse(n)[:100], ast.unparse(x)[:80], sorted(neg_of(v)), sorted(value_deps(v)), guards=g)

    def ev_Constant(self, n, env, g):
        return Conc(n.value)

    def ev_Name(self, n, env, g):
        if n.id in env:
            v = env[n.id]
            if isinstance(v, Abs) and "unbound" in v.k:
                self.E("maybe-unbound", n, n.id, guards=g)
                v = Abs(v.k - {"unbound"}, v.deps, sign=v.sign, neg=v.neg, lb=v.lb, ub=v.ub, lin=v.lin, mono=v.mono)
            gl = g[self.gbase[-1]:] if self.gbase else g
            if gl and isinstance(v, Abs) and v.k <= NUM | {"bool"}:
                if self.defstack and n.id in self.defstack[-1] and self.rematerialising < 4:
                    # a single-assignment local: its defining expression, re-read under the guards of this use
                    self.rematerialising += 1
                    ev_save, self.events = self.events, []
                    try:
                        w = self.ev(self.defstack[-1][n.id], env, g)
                    except Exception:  # noqa: BLE001
                        w = None
                    finally:
                        self.events = ev_save
                        self.rematerialising -= 1
                    if isinstance(w, (Abs, OneOf, Conc)) and kinds(w) <= NUM:
                        rk = {None: 0, "nonneg": 1, "pos": 2}
                        lw, lv, uw, uv = lb_of(w), lb_of(v), ub_of(w), ub_of(v)
                        sg = sign_of(w) if rk[sign_of(w)] > rk[sign_of(v)] else sign_of(v)
                        lb = lw if lv is None or (lw is not None and lw > lv) else lv
                        ub = uw if uv is None or (uw is not None and uw < uv) else uv
                        if (sg, lb, ub) != (sign_of(v), lv, uv):
                            v = Abs(v.k, v.deps, sym=v.sym, cap=v.cap, sign=sg, neg=v.neg, lb=lb, ub=ub, lin=v.lin, mono=v.mono)
                v = self.refine(n.id, v, env, gl)
            return v
        mod = self.modstack[-1]
        if n.id in mod.assigns:
            try:
                from .minieval import fold_module_value

                return Conc(fold_module_value(self.repo, mod, mod.assigns[n.id]))
            except Exception:  # noqa: BLE001
                self.E("global-nonliteral", n, n.id, guards=g)
                return Abs({"obj"})
        if n.id in mod.imports and mod.imports[n.id] == ("_gettsim.config", "numpy_or_jax"):
            return Conc(numpy)
        if n.id in mod.imports and mod.imports[n.id][0] == "_gettsim.config":
            try:
                return Conc(self.repo.cfg(mod.imports[n.id][1]))
            except Exception:  # noqa: BLE001
                return Abs({"obj"})
        if n.id in TYPE_NAMES:
            return Conc(TYPE_NAMES[n.id])
        if n.id in ("np", "numpy"):
            return Conc(numpy)
        if n.id == "math":
            return Conc(math)
        if n.id == "datetime":
            return Conc(datetime)
        self.E("unknown-name", n, n.id, guards=g)
        return Abs({"obj"})

    def _lookup(self, base_v, key_v, n, g, note=""):
        try:
            r = base_v[key_v]
        except Exception as e:  # noqa: BLE001
            keys = None
            if isinstance(base_v, dict):
                keys = sorted(map(repr, base_v.keys()))[:14]
            self.E("param-missing", n, ast.unparse(n), repr(key_v) + note, type(e).__name__, keys, guards=g)
            return None
        return r

    def ev_Subscript(self, n, env, g):
        # x.loc[0] on a scalar (framework helper idiom)
        if isinstance(n.value, ast.Attribute) and n.value.attr in ("loc", "iloc"):
            return self.ev(n.value.value, env, g)
        base = self.ev(n.value, env, g)
        sl = n.slice
        if isinstance(sl, ast.Slice):
            lo = self.ev(sl.lower, env, g) if sl.lower else Conc(None)
            hi = self.ev(sl.upper, env, g) if sl.upper else Conc(None)
            if isinstance(base, Conc) and isinstance(lo, Conc) and isinstance(hi, Conc):
                try:
                    return Conc(base.v[lo.v:hi.v])
                except Exception:  # noqa: BLE001
                    pass
            return Abs({"seq"}, base.deps)
        if isinstance(sl, ast.Tuple):
            parts = [self.ev(e, env, g) for e in sl.elts]
            if all(isinstance(p, Conc) for p in parts):
                key = Conc(tuple(p.v for p in parts))
            else:
                d = frozenset().union(*[p.deps for p in parts])
                if isinstance(base, Conc) and isinstance(base.v, numpy.ndarray):
                    return Abs({kind_of(base.v.flat[0])} if base.v.size else {"obj"}, d)
                return Abs({"obj"}, d)
        else:
            key = self.ev(sl, env, g)
        balts, kalts = alts(base), alts(key)
        if balts is not None and kalts is not None:
            out = []
            for b in balts:
                if isinstance(b, V):
                    out.append(b)
                    continue
                for k in kalts:
                    r = self._lookup(b, k, n, g, "" if len(balts) * len(kalts) == 1 else " (one alternative)")
                    if r is not None or (isinstance(b, dict) and k in b):
                        out.append(r)
            if not out:
                return Abs({"obj"}, base.deps | key.deps)
            if len(out) == 1 and isinstance(out[0], V):
                return out[0]
            return mk_oneof(out, base.deps | key.deps)
        if balts is not None:
            # dynamic key into concrete containers
            kk = kinds(key)
            cands, keysets = [], []
            for b in balts:
                if isinstance(b, dict):
                    keysets.append(sorted(map(repr, b.keys()))[:40])
                    # numeric keys hash alike (d[2.0] is d[2], d[True] is d[1])
                    cands += [v for k, v in b.items() if kind_of(k) in kk or "obj" in kk or (kind_of(k) in NUM and kk & NUM)]
                elif isinstance(b, (list, tuple)):
                    cands += list(b)
                elif isinstance(b, numpy.ndarray):
                    cands += list(b.flat[:MAX_ALTS + 1])
                    if b.size > MAX_ALTS:
                        return Abs({kind_of(b.flat[0])}, base.deps | key.deps)
            self.E("dyn-key", n, ast.unparse(n), keysets, sorted(kk), ast.unparse(sl), (lb_of(key), ub_of(key), tuple(sorted(value_deps(key)))), guards=g)
            if not cands:
                self.E("param-missing", n, ast.unparse(n), f"<{'/'.join(sorted(kk))} key>", "no key of that kind", keysets, guards=g)
                return Abs({"obj"}, base.deps | key.deps)
            return mk_oneof(cands, base.deps | key.deps)
        if isinstance(base, AList):
            r = None
            for e in base.elems:
                r = join(r, e)
            return r or Abs({"obj"})
        self.E("subscript-abs", n, ast.unparse(n), guards=g)
        return Abs({"obj"}, base.deps | key.deps)

    def ev_BinOp(self, n, env, g, left=None):
        a = left if left is not None else self.ev(n.left, env, g)
        b = self.ev(n.right, env, g)
        return self.binop(n, n.op, a, b, g, ast.unparse(n.right))

    def binop(self, n, op, a, b, g, den_text=""):
        if isinstance(op, (ast.Div, ast.FloorDiv, ast.Mod)):
            self.E("div", n, ast.unparse(n), den_text, b, guards=g)
        aa, bb = alts(a), alts(b)
        deps = a.deps | b.deps
        if type(op) in (ast.Add, ast.Sub, ast.Mult, ast.Div):
            for side, other in ((aa, b), (bb, a)):
                if side is not None and alts(other) is None:
                    for x in side:
                        if isinstance(x, float) and math.isinf(x):
                            self.E("inf-arith", n, ast.unparse(n), guards=g)
        if aa is not None and bb is not None and len(aa) * len(bb) <= MAX_ALTS and type(op) in OPS:
            out = []
            ok = True
            for x in aa:
                for y in bb:
                    if isinstance(x, V) or isinstance(y, V):
                        ok = False
                        continue
                    try:
                        r = OPS[type(op)](x, y)
                        if isinstance(r, float) and math.isnan(r):
                            self.E("nan-fold", n, ast.unparse(n), guards=g)
                        out.append(r)
                    except ZeroDivisionError:
                        self.E("zero-div-const", n, ast.unparse(n), guards=g)
                        ok = False
                    except Exception as e:  # noqa: BLE001
                        self.E("fold-exc", n, ast.unparse(n), type(e).__name__, guards=g)
                        ok = False
            if ok and out:
                return mk_oneof(out, deps)
        ka, kb = kinds(a), kinds(b)
        if "none" in ka or "none" in kb:
            self.E("none-arith", n, ast.unparse(n), guards=g)
        if ka <= {"seq", "array"} or kb <= {"seq", "array"}:
            return Abs({"seq"}, deps)
        lb, ub = bounds_binop(op, a, b)
        if isinstance(op, ast.Div) and isinstance(n, ast.BinOp) and isinstance(n.right, ast.BinOp) and isinstance(n.right.op, ast.Add) \
                and ast.unparse(n.left) in (ast.unparse(n.right.left), ast.unparse(n.right.right)) and sign_of(a) and sign_of(b):
            ub = 1.0 if ub is None else min(ub, 1.0)  # a share x / (x + y) of non-negative parts
        if lb is not None and lb >= 0:
            sg, ng = ("pos" if lb > 0 else "nonneg"), frozenset()
            s2, _ = self.sign_binop(n, op, a, b, g, quiet=True)
            if s2 == "pos":
                sg = "pos"
        else:
            sg, ng = self.sign_binop(n, op, a, b, g)
        lin = lin_binop(op, a, b)
        mono = None
        if lin is None:
            ma, mb = mono_of(a), mono_of(b)
            lb2, la2 = lin_of(b), lin_of(a)
            if isinstance(op, ast.Add) and ma and mb:
                mono = "inc"
            elif isinstance(op, ast.Sub) and ma and lb2 is not None and lb2[0] <= 0:
                mono = "inc"
            elif isinstance(op, ast.Mult) and ((ma and lb2 is not None and lb2[0] == 0 and lb2[1] >= 0) or (mb and la2 is not None and la2[0] == 0 and la2[1] >= 0)):
                mono = "inc"
            elif isinstance(op, ast.Div) and ma and lb2 is not None and lb2[0] == 0 and lb2[1] > 0:
                mono = "inc"
        return Abs(arith_kinds(op, ka, kb, b), deps, sign=sg, neg=ng, lb=lb, ub=ub, lin=lin, mono=mono)

    def sign_binop(self, n, op, a, b, g, quiet=False):
        """(sign, origins) of an arithmetic result.  A difference is non-negative only under a dominating guard
        that orders its operands (`if a > b: ... a - b`)."""
        sa, sb = sign_of(a), sign_of(b)
        if isinstance(op, ast.Sub) and isinstance(n, ast.BinOp):
            # an ordering guard decides a difference whatever the signs of its operands
            rel = guard_orders(g[self.gbase[-1]:] if self.gbase else g, ast.unparse(n.left), ast.unparse(n.right))
            if rel:
                return rel, frozenset()
        if sa is None or sb is None:
            # `x - y` with y possibly negative etc.: propagate the operand origins
            return None, neg_of(a) | neg_of(b)
        if isinstance(op, ast.Add):
            return ("pos" if "pos" in (sa, sb) else "nonneg"), frozenset()
        if isinstance(op, ast.Mult):
            return ("pos" if sa == sb == "pos" else "nonneg"), frozenset()
        if isinstance(op, ast.Div):
            # a zero denominator is an error (rule Z), not a negative value
            return ("pos" if sa == sb == "pos" else "nonneg"), frozenset()
        if isinstance(op, (ast.FloorDiv, ast.Mod)):
            return "nonneg", frozenset()
        if isinstance(op, ast.Pow):
            return ("pos" if sa == "pos" else "nonneg"), frozenset()
        if isinstance(op, ast.Sub):
            bb = alts(b)
            if bb is not None and all(not isinstance(x, V) and x == 0 for x in bb):
                return sa, frozenset()
            if isinstance(n, ast.BinOp):
                rel = guard_orders(g[self.gbase[-1]:] if self.gbase else g, ast.unparse(n.left), ast.unparse(n.right))
                if rel:
                    return rel, frozenset()
            return None, frozenset({("difference", getattr(n, "lineno", 0), self.modstack[-1].rel, ast.unparse(n)[:120])})
        return None, frozenset({("operator", getattr(n, "lineno", 0), self.modstack[-1].rel, ast.unparse(n)[:120])})

    def ev_UnaryOp(self, n, env, g):
        a = self.ev(n.operand, env, g)
        if isinstance(n.op, ast.Not):
            t = self.truth(a, n.operand, g)
            if t is not None:
                return Conc(not t)
            return Abs({"bool"}, a.deps)
        aa = alts(a)
        if aa is not None:
            try:
                f = {ast.USub: operator.neg, ast.UAdd: operator.pos, ast.Invert: operator.invert}[type(n.op)]
                return mk_oneof([f(x) for x in aa], a.deps)
            except Exception:  # noqa: BLE001
                pass
        ng = frozenset({("negation", getattr(n, "lineno", 0), self.modstack[-1].rel, ast.unparse(n)[:120])}) if isinstance(n.op, ast.USub) else neg_of(a)
        return Abs({("int" if k == "bool" else k) for k in kinds(a)}, a.deps, sign=sign_of(a) if isinstance(n.op, ast.UAdd) else None, neg=ng)

    def ev_Compare(self, n, env, g):
        vals = [self.ev(n.left, env, g)] + [self.ev(c, env, g) for c in n.comparators]
        if all(isinstance(v, Conc) for v in vals):
            try:
                res = True
                left = vals[0].v
                for op, r in zip(n.ops, vals[1:]):
                    res = res and CMP[type(op)](left, r.v)
                    left = r.v
                if isinstance(res, numpy.ndarray):
                    raise TypeError
                return Conc(bool(res))
            except Exception as e:  # noqa: BLE001
                self.E("fold-exc", n, ast.unparse(n), type(e).__name__, guards=g)
        deps = frozenset().union(*[v.deps for v in vals])
        if deps and (len(n.ops) > 1 or any(isinstance(o, (ast.In, ast.NotIn)) for o in n.ops)):
            self.E("chained-compare", n, ast.unparse(n)[:70], guards=g)
        if self.mode == "atoms":
            key = ast.unparse(n)
            if key not in self.atoms_found:
                self.atoms_found.append(key)
            if key in self.assign:
                return Conc(self.assign[key])
        return Abs({"bool"}, deps)

    def ev_BoolOp(self, n, env, g):
        is_and = isinstance(n.op, ast.And)
        res = None
        deps = frozenset()
        valuepos = []  # operands whose *value* can become the result with a value other than 0/False
        for i, e in enumerate(n.values):
            v = self.ev(e, env, g)
            deps |= v.deps
            t = self.truth(v, e, g)
            last = i == len(n.values) - 1
            if t is not None:
                if (is_and and not t) or (not is_and and t):
                    # short-circuit value
                    res = join(res, v) if res is not None else v
                    if not is_and:
                        valuepos.append(v)
                    break
                if last:
                    res = join(res, v) if res is not None else v
                    valuepos.append(v)
                continue  # neutral element, skipped
            res = join(res, v) if res is not None else v
            # `a and b`: a falsy a is returned as is, but is 0/False/empty then; `a or b`: a truthy a is returned
            if last or not is_and:
                valuepos.append(v)
        if res is None:
            res = Conc(is_and)
        if not isinstance(res, Conc):
            ks = set()
            for v in valuepos:
                if not isinstance(v, Conc):
                    ks |= set(kinds(v))
                elif kind_of(v.v) != "bool" and v.v not in (0, 1):
                    ks.add(kind_of(v.v))
            if any(k != "bool" for k in ks):
                self.E("boolop-nonbool", n, ast.unparse(n), sorted(ks), guards=g)
            if isinstance(res, Abs):
                res = Abs(res.k, deps)
        return res

    def ev_IfExp(self, n, env, g):
        tv = self.ev(n.test, env, g)
        t = self.truth(tv, n.test, g)
        if t is not None:
            return self.ev(n.body if t else n.orelse, env, g)
        a = self.ev(n.body, env, [*g, ("+", ast.unparse(n.test), tv.deps)])
        b = self.ev(n.orelse, env, [*g, ("-", ast.unparse(n.test), tv.deps)])
        r = join(a, b)
        self.E("ifexp", n, tv.deps, guards=g)
        return r

    def _seq(self, n, env, g):
        el = []
        for e in n.elts:
            if isinstance(e, ast.Starred):
                s = self.ev(e.value, env, g)
                if isinstance(s, Conc):
                    el += [Conc(x) for x in s.v]
                elif isinstance(s, AList):
                    el += s.elems
                else:
                    el.append(Abs({"obj"}, s.deps))
            else:
                el.append(self.ev(e, env, g))
        return el

    def ev_List(self, n, env, g):
        el = self._seq(n, env, g)
        if all(isinstance(e, Conc) for e in el):
            return Conc([e.v for e in el])
        return AList(el)

    def ev_Tuple(self, n, env, g):
        el = self._seq(n, env, g)
        if all(isinstance(e, Conc) for e in el):
            return Conc(tuple(e.v for e in el))
        return AList(el)

    def ev_Set(self, n, env, g):
        el = self._seq(n, env, g)
        if all(isinstance(e, Conc) for e in el):
            try:
                return Conc({e.v for e in el})
            except TypeError:
                pass
        return AList(el)

    def ev_Dict(self, n, env, g):
        ks = [self.ev(k, env, g) for k in n.keys if k is not None]
        vs = [self.ev(v, env, g) for v in n.values]
        if len(ks) == len(vs) and all(isinstance(x, Conc) for x in ks + vs):
            return Conc({k.v: v.v for k, v in zip(ks, vs)})
        if len(ks) == len(vs) and all(isinstance(x, Conc) for x in ks):
            return Conc({k.v: v for k, v in zip(ks, vs)})  # abstract leaves allowed
        return Abs({"dict"})

    def ev_JoinedStr(self, n, env, g):
        return Abs({"str"})

    def _comp(self, n, env, g):
        gen = n.generators[0]
        it = self.ev(gen.iter, env, g)
        if len(n.generators) == 1 and isinstance(it, Conc):
            out = []
            try:
                items = list(it.v)
            except TypeError:
                items = None
            if items is not None:
                for x in items:
                    env2 = dict(env)
                    self.bind(gen.target, Conc(x), env2)
                    ok = True
                    for c in gen.ifs:
                        t = self.truth(self.ev(c, env2, g), c, g)
                        if t is None:
                            self.E("comp-if-abs", n, ast.unparse(n)[:80], guards=g)
                        elif not t:
                            ok = False
                    if ok:
                        out.append(self.ev(n.elt, env2, g))
                return out
        env2 = dict(env)
        tk = Abs({"obj"}, it.deps)
        if isinstance(it, AList):
            r = None
            for e in it.elems:
                r = join(r, e)
            tk = r or tk
        self.bind(gen.target, tk, env2)
        self.E("comp-abs-iter", n, ast.unparse(n)[:80], guards=g)
        return [self.ev(n.elt, env2, g)]

    def ev_GeneratorExp(self, n, env, g):
        out = self._comp(n, env, g)
        if all(isinstance(o, Conc) for o in out):
            return Conc([o.v for o in out])
        return AList(out)

    ev_ListComp = ev_GeneratorExp
    ev_SetComp = ev_GeneratorExp

    def ev_DictComp(self, n, env, g):
        gen = n.generators[0]
        it = self.ev(gen.iter, env, g)
        if len(n.generators) == 1 and isinstance(it, Conc):
            out = {}
            for x in list(it.v):
                env2 = dict(env)
                self.bind(gen.target, Conc(x), env2)
                if all(self.truth(self.ev(c, env2, g), c, g) for c in gen.ifs):
                    k = self.ev(n.key, env2, g)
                    v = self.ev(n.value, env2, g)
                    if not isinstance(k, Conc):
                        return Abs({"dict"})
                    out[k.v] = v.v if isinstance(v, Conc) else v
            return Conc(out)
        return Abs({"dict"})

    def ev_Attribute(self, n, env, g):
        b = self.ev(n.value, env, g)
        if isinstance(b, Conc):
            try:
                return Conc(getattr(b.v, n.attr))
            except Exception:  # noqa: BLE001
                pass
        if n.attr in ("year", "month", "day"):
            return Abs({"int"}, b.deps)
        self.E("attr-abs", n, ast.unparse(n), guards=g)
        return Abs({"obj"}, b.deps)

    def ev_Call(self, n, env, g):
        return self.call(n, env, g)

    def ev_Lambda(self, n, env, g):
        return Abs({"obj"})

    def bind(self, target, val, env):
        if isinstance(target, ast.Name):
            env[target.id] = val
        elif isinstance(target, (ast.Tuple, ast.List)):
            if isinstance(val, Conc):
                try:
                    vs = list(val.v)
                    for t, v in zip(target.elts, vs):
                        self.bind(t, Conc(v) if not isinstance(v, V) else v, env)
                    return
                except TypeError:
                    pass
            if isinstance(val, AList) and len(val.elems) == len(target.elts):
                for t, v in zip(target.elts, val.elems):
                    self.bind(t, v, env)
                return
            for t in target.elts:
                self.bind(t, Abs({"obj"}, val.deps), env)

    # ------------------------------------------------------------------ calls
    def call(self, n, env, g):
        fname = ast.unparse(n.func)
        args = [self.ev(a, env, g) for a in n.args if not isinstance(a, ast.Starred)]
        if any(isinstance(a, ast.Starred) for a in n.args):
            self.unhandled.append("starred call")
        kw = {k.arg: self.ev(k.value, env, g) for k in n.keywords if k.arg}
        allv = [*args, *kw.values()]
        allc = all(isinstance(a, Conc) and not isinstance(a.v, V) for a in allv)
        deps = frozenset().union(*[a.deps for a in allv]) if allv else frozenset()

        if isinstance(n.func, ast.Attribute):
            b = self.ev(n.func.value, env, g)
            attr = n.func.attr
            if isinstance(b, Conc) and allc and attr in ("values", "keys", "items", "get", "astype", "copy", "index", "count", "tolist"):
                try:
                    r = getattr(b.v, attr)(*[a.v for a in args])
                    if attr in ("values", "keys", "items"):
                        r = list(r)
                    return r if isinstance(r, V) else Conc(r)
                except Exception as e:  # noqa: BLE001
                    self.E("fold-exc", n, ast.unparse(n), type(e).__name__, guards=g)
            if attr == "astype" and n.args:
                t = ast.unparse(n.args[0])
                if t in ("float", "int", "bool"):
                    return Abs({t}, b.deps | deps)
                return Abs({"obj"}, b.deps | deps)
            if attr == "get" and isinstance(b, Conc) and isinstance(b.v, dict) and args:
                # dynamic key with default
                k = args[0]
                cands = list(b.v.values()) + ([args[1].v] if len(args) > 1 and isinstance(args[1], Conc) else [None])
                self.E("dyn-key", n, ast.unparse(n), [sorted(map(repr, b.v))[:16]], sorted(kinds(k)), ast.unparse(n.args[0]) + " (get)", guards=g)
                return mk_oneof(cands, deps | b.deps)
            if fname in ("numpy.searchsorted", "np.searchsorted"):
                if allc:
                    try:
                        return Conc(int(numpy.searchsorted(*[a.v for a in args], **{k: v.v for k, v in kw.items()})))
                    except Exception:  # noqa: BLE001
                        pass
                return Abs({"int"}, deps)
            if fname in ("np.array", "numpy.array", "numpy.asarray", "np.asarray"):
                if allc:
                    try:
                        return Conc(numpy.array(*[a.v for a in args]))
                    except Exception:  # noqa: BLE001
                        pass
                return args[0] if args and isinstance(args[0], AList) else Abs({"array"}, deps)
            if fname in ("numpy.ceil", "numpy.floor", "np.ceil", "np.floor", "numpy.sqrt", "np.sqrt", "numpy.round", "np.round",
                         "numpy.exp", "numpy.log", "math.sqrt", "math.exp", "math.log"):
                if allc:
                    try:
                        return Conc(float(getattr(numpy, attr)(*[a.v for a in args])))
                    except Exception:  # noqa: BLE001
                        pass
                sg0 = sign_of(args[0]) if args else None
                if attr == "exp":
                    sg0 = "pos"
                elif attr == "log":
                    sg0 = None
                elif sg0:
                    sg0 = "nonneg"  # ceil / floor / round / sqrt of a non-negative number
                return Abs({"float"}, deps, sign=sg0, neg=neg_of(args[0]) if args and attr != "log" else frozenset())
            if fname in ("math.ceil", "math.floor", "math.trunc"):
                if allc:
                    try:
                        return Conc(getattr(math, attr)(*[a.v for a in args]))
                    except Exception:  # noqa: BLE001
                        pass
                return Abs({"int"}, deps, sign="nonneg" if args and sign_of(args[0]) else None, neg=neg_of(args[0]) if args else frozenset())
            if fname in ("numpy.minimum", "numpy.maximum", "np.minimum", "np.maximum"):
                mm = _minmax_abs("min" if attr == "minimum" else "max", list(args), deps)
                return Abs(mm.k, deps, sign=mm.sign, neg=mm.neg)
            if fname in ("numpy.datetime64", "np.datetime64"):
                return Abs({"date"}, deps)
            if fname in ("numpy.timedelta64", "np.timedelta64", "datetime.timedelta"):
                return Abs({"timedelta"}, deps)
            if fname in ("datetime.datetime", "datetime.date"):
                if allc:
                    try:
                        return Conc(getattr(datetime, attr)(*[a.v for a in args]))
                    except Exception:  # noqa: BLE001
                        pass
                return Abs({"date"}, deps)
            if fname in ("pd.Series", "pandas.Series") and len(args) == 1:
                return args[0]
            if attr in ("round",) and not args:
                return Abs(kinds(b), b.deps)
            if attr == "item" and not args:
                return b
            self.E("unknown-call", n, fname, guards=g)
            return Abs({"obj"}, deps | b.deps)

        if not isinstance(n.func, ast.Name):
            self.E("unknown-call", n, fname, guards=g)
            return Abs({"obj"}, deps)

        shadow = fname in env
        if fname == "isinstance" and len(n.args) == 2 and not shadow:
            a = args[0]
            tname = ast.unparse(n.args[1])
            tmap = {"int": {"int", "bool"}, "float": {"float"}, "bool": {"bool"}, "str": {"str"}, "dict": {"dict"}}
            if isinstance(a, Conc) and tname in TYPE_NAMES:
                return Conc(isinstance(a.v, TYPE_NAMES[tname]))
            if tname in tmap:
                ks = kinds(a)
                if ks <= tmap[tname]:
                    return Conc(True)
                if not (ks & tmap[tname]):
                    return Conc(False)
            return Abs({"bool"}, deps)
        if fname in PURE and allc and not shadow:
            try:
                r = PURE[fname](*[a.v for a in args], **{k: v.v for k, v in kw.items()})
                if fname in ("zip", "range", "enumerate"):
                    r = list(r)
                if fname in ("min", "max", "sum", "any", "all") and len(args) == 1:
                    self.E("reduce1", n, ast.unparse(n)[:90], False, guards=g)
                return Conc(r)
            except Exception as e:  # noqa: BLE001
                self.E("fold-exc", n, ast.unparse(n), type(e).__name__, guards=g)
        if fname in ("min", "max") and not shadow:
            if fname == "max" and len(n.args) == 2 and not self.rematerialising:
                self.clamped_difference(n, env, g)
            if len(args) > 1:
                src = args
            else:
                a0 = args[0] if args else Abs({"obj"})
                if isinstance(a0, Conc):
                    try:
                        src = [Conc(x) for x in a0.v]
                    except TypeError:
                        src = [Abs({"obj"})]
                elif isinstance(a0, AList):
                    src = a0.elems
                else:
                    src = [Abs({"obj"}, a0.deps)]
                self.E("reduce1", n, ast.unparse(n)[:90], bool(a0.deps) and isinstance(n.args[0], (ast.List, ast.Tuple, ast.Set, ast.Name)), guards=g)
            if all(alts(s) is not None for s in src):
                # every operand drawn from finite alternatives: enumerate
                import itertools

                combos = 1
                for s in src:
                    combos *= len(alts(s))
                if combos <= MAX_ALTS:
                    try:
                        f = min if fname == "min" else max
                        return mk_oneof([f(c) for c in itertools.product(*[alts(s) for s in src])], deps)
                    except Exception:  # noqa: BLE001
                        pass
            return _minmax_abs(fname, src, deps)
        if fname == "sum" and not shadow:
            a = args[0] if args else Abs({"obj"})
            src = [Conc(x) for x in a.v] if isinstance(a, Conc) else a.elems if isinstance(a, AList) else [Abs({"obj"}, a.deps)]
            self.E("reduce1", n, ast.unparse(n)[:90], bool(a.deps) and isinstance(n.args[0], (ast.List, ast.Tuple, ast.Set, ast.Name)), guards=g)
            ks = set()
            for s in src:
                ks |= set(kinds(s))
            if not ks <= NUM:
                return Abs({"obj"}, deps)
            sgs = [sign_of(x) for x in src]
            sg = "nonneg" if all(x in ("pos", "nonneg") for x in sgs) else None
            ng = frozenset()
            if sg is None:
                for x in src:
                    ng |= neg_of(x)
            return Abs({"float"} if "float" in ks and ks <= {"float"} else ({"int"} if "float" not in ks else {"float"}), deps, sign=sg, neg=ng) if src else Conc(0)
        if fname in ("any", "all") and not shadow:
            a = args[0] if args else Abs({"obj"})
            self.E("reduce1", n, ast.unparse(n)[:90], bool(a.deps) and isinstance(n.args[0], (ast.List, ast.Tuple, ast.Set, ast.Name)), guards=g)
            return Abs({"bool"}, deps)
        if shadow:
            self.E("unknown-call", n, fname + " (local)", guards=g)
            return Abs({"obj"}, deps)
        if fname in ("float", "int", "bool", "round", "range", "len", "str") and deps:
            self.E("scalar-cast", n, ast.unparse(n)[:70], guards=g)
        if fname == "range":
            return AList([Abs({"int"}, deps)])
        if fname in ("list", "tuple", "sorted", "set") and args and isinstance(args[0], AList):
            return args[0]
        if fname in ("float", "int", "bool", "str"):
            sg = sign_of(args[0]) if args else None
            if fname == "int" and sg == "pos":
                sg = "nonneg"
            return Abs({fname}, deps, sign=sg if fname in ("float", "int") else None, neg=neg_of(args[0]) if args and fname in ("float", "int") else frozenset(),
                       lin=lin_of(args[0]) if args and fname == "float" else None, mono=mono_of(args[0]) if args and fname == "float" else None)
        if fname == "len":
            return Abs({"int"}, deps)
        if fname == "round":
            sg = sign_of(args[0]) if args else None
            sg = "nonneg" if sg else None
            return Abs({"int"}, deps, sign=sg, neg=neg_of(args[0]) if args else frozenset()) if len(args) == 1 else Abs(kinds(args[0]), deps, sign=sg, neg=neg_of(args[0]))
        if fname == "abs":
            return Abs({("int" if k == "bool" else k) for k in kinds(args[0])}, deps, sign="nonneg")
        if fname == "piecewise_polynomial":
            pos = ["x", "thresholds", "rates", "intercepts_at_lower_thresholds", "rates_multiplier"]
            a = dict(zip(pos, args))
            a.update(kw)
            need = pos[:4]
            if all(k in a and isinstance(a[k], Conc) for k in need) and isinstance(a.get("rates_multiplier", Conc(None)), Conc):
                try:
                    xv = a["x"].v
                    rm = a["rates_multiplier"].v if "rates_multiplier" in a else None
                    return Conc(pw_eval(float(xv), a["thresholds"].v, a["rates"].v, a["intercepts_at_lower_thresholds"].v, rm))
                except Exception as e:  # noqa: BLE001
                    self.E("fold-exc", n, ast.unparse(n)[:80], type(e).__name__, guards=g)
            ks = {"float"}
            ic = a.get("intercepts_at_lower_thresholds")
            if isinstance(ic, Conc) and not isinstance(ic.v, numpy.ndarray):
                try:  # a plain list of intercepts: the lowest piece returns the element itself
                    ks |= {kind_of(x) for x in ic.v}
                except TypeError:
                    pass
            elif not isinstance(ic, Conc):
                ks |= {"int"} if ic is not None and "int" in kinds(ic) else set()
            sg = None
            if all(k in a and alts(a[k]) is not None for k in need[1:]) and not all(isinstance(a[k], Conc) for k in need[1:]):
                # the schedule is selected by a data-dependent branch (single / married): every candidate must be >= 0
                lists = [alts(a[k]) for k in need[1:]]
                rmv = a.get("rates_multiplier")
                ms = None if rmv is None or (isinstance(rmv, Conc) and rmv.v is None) else (sign_of(rmv) or "unknown")
                try:
                    import itertools as _it

                    combos = list(zip(*lists)) if len({len(x) for x in lists}) == 1 else list(_it.product(*lists))
                    if combos and len(combos) <= 8 and all(pw_nonneg(t_, r_, i_, sign_of(a["x"]) is not None, ms) for t_, r_, i_ in combos):
                        sg = "nonneg"
                except Exception as e:  # noqa: BLE001
                    self.E("fold-exc", n, ast.unparse(n)[:80], type(e).__name__, guards=g)
            if all(k in a and isinstance(a[k], Conc) for k in need[1:]):
                rmv = a.get("rates_multiplier")
                try:
                    if pw_nonneg(a["thresholds"].v, a["rates"].v, a["intercepts_at_lower_thresholds"].v, sign_of(a["x"]) is not None,
                                 None if rmv is None or (isinstance(rmv, Conc) and rmv.v is None) else (sign_of(rmv) or "unknown")):
                        sg = "nonneg"
                except Exception as e:  # noqa: BLE001
                    self.E("fold-exc", n, ast.unparse(n)[:80], type(e).__name__, guards=g)
            ng = frozenset() if sg else frozenset({("schedule-can-be-negative", getattr(n, "lineno", 0), self.modstack[-1].rel, ast.unparse(n)[:100])}) if all(k in a and isinstance(a[k], Conc) for k in need[1:]) else frozenset()
            return Abs(ks, deps, sign=sg, neg=ng)
        if fname in ("NotImplementedError", "ValueError", "KeyError", "TypeError"):
            return Abs({"exc"})
        vis = self.repo.helpers_visible_from(self.modstack[-1])
        if fname in vis:
            m2, fd = vis[fname]
            if self.depth >= self.max_depth:
                self.E("depth-bound", n, fname, guards=g)
                return Abs({"obj"}, deps)
            names = [x.arg for x in fd.args.posonlyargs + fd.args.args + fd.args.kwonlyargs]
            env2 = {}
            for nm, a in zip(names, args):
                env2[nm] = a
            for k, v in kw.items():
                env2[k] = v
            # defaults
            dflt = fd.args.defaults
            pos = fd.args.posonlyargs + fd.args.args
            for x, dv in zip(pos[len(pos) - len(dflt):], dflt):
                if x.arg not in env2:
                    env2[x.arg] = self.ev(dv, {}, g)
            for x in names:
                if x not in env2:
                    self.E("helper-arg-missing", n, fname, x, guards=g)
                    env2[x] = Abs({"obj"})
            self.E("helper-call", n, fname, guards=g)
            self.depth += 1
            self.modstack.append(m2)
            try:
                r, _ = self.run_function(fd, env2, g)
            finally:
                self.modstack.pop()
                self.depth -= 1
            return r
        self.E("unknown-call", n, fname, guards=g)
        return Abs({"obj"}, deps)

    # ------------------------------------------------------------------ statements
    def block(self, stmts, env, g, rets):
        """returns False if the block always terminates (return/raise)"""
        for s in stmts:
            if isinstance(s, ast.Expr):
                if not isinstance(s.value, ast.Constant):
                    self.ev(s.value, env, g)
                continue
            if isinstance(s, ast.Assign):
                v = self.ev(s.value, env, g)
                for t in s.targets:
                    self.store(t, v, env, g, s)
                continue
            if isinstance(s, ast.AnnAssign):
                if s.value is not None:
                    self.store(s.target, self.ev(s.value, env, g), env, g, s)
                continue
            if isinstance(s, ast.AugAssign):
                if isinstance(s.target, ast.Name):
                    cur = self.ev(ast.copy_location(ast.Name(id=s.target.id, ctx=ast.Load()), s), env, g)
                    b = self.ev(s.value, env, g)
                    fake = ast.copy_location(ast.BinOp(left=ast.Name(id=s.target.id, ctx=ast.Load()), op=s.op, right=s.value), s)
                    env[s.target.id] = self.binop(fake, s.op, cur, b, g, ast.unparse(s.value))
                else:
                    self.E("store-nonname", s, ast.unparse(s.target), guards=g)
                continue
            if isinstance(s, ast.Return):
                v = self.ev(s.value, env, g) if s.value is not None else Conc(None)
                rets.append((v, tuple(g), s.lineno))
                return False
            if isinstance(s, ast.Raise):
                self.E("raise", s, ast.unparse(s.exc)[:70] if s.exc else "", guards=g)
                return False
            if isinstance(s, ast.Assert):
                tv = self.ev(s.test, env, g)
                if self.truth(tv, s.test, g) is False:
                    self.E("raise", s, "AssertionError " + ast.unparse(s.test)[:50], guards=g)
                    return False
                continue
            if isinstance(s, ast.Pass):
                continue
            if isinstance(s, ast.If):
                tv = self.ev(s.test, env, g)
                t = self.truth(tv, s.test, g)
                if t is not None:
                    if not self.block(s.body if t else s.orelse, env, g, rets):
                        return False
                    continue
                e1, e2 = dict(env), dict(env)
                txt = ast.unparse(s.test)
                # selection idiom `if a < b: x = a  else: x = b` (== min(a, b)); operands evaluated before the branches
                sel = None
                if isinstance(s.test, ast.Compare) and len(s.test.ops) == 1 and isinstance(s.test.ops[0], (ast.Lt, ast.LtE, ast.Gt, ast.GtE)):
                    sel = (self.ev(s.test.left, env, g), self.ev(s.test.comparators[0], env, g), isinstance(s.test.ops[0], (ast.Lt, ast.LtE)))
                c1 = self.block(s.body, e1, [*g, ("+", txt, tv.deps)], rets)
                c2 = self.block(s.orelse, e2, [*g, ("-", txt, tv.deps)], rets)
                if not c1 and not c2:
                    return False
                if not c1:
                    env.clear()
                    env.update(e2)
                    continue
                if not c2:
                    env.clear()
                    env.update(e1)
                    continue
                new = {}
                for k in set(e1) | set(e2):
                    if k in e1 and k in e2:
                        j = join(e1[k], e2[k])
                        if sel and e1[k] is not e2[k]:
                            va, vb, lt = sel
                            if _same_value(e1[k], va) and _same_value(e2[k], vb):
                                new[k] = _minmax_abs("min" if lt else "max", [va, vb], va.deps | vb.deps)
                                continue
                            if _same_value(e1[k], vb) and _same_value(e2[k], va):
                                new[k] = _minmax_abs("max" if lt else "min", [va, vb], va.deps | vb.deps)
                                continue
                        if e1[k] is not e2[k] and tv.deps and isinstance(j, (Abs, OneOf)):
                            # control dependence of the merged value on the test
                            j = _with_ctrl(j, tv.deps)
                        new[k] = j
                    else:
                        one = e1.get(k, e2.get(k))
                        # an unbound name is a NameError, not a value: the sign of the bound alternative stands
                        new[k] = Abs(kinds(one) | {"unbound"}, one.deps, sign=sign_of(one), neg=neg_of(one))
                env.clear()
                env.update(new)
                continue
            if isinstance(s, ast.For):
                it = self.ev(s.iter, env, g)
                if isinstance(it, Conc):
                    try:
                        items = list(it.v)
                    except TypeError:
                        items = None
                    if items is not None and len(items) <= 400:
                        alive = True
                        for x in items:
                            self.bind(s.target, x if isinstance(x, V) else Conc(x), env)
                            if not self.block(s.body, env, g, rets):
                                alive = False
                                break
                        if not alive:
                            return False
                        continue
                self.E("for-abs", s, ast.unparse(s.iter), guards=g)
                r = None
                if isinstance(it, AList):
                    for e in it.elems:
                        r = join(r, e)
                self.bind(s.target, r or Abs({"obj"}, it.deps), env)
                # two rounds for a cheap fixpoint on kinds
                for _ in range(2):
                    e1 = dict(env)
                    self.block(s.body, e1, [*g, ("+", "for " + ast.unparse(s.iter), it.deps)], rets)
                    for k in e1:
                        env[k] = join(env.get(k), e1[k]) if k in env else e1[k]
                continue
            self.unhandled.append(f"stmt {type(s).__name__}")
            self.E("unhandled-stmt", s, type(s).__name__, guards=g)
        return True

    def store(self, t, v, env, g, s):
        if isinstance(t, (ast.Name, ast.Tuple, ast.List)):
            self.bind(t, v, env)
            return
        if isinstance(t, ast.Subscript) and self.allow_store:
            base = self.ev(t.value, env, g)
            key = self.ev(t.slice, env, g)
            if isinstance(base, Conc) and isinstance(key, Conc) and isinstance(base.v, dict):
                base.v[key.v] = v.v if isinstance(v, Conc) else v
                self.E("param-store", s, ast.unparse(t), guards=g)
                return
        self.E("store-nonname", s, ast.unparse(t), guards=g)

    def run_function(self, fd, env, guards=()):
        rets = []
        self.gbase.append(len(guards))
        self.defstack.append(single_defs(fd))
        self.fnstack.append(fd)
        try:
            cont = self.block(fd.body, env, list(guards), rets)
        finally:
            self.gbase.pop()
            self.defstack.pop()
            self.fnstack.pop()
        if cont:
            rets.append((Conc(None), tuple(guards), fd.lineno))
        r = None
        for v, _, _ in rets:
            r = join(r, v)
        return (r if r is not None else Abs({"never"})), rets


def single_defs(fd):
    """locals of `fd` that are assigned exactly once, by a plain `name = expr`, from names that are never
    reassigned themselves: re-evaluating `expr` at a later use gives the same value, so it may be
    re-evaluated under the path guards of that use (`d = a - b; if a > b: out = d`)."""
    counts, exprs = {}, {}
    for n in ast.walk(fd):
        tgts = []
        if isinstance(n, ast.Assign):
            for t in n.targets:
                tgts += [x.id for x in ast.walk(t) if isinstance(x, ast.Name)]
            if len(n.targets) == 1 and isinstance(n.targets[0], ast.Name):
                exprs[n.targets[0].id] = n.value
        elif isinstance(n, (ast.AugAssign, ast.AnnAssign)):
            tgts += [x.id for x in ast.walk(n.target) if isinstance(x, ast.Name)]
            tgts += tgts  # never single
        elif isinstance(n, (ast.For, ast.comprehension)):
            tgts += [x.id for x in ast.walk(n.target) if isinstance(x, ast.Name)] * 2
        elif isinstance(n, ast.NamedExpr):
            tgts += [n.target.id] * 2
        for t in tgts:
            counts[t] = counts.get(t, 0) + 1
    params = {a.arg for a in fd.args.posonlyargs + fd.args.args + fd.args.kwonlyargs}
    stable = {k for k in params if counts.get(k, 0) == 0} | {k for k, c in counts.items() if c == 1 and k in exprs and k not in params}
    out = {}
    for k in stable - params:
        e = exprs[k]
        names = {x.id for x in ast.walk(e) if isinstance(x, ast.Name) and isinstance(x.ctx, ast.Load)}
        if any(isinstance(x, (ast.Lambda, ast.Yield, ast.Await, ast.NamedExpr)) for x in ast.walk(e)):
            continue
        if all((nm in stable) or (nm not in counts and nm not in params) for nm in names):
            out[k] = e
    return out


def _with_ctrl(v, ctrl):
    """merged value after a data-dependent branch: remember the test's arguments as
    control dependence (kept separate from value deps through the 'ctrl:' prefix)"""
    extra = frozenset("ctrl:" + d if not d.startswith("ctrl:") else d for d in ctrl)
    if isinstance(v, Abs):
        return Abs(v.k, v.deps | extra, sym=None, cap=None, sign=v.sign, neg=v.neg, lb=v.lb, ub=v.ub, lin=v.lin, mono=v.mono)
    if isinstance(v, OneOf):
        return OneOf(v.vals, v.deps | extra)
    return v


def value_deps(v):
    return frozenset(d for d in v.deps if not d.startswith("ctrl:"))


def ctrl_deps(v, guards=()):
    out = {d[5:] for d in v.deps if d.startswith("ctrl:")}
    for gd in guards:
        if len(gd) > 2:
            out |= {d[5:] if d.startswith("ctrl:") else d for d in gd[2]}
    return frozenset(out)
