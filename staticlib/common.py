"""Shared reporting / exit-code discipline for all checks.

Exit codes: 0 held; 1 VIOLATION (not listed in known_findings.json); 2 ANALYSIS-ERROR
(the analyser cannot stand behind a verdict: anchor vanished, instance floor undercut,
internal exception).  The deciding step never imports the subject.
"""
from __future__ import annotations

import json
import os
import sys
import time
import traceback
from pathlib import Path

VERIF = Path(__file__).resolve().parent.parent
EVIDENCE_DIR = Path(os.environ.get("VERIF_EVIDENCE_DIR") or VERIF / "evidence")  # selftests redirect
REPLAY_DIR = EVIDENCE_DIR / "replay"
KNOWN_FILE = VERIF / "known_findings.json"


class AnalysisError(Exception):
    """The analyser cannot decide (never a pass, never a violation)."""


class Finding:
    __slots__ = ("rule", "key", "where", "msg", "extra")

    def __init__(self, rule, key, where, msg, extra=None):
        self.rule = rule
        self.key = key
        self.where = where
        self.msg = msg
        self.extra = extra or {}

    def ident(self):
        return (self.rule, self.key)


class Ctx:
    """One run of one property check."""

    def __init__(self, prop, tier="quick", root="/repo", seed=0, level="other"):
        self.prop = prop
        self.tier = tier
        self.root = Path(root)
        self.seed = seed
        self.level = level
        self.t0 = time.time()
        self.findings: list[Finding] = []
        self.counts: dict[str, int] = {}  # instances examined per rule
        self.discharged: dict[str, int] = {}
        self.skipped: list[dict] = []
        self.infos: list[str] = []
        self.samples: list = []
        self.rules: dict[str, str] = {}  # rule -> one-line statement
        self.assumptions: list[str] = []
        self.extra_cov: dict = {}
        self.nontrivial: set = set()
        self.trusted_base: list[str] = []

    # ---- bookkeeping
    def rule(self, name, text):
        self.rules[name] = text
        self.counts.setdefault(name, 0)
        self.discharged.setdefault(name, 0)

    def ob(self, rule, ok=True, distinct=None, n=1):
        """record n obligations of `rule`; ok=False means a finding was/will be filed"""
        self.counts[rule] = self.counts.get(rule, 0) + n
        if ok:
            self.discharged[rule] = self.discharged.get(rule, 0) + n
        if distinct is not None:
            self.nontrivial.add((rule, distinct))

    def violation(self, rule, key, where, msg, **extra):
        f = Finding(rule, key, where, msg, extra)
        for g in self.findings:
            if g.ident() == f.ident():
                # same construct reported again (e.g. in another interval): merge
                g.extra.setdefault("also", [])
                if len(g.extra["also"]) < 5:
                    g.extra["also"].append(where)
                return
        self.findings.append(f)

    def skip(self, rule, what, why):
        e = {"rule": rule, "what": what, "why": why}
        if e not in self.skipped:
            self.skipped.append(e)

    def info(self, text):
        self.infos.append(text)

    def sample(self, s):
        if len(self.samples) < 12:
            self.samples.append(s)

    def floor(self, rule, floor):
        n = self.counts.get(rule, 0)
        if n < floor:
            raise AnalysisError(
                f"rule {rule}: only {n} instances examined, floor confirmed by hand is "
                f"{floor} - the rule would pass vacuously"
            )

    def skip_budget(self, rule, frac=0.05):
        n = self.counts.get(rule, 0)
        s = sum(1 for x in self.skipped if x["rule"] == rule)
        if n + s and s > frac * (n + s):
            raise AnalysisError(
                f"rule {rule}: {s} of {n + s} instances skipped (> {frac:.0%}); "
                "coverage too low to stand behind a verdict"
            )

    # ---- finish
    def finish(self):
        known = load_known()
        viol, knownhits = [], []
        for f in self.findings:
            hit = None
            for k in known:
                if (
                    k.get("status") == "known"
                    and k["property"] == self.prop
                    and k["rule"] == f.rule
                    and k["key"] == f.key
                ):
                    hit = k
                    break
            (knownhits if hit else viol).append((f, hit))
        for f, k in knownhits:
            print(f"KNOWN-FINDING: property={self.prop} rule={f.rule} {f.key} :: {f.msg} [{f.where}]")
        REPLAY_DIR.mkdir(parents=True, exist_ok=True)
        for old in REPLAY_DIR.glob(f"{self.prop}-*.json"):
            old.unlink()
        for i, (f, _) in enumerate(viol):
            p = REPLAY_DIR / f"{self.prop}-{i}.json"
            p.write_text(
                json.dumps(
                    {
                        "property": self.prop,
                        "rule": f.rule,
                        "rule_text": self.rules.get(f.rule, ""),
                        "key": f.key,
                        "where": f.where,
                        "message": f.msg,
                        "extra": f.extra,
                        "root": str(self.root),
                    },
                    indent=1,
                    ensure_ascii=False,
                    default=str,
                )
            )
            print(f"  {f.where}: [{f.rule}] {f.msg}")
            print(f"VIOLATION property={self.prop} replay={p}")
        self.write_evidence(len(viol), len(knownhits))
        total = sum(self.counts.values())
        print(
            f"{self.prop} [{self.tier}] rules={len(self.rules)} instances={total} "
            f"violations={len(viol)} known={len(knownhits)} skipped={len(self.skipped)} "
            f"wall={time.time() - self.t0:.1f}s"
        )
        return 1 if viol else 0

    def write_evidence(self, nviol, nknown):
        total = sum(self.counts.values())
        disc = sum(self.discharged.values())
        cov = {
            "explanation": (
                "Static analysis of /repo's current sources (ast + parsed YAML); the subject is "
                "never imported or executed. Rules applied: "
                + "; ".join(f"{k}: {v}" for k, v in self.rules.items())
            ),
            "evaluations": max(total, 1),
            "distinct_nontrivial": max(len(self.nontrivial), 0),
            "rule": "one evaluation = one rule instance (construct, call site, schedule piece, "
            "interval x rule pair) examined; distinct = distinct (rule, construct) pairs",
            "instances_per_rule": dict(self.counts),
            "discharged_per_rule": dict(self.discharged),
            "samples": self.samples or ["(no samples recorded)"],
            "skipped": self.skipped[:40],
            "skipped_count": len(self.skipped),
            "information": self.infos[:60],
            "known_findings_reported": nknown,
            "subject_imported": any(m == "_gettsim" or m.startswith("_gettsim.") for m in sys.modules),
            "root": str(self.root),
        }
        if self.level == "proof":
            cov["obligations"] = max(total, 1)
            cov["discharged"] = disc
            cov["checker_cmd"] = f"./vcheck {self.prop} --tier {self.tier}"
            cov["trusted_base"] = self.trusted_base or ["python ast", "PyYAML", "fractions.Fraction"]
        cov.update(self.extra_cov)
        ev = {
            "property_id": self.prop,
            "tier": self.tier,
            "seed": self.seed,
            "level": self.level,
            "coverage": cov,
            "assumptions": self.assumptions,
            "wall_s": round(time.time() - self.t0, 3),
            "violations": nviol,
        }
        EVIDENCE_DIR.mkdir(parents=True, exist_ok=True)
        (EVIDENCE_DIR / f"{self.prop}.json").write_text(
            json.dumps(ev, indent=1, ensure_ascii=False, default=str)
        )


def load_known():
    if not KNOWN_FILE.exists():
        return []
    return json.loads(KNOWN_FILE.read_text())["findings"]


def run_check(prop, fn, tier, root, level="other"):
    """Run `fn(ctx)`; map outcomes to the exit-code discipline."""
    seed = int(os.environ.get("VERIF_SEED", "0") or 0)
    ctx = Ctx(prop, tier=tier, root=root, seed=seed, level=level)
    try:
        fn(ctx)
        return ctx.finish()
    except AnalysisError as e:
        print(f"ANALYSIS-ERROR property={prop}: {e}")
        # violations established before the analyser gave up remain valid verdicts
        if ctx.findings:
            ctx.info(f"analysis stopped early: {e}")
            rc = ctx.finish()
            if rc == 1:
                return 1
        return 2
    except Exception:  # noqa: BLE001
        traceback.print_exc()
        print(f"ANALYSIS-ERROR property={prop}: internal exception (see traceback)")
        return 2
