"""Static DAG model (D): re-derives, from syntax trees and config tables only, the function set
that functions_loader.load_and_check_functions builds for one date.  Validated at design time
against the real loader (36 dates, ~930 functions each, 0 differences)."""
from __future__ import annotations

import re

from .common import AnalysisError


class Node:
    __slots__ = ("name", "kind", "args", "rule", "spec", "conv", "auto", "src")

    def __init__(self, name, kind, args, rule=None, spec=None, conv=None, auto=False, src=None):
        self.name = name
        self.kind = kind  # rule | pid_agg | time | grp_agg | grouping
        self.args = args
        self.rule = rule
        self.spec = spec
        self.conv = conv
        self.auto = auto
        self.src = src

    def __repr__(self):
        return f"<{self.kind} {self.name}({', '.join(self.args)})>"


class Dag:
    def __init__(self, repo, date, data_cols=None, targets=None, user_grp_specs=None, user_pid_specs=None):
        self.repo = repo
        self.date = date
        self.data_cols = list(repo.input_types) if data_cols is None else list(data_cols)
        self.targets = list(repo.default_targets) if targets is None else list(targets)
        self.dups = []  # DAG names with more than one active implementation
        G = repo.groupings
        U = repo.time_units
        self.time_re = re.compile(
            f"(?P<base_name>.*_)(?P<time_unit>[{''.join(U)}])(?P<aggregation>{'|'.join('_' + g for g in G)})?"
        )
        data = set(self.data_cols)
        # 1 active rules
        F = {}
        for r in repo.rules:
            if r.start is None:
                continue
            if (not r.decorated) or r.active(date):
                nm = r.dag_name if r.decorated else r.name
                if nm in F:
                    self.dups.append((nm, F[nm].rule, r))
                F[nm] = Node(nm, "rule", list(r.argnames_nodefault()), rule=r)
        grp_specs, pid_specs, _, _ = repo.agg_specs
        pid_specs = {**pid_specs, **(user_pid_specs or {})}
        # 2 pointer aggregates
        P = {}
        for k, s in pid_specs.items():
            if "aggr" not in s:
                continue
            sc = s.get("source_col")
            if sc in F or sc in data:
                args = ([sc] if s["aggr"] != "count" else []) + [s.get("p_id_to_aggregate_by"), "p_id"]
                if s["aggr"] != "count":
                    args = [sc, s.get("p_id_to_aggregate_by"), "p_id"]
                P[k] = Node(k, "pid_agg", args, spec=s)
        # 3 time conversions
        T = {}
        FP = {**F, **P}
        for name, f in FP.items():
            for k, v in self._conv(name, set(f.args)).items():
                if k not in FP and k not in data:
                    T[k] = v
        for name in self.data_cols:
            for k, v in self._conv(name, set()).items():
                if k not in data:
                    T[k] = v
        # 4 group aggregates
        TFP = {**T, **F, **P}
        pot_src = set(TFP) | data
        pot_agg = {a for f in TFP.values() for a in f.args} | set(self.targets)
        auto = {
            c: {"aggr": "sum", "source_col": repo.remove_group_suffix(c)}
            for c in sorted(pot_agg)
            if c not in TFP and any(c.endswith("_" + g) for g in G) and repo.remove_group_suffix(c) in pot_src
        }
        specs = {**auto, **grp_specs, **(user_grp_specs or {})}
        Gn = {}
        self.bad_specs = []
        for k, s in specs.items():
            gid = repo.group_suffix(k)
            if gid is None or "aggr" not in s or (s["aggr"] != "count" and "source_col" not in s):
                self.bad_specs.append((k, s))
                continue
            args = ([s["source_col"]] if s["aggr"] != "count" else []) + [gid + "_id"]
            Gn[k] = Node(k, "grp_agg", args, spec=s, auto=(k in auto and k not in grp_specs and k not in (user_grp_specs or {})))
        # 5 groupings
        GR = {}
        for k, (fname, fd) in repo.grouping_funcs.items():
            GR[k] = Node(k, "grouping", [a.arg for a in fd.args.args], src=fd)
        self.layers = {"pid_agg": P, "time": T, "rule": F, "grp_agg": Gn, "grouping": GR}
        allf = {**P, **T, **F, **Gn, **GR}
        self.all = allf
        self.overridden = {k: v for k, v in allf.items() if k in data}
        self.nodes = {k: v for k, v in allf.items() if k not in data}
        self.data = data

    def _conv(self, name, deps):
        m = self.time_re.fullmatch(name)
        res = {}
        if m:
            for u in self.repo.time_units:
                if u == m.group("time_unit"):
                    continue
                new = f"{m.group('base_name')}{u}{m.group('aggregation') or ''}"
                if new in deps:
                    continue
                res[new] = Node(new, "time", [name], conv=f"{m.group('time_unit')}_to_{u}")
        return res

    # ------------------------------------------------------------------ graph queries
    def deps(self, n):
        node = self.nodes.get(n)
        if node is None:
            return []
        return [a for a in node.args if a is not None and not a.endswith("_params")]

    def reach(self, targets=None):
        """(topological order of reachable names, cycle or None)"""
        targets = self.targets if targets is None else targets
        state, order = {}, []
        cycle = None
        for t in targets:
            stack = [(t, iter(self.deps(t)))]
            if t in state:
                continue
            state[t] = 1
            path = [t]
            while stack:
                n, it = stack[-1]
                adv = False
                for a in it:
                    if a not in state:
                        state[a] = 1
                        stack.append((a, iter(self.deps(a))))
                        path.append(a)
                        adv = True
                        break
                    if state[a] == 1 and cycle is None:
                        cycle = path[path.index(a):] + [a]
                if not adv:
                    stack.pop()
                    path.pop()
                    state[n] = 2
                    order.append(n)
        return order, cycle

    def leaves(self, order):
        return [n for n in order if n not in self.nodes]

    def params_only(self, n):
        node = self.nodes.get(n)
        return node is not None and node.kind == "rule" and not self.deps(n)


def _argnames_nodefault(self):
    return [a for a in self.argnames if a not in self.args_with_default]


# attach helper to Rule without creating an import cycle
from .srcmodel import Rule  # noqa: E402

Rule.argnames_nodefault = _argnames_nodefault


def merge_order_probe(repo):
    """the dict display `all_functions = {**a, **b, ...}` in load_and_check_functions must unpack,
    in this order: pointer aggregates, time conversions, rules, group aggregates, groupings."""
    import ast

    fl = repo.module("functions_loader.py")
    fn = fl.functions.get("load_and_check_functions")
    if fn is None:
        raise AnalysisError("primary anchor functions_loader.load_and_check_functions vanished")
    return fl, fn, ast
