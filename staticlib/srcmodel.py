"""Source model (SPM): everything the checks need from the Python sources, extracted from
syntax trees only - nothing under /repo is imported or executed."""
from __future__ import annotations

import ast
import datetime
import functools
from pathlib import Path

from .common import AnalysisError

PKG = "src/_gettsim"


def norm(node) -> str:
    """normalised construct text (position independent)"""
    return ast.unparse(node)


class _TypeMatchDesugar(ast.NodeTransformer):
    """`match x: case A(): ... case B() if g: ... case _: ...` (class patterns without sub-patterns only) is
    read as the `if isinstance(x, A): ... elif isinstance(x, B) and g: ... else: ...` chain it abbreviates, so
    that every rule written for the if-form covers the match-form; positions are kept.  Matches with value,
    sequence or capture patterns are left as they are (rules that know them handle them)."""

    def visit_Match(self, node):
        self.generic_visit(node)
        if not isinstance(node.subject, ast.Name):
            return node
        tests = []
        for i, c in enumerate(node.cases):
            pat = c.pattern
            if isinstance(pat, ast.MatchClass) and not pat.patterns and not pat.kwd_patterns:
                t = ast.Call(func=ast.Name(id="isinstance", ctx=ast.Load()), args=[ast.Name(id=node.subject.id, ctx=ast.Load()), pat.cls], keywords=[])
                if c.guard is not None:
                    t = ast.BoolOp(op=ast.And(), values=[t, c.guard])
                tests.append(t)
            elif isinstance(pat, ast.MatchAs) and pat.pattern is None and pat.name is None and c.guard is None and i == len(node.cases) - 1:
                tests.append(None)
            else:
                return node
        if not tests or tests[0] is None:
            return node
        chain = None
        for t, c in reversed(list(zip(tests, node.cases))):
            if t is None:
                chain = list(c.body)
                continue
            new = ast.If(test=t, body=list(c.body), orelse=chain if isinstance(chain, list) else ([chain] if chain is not None else []))
            ast.copy_location(new, c.pattern)
            for x in ast.walk(t):
                if not hasattr(x, "lineno"):
                    ast.copy_location(x, c.pattern)
            chain = new
        ast.copy_location(chain, node)
        return ast.fix_missing_locations(chain)


class Module:
    def __init__(self, repo, rel):
        self.repo = repo
        self.rel = rel  # path relative to src/_gettsim, posix
        self.path = repo.pkg / rel
        self.src = self.path.read_text(encoding="utf-8")
        self.tree = _TypeMatchDesugar().visit(ast.parse(self.src))
        self.modname = "_gettsim." + rel[:-3].replace("/", ".")
        self.functions: dict[str, ast.FunctionDef] = {}
        self.dup_functions: list[tuple[str, int, int]] = []
        self.imports: dict[str, tuple[str, str]] = {}  # local name -> (module, original name)
        self.plain_imports: dict[str, str] = {}  # alias -> module
        self.assigns: dict[str, ast.AST] = {}
        self.future_annotations = False
        self.other_toplevel: list[ast.AST] = []
        for n in self.tree.body:
            if isinstance(n, (ast.FunctionDef, ast.AsyncFunctionDef)):
                if n.name in self.functions:
                    self.dup_functions.append((n.name, self.functions[n.name].lineno, n.lineno))
                self.functions[n.name] = n
            elif isinstance(n, ast.ImportFrom):
                if n.module == "__future__" and any(a.name == "annotations" for a in n.names):
                    self.future_annotations = True
                for a in n.names:
                    self.imports[a.asname or a.name] = (n.module or "", a.name)
            elif isinstance(n, ast.Import):
                for a in n.names:
                    self.plain_imports[a.asname or a.name.split(".")[0]] = a.name
            elif isinstance(n, ast.Assign) and len(n.targets) == 1 and isinstance(n.targets[0], ast.Name):
                self.assigns[n.targets[0].id] = n.value
            elif isinstance(n, ast.AnnAssign) and isinstance(n.target, ast.Name) and n.value is not None:
                self.assigns[n.target.id] = n.value
            elif isinstance(n, ast.Expr) and isinstance(n.value, ast.Constant):
                pass
            else:
                self.other_toplevel.append(n)

    def loc(self, node) -> str:
        return f"{PKG}/{self.rel}:{getattr(node, 'lineno', 0)}"


class Rule:
    """one module-level function of a policy module"""

    def __init__(self, mod: Module, node: ast.FunctionDef):
        self.mod = mod
        self.node = node
        self.name = node.name
        self.decorated = False
        self.info: dict = {}
        self.bad_decorator: str | None = None
        for d in node.decorator_list:
            if isinstance(d, ast.Call) and _dec_name(d.func) == "policy_info":
                self.decorated = True
                for kw in d.keywords:
                    try:
                        self.info[kw.arg] = ast.literal_eval(kw.value)
                    except Exception:  # noqa: BLE001
                        self.bad_decorator = f"non-literal {kw.arg}={ast.unparse(kw.value)}"
                if d.args:
                    self.bad_decorator = "positional decorator arguments"
            else:
                self.bad_decorator = ast.unparse(d)
        self.dag_name = self.info.get("name_in_dag") or self.name
        self.start_s = self.info.get("start_date", "0001-01-01")
        self.end_s = self.info.get("end_date", "9999-12-31")
        try:
            self.start = datetime.date.fromisoformat(self.start_s)
            self.end = datetime.date.fromisoformat(self.end_s)
        except Exception:  # noqa: BLE001
            self.start = self.end = None
        a = node.args
        self.args = [
            (x.arg, ast.unparse(x.annotation) if x.annotation is not None else None)
            for x in a.posonlyargs + a.args + a.kwonlyargs
        ]
        # arguments with defaults are invisible to the DAG (get_names_of_arguments_without_defaults)
        ndef = len(a.defaults)
        pos = a.posonlyargs + a.args
        self.args_with_default = {x.arg for x in pos[len(pos) - ndef:]} if ndef else set()
        self.args_with_default |= {x.arg for x, dflt in zip(a.kwonlyargs, a.kw_defaults) if dflt is not None}
        self.ret = ast.unparse(node.returns) if node.returns is not None else None
        self.rounding_key = self.info.get("params_key_for_rounding")
        self.skip_vec = bool(self.info.get("skip_vectorization", False))

    @property
    def argnames(self):
        return [a for a, _ in self.args]

    @property
    def data_args(self):
        return [a for a, _ in self.args if not a.endswith("_params") and a not in self.args_with_default]

    def active(self, d: datetime.date) -> bool:
        return self.start <= d <= self.end

    @property
    def where(self):
        return f"{self.mod.loc(self.node)} {self.name}"

    @property
    def qual(self):
        return f"{self.mod.rel}:{self.name}"

    def __repr__(self):
        return f"<Rule {self.qual} [{self.start_s}..{self.end_s}] as {self.dag_name}>"


def _dec_name(f):
    if isinstance(f, ast.Name):
        return f.id
    if isinstance(f, ast.Attribute):
        return f.attr
    return None


class Repo:
    def __init__(self, root="/repo"):
        self.root = Path(root)
        self.pkg = self.root / PKG
        if not self.pkg.is_dir():
            raise AnalysisError(f"{self.pkg} does not exist")
        self._mods: dict[str, Module] = {}

    def module(self, rel) -> Module:
        if rel not in self._mods:
            p = self.pkg / rel
            if not p.exists():
                raise AnalysisError(f"anchor module {PKG}/{rel} vanished")
            try:
                self._mods[rel] = Module(self, rel)
            except SyntaxError as e:
                raise AnalysisError(f"{PKG}/{rel} does not parse: {e}") from e
        return self._mods[rel]

    # ---- config
    @functools.cached_property
    def config(self):
        return self.module("config.py")

    def cfg(self, name):
        m = self.config
        if name not in m.assigns:
            raise AnalysisError(f"config.{name} vanished")
        v = m.assigns[name]
        if name == "TYPES_INPUT_VARIABLES":
            if not isinstance(v, ast.Dict):
                raise AnalysisError("config.TYPES_INPUT_VARIABLES is not a dict display")
            return {ast.literal_eval(k): ast.unparse(x) for k, x in zip(v.keys, v.values)}
        if name == "PATHS_TO_INTERNAL_FUNCTIONS":
            out = []
            for e in v.elts:
                if isinstance(e, ast.BinOp) and isinstance(e.op, ast.Div) and isinstance(e.right, ast.Constant):
                    out.append(e.right.value)
                else:
                    raise AnalysisError(f"PATHS_TO_INTERNAL_FUNCTIONS element not understood: {ast.unparse(e)}")
            return out
        try:
            return ast.literal_eval(v)
        except Exception as e:  # noqa: BLE001
            # built from other module-level literals (comprehension, f-string, ...): constant folding
            from .minieval import Unsupported, fold_module_value

            try:
                return fold_module_value(self, m, v)
            except (Unsupported, KeyError, TypeError, IndexError, RecursionError) as e2:
                raise AnalysisError(f"config.{name} is not a literal and cannot be folded: {e}; {e2!r}") from e

    @functools.cached_property
    def groupings(self) -> list[str]:
        return list(self.cfg("SUPPORTED_GROUPINGS"))

    @functools.cached_property
    def time_units(self) -> list[str]:
        return list(self.cfg("SUPPORTED_TIME_UNITS"))

    @functools.cached_property
    def default_targets(self) -> list[str]:
        return list(self.cfg("DEFAULT_TARGETS"))

    @functools.cached_property
    def input_types(self) -> dict[str, str]:
        return self.cfg("TYPES_INPUT_VARIABLES")

    @functools.cached_property
    def foreign_keys(self) -> list[str]:
        return list(self.cfg("FOREIGN_KEYS"))

    @functools.cached_property
    def param_groups(self) -> list[str]:
        return list(self.cfg("INTERNAL_PARAMS_GROUPS"))

    # ---- policy modules
    @functools.cached_property
    def policy_module_rels(self) -> list[str]:
        rels = []
        for p in self.cfg("PATHS_TO_INTERNAL_FUNCTIONS"):
            full = self.pkg / p
            if full.is_dir():
                rels += sorted(str(q.relative_to(self.pkg).as_posix()) for q in full.rglob("*.py"))
            elif full.exists():
                rels.append(p)
            else:
                raise AnalysisError(f"PATHS_TO_INTERNAL_FUNCTIONS entry {p} does not exist")
        return rels

    @functools.cached_property
    def policy_modules(self) -> list[Module]:
        return [self.module(r) for r in self.policy_module_rels]

    @functools.cached_property
    def rules(self) -> list[Rule]:
        out = []
        for m in self.policy_modules:
            for fn in m.functions.values():
                out.append(Rule(m, fn))
        return out

    @functools.cached_property
    def rules_by_qual(self):
        return {r.qual: r for r in self.rules}

    def helpers_visible_from(self, mod: Module) -> dict[str, tuple[Module, ast.FunctionDef]]:
        """functions callable by bare name inside `mod`: own + imported from _gettsim modules"""
        out = {n: (mod, f) for n, f in mod.functions.items()}
        for local, (src, orig) in mod.imports.items():
            if src.startswith("_gettsim."):
                rel = src[len("_gettsim."):].replace(".", "/") + ".py"
                if (self.pkg / rel).exists():
                    m2 = self.module(rel)
                    if orig in m2.functions:
                        out[local] = (m2, m2.functions[orig])
        return out

    # ---- aggregation specs
    @functools.cached_property
    def agg_specs(self):
        """returns (by_group, by_p_id, origins, problems); spec dicts folded from module-level
        assignments whose name starts with aggregate_by_group_ / aggregate_by_p_id_."""
        from .minieval import fold_module_value

        grp, pid, origin, problems = {}, {}, {}, []
        for m in self.policy_modules:
            for name, val in m.assigns.items():
                if name.startswith("aggregate_by_group_"):
                    tgt = grp
                elif name.startswith("aggregate_by_p_id_"):
                    tgt = pid
                else:
                    continue
                try:
                    d = fold_module_value(self, m, val)
                except Exception as e:  # noqa: BLE001
                    raise AnalysisError(f"{m.rel}:{name}: spec dictionary cannot be folded: {e}") from e
                if not isinstance(d, dict):
                    continue  # the loader only collects dict objects
                for k, v in d.items():
                    if k in tgt:
                        problems.append((k, origin[(tgt is grp, k)], f"{m.rel}:{name}"))
                    tgt[k] = v
                    origin[(tgt is grp, k)] = f"{m.rel}:{name}"
        return grp, pid, origin, problems

    # ---- groupings
    @functools.cached_property
    def grouping_funcs(self):
        """name in dag -> (function name, FunctionDef) from create_groupings()"""
        m = self.module("groupings.py")
        cg = m.functions.get("create_groupings")
        if cg is None:
            raise AnalysisError("groupings.create_groupings vanished")
        ret = [n for n in ast.walk(cg) if isinstance(n, ast.Return)]
        if len(ret) != 1 or not isinstance(ret[0].value, ast.Dict):
            raise AnalysisError("create_groupings no longer returns one dict display")
        out = {}
        for k, v in zip(ret[0].value.keys, ret[0].value.values):
            if not (isinstance(k, ast.Constant) and isinstance(v, ast.Name) and v.id in m.functions):
                raise AnalysisError(f"create_groupings entry not understood: {ast.unparse(k)}")
            out[k.value] = (v.id, m.functions[v.id])
        return out

    def remove_group_suffix(self, col: str) -> str:
        out = col
        for g in self.groupings:
            out = out.removesuffix(f"_{g}")
        return out

    def group_suffix(self, col: str):
        """the grouping whose id the aggregate factory would pick (last match wins)"""
        best = None
        for g in self.groupings:
            if col.endswith(f"_{g}"):
                best = g
        return best


def walk_own(fnode):
    """walk a function body without entering nested function/class definitions"""
    stack = list(fnode.body)
    while stack:
        n = stack.pop()
        yield n
        if isinstance(n, (ast.FunctionDef, ast.AsyncFunctionDef, ast.Lambda, ast.ClassDef)):
            continue
        for c in ast.iter_child_nodes(n):
            if isinstance(c, (ast.FunctionDef, ast.AsyncFunctionDef, ast.Lambda, ast.ClassDef)):
                continue
            stack.append(c)


def find_function(mod: Module, name: str, what="anchor"):
    if name not in mod.functions:
        raise AnalysisError(f"{what} {mod.rel}:{name} vanished")
    return mod.functions[name]
