"""Parameter model (Y): a re-statement, over parsed YAML, of what the parameter loader
(`_load_parameter_group_from_yaml` + `_parse_piecewise_parameters`) returns for a date.

Validated differentially at design time (13 471 comparisons, 0 differences); at check time
its fidelity is guarded by the loader facts extracted in probes.py (the lists of
non-transferred keys and of transferred rounding keys are *read from the source*)."""
from __future__ import annotations

import copy
import datetime
import functools
import math
from fractions import Fraction

import numpy
import yaml

from .common import AnalysisError

try:
    _Loader = yaml.CSafeLoader
except AttributeError:  # pragma: no cover
    _Loader = yaml.SafeLoader


class Missing(Exception):
    """the loader itself would raise here (KeyError & co.)"""


def sub_years(dt, years):
    try:
        return dt.replace(year=dt.year - years)
    except ValueError:
        return dt.replace(year=dt.year - years, day=dt.day - 1)


def transfer(remaining, new, key_list):
    if isinstance(remaining, dict):
        for k in remaining:
            new = transfer(remaining[k], new, [*key_list, k])
    elif len(key_list) == 0:
        return remaining
    else:
        cur = new
        for k in key_list[:-1]:
            cur = cur[k]
        cur[key_list[-1]] = remaining
    return new


class YamlModel:
    def __init__(self, repo, facts):
        self.repo = repo
        self.facts = facts  # LoaderFacts from probes.py
        self.pdir = repo.pkg / "parameters"
        self._raw = {}

    def groups(self):
        return self.repo.param_groups

    def raw(self, group):
        if group not in self._raw:
            p = self.pdir / f"{group}.yaml"
            if not p.exists():
                raise AnalysisError(f"parameter file {p} of INTERNAL_PARAMS_GROUPS entry {group!r} is missing")
            try:
                self._raw[group] = yaml.load(p.read_text(encoding="utf-8"), Loader=_Loader)
            except yaml.YAMLError as e:
                raise AnalysisError(f"{p} does not parse: {e}") from e
        return self._raw[group]

    # ------------------------------------------------------------------ loader
    def load_group(self, date, group, parameters=None, _depth=0):
        if _depth > 300:
            raise Missing(f"deviation_from/access_different_date recursion does not terminate in {group}")
        r = self.raw(group)
        out = {}
        if not parameters:
            parameters = [k for k in r if k != "rounding"]
        NOT_TRANS = self.facts.not_trans_keys
        for param in parameters:
            if param not in r:
                raise Missing(f"{group}.{param} does not exist")
            pr = r[param]
            if not isinstance(pr, dict):
                raise Missing(f"{group}.{param} is not a mapping")
            pdates = sorted(k for k in pr if isinstance(k, datetime.date) and not isinstance(k, datetime.datetime))
            past = [d for d in pdates if d <= date]
            if not past:
                if not pdates:
                    raise Missing(f"{group}.{param} has no dated entry")
                first = pr[min(pdates)]
                if isinstance(first, dict) and "deviation_from" in first:
                    if "." in first["deviation_from"]:
                        g2, p2 = first["deviation_from"].split(".")[:2]
                        tmp = self.load_group(date, g2, [p2], _depth + 1)
                        if p2 in tmp:
                            out[param] = tmp[p2]
            else:
                pol = pr[max(past)]
                if not isinstance(pol, dict):
                    raise Missing(f"{group}.{param}[{max(past)}] is not a mapping")
                if "scalar" in pol:
                    out[param] = math.inf if pol["scalar"] == "inf" else pol["scalar"]
                else:
                    out[param] = {}
                    for key in self.facts.add_trans_keys:
                        if key in pr:
                            out[param][key] = pr[key]
                    vkeys = [k for k in pol if k not in NOT_TRANS]
                    if "deviation_from" in pol:
                        dev = pol["deviation_from"]
                        if dev == "previous":
                            nd = max(past) - datetime.timedelta(days=1)
                            base = self.load_group(nd, group, [param], _depth + 1)
                            if param not in base:
                                raise Missing(f"{group}.{param}[{max(past)}]: deviation_from previous has no predecessor")
                            out[param] = base[param]
                        elif "." in dev:
                            g2, p2 = dev.split(".")[:2]
                            base = self.load_group(date, g2, [p2], _depth + 1)
                            if p2 not in base:
                                raise Missing(f"{group}.{param}[{max(past)}]: deviation_from {dev} unresolved at {date}")
                            out[param] = base[p2]
                        for key in vkeys:
                            if not isinstance(out[param], dict) or key not in out[param]:
                                raise Missing(
                                    f"{group}.{param}[{max(past)}]: overlay key {key!r} not in deviation base"
                                )
                            try:
                                out[param][key] = transfer(pol[key], copy.deepcopy(out[param][key]), [])
                            except (KeyError, TypeError, IndexError) as e:
                                raise Missing(
                                    f"{group}.{param}[{max(past)}]: overlay path below {key!r} not in base ({e!r})"
                                ) from e
                    else:
                        for key in vkeys:
                            out[param][key] = pol[key]
                if "access_different_date" in pr:
                    add = pr["access_different_date"]
                    if add == "vorjahr":
                        ly = self.load_group(sub_years(date, 1), group, [param], _depth + 1)
                        if param in ly:
                            out[f"{param}_vorjahr"] = ly[param]
                    elif add == "jahresanfang":
                        b = date.replace(month=1, day=1)
                        if b == date:
                            out[f"{param}_jahresanfang"] = out[param]
                        else:
                            lb = self.load_group(b, group, [param], _depth + 1)
                            if param in lb:
                                out[f"{param}_jahresanfang"] = lb[param]
                    else:
                        raise Missing(f"{group}.{param}: access_different_date {add!r} not implemented")
        out["datum"] = numpy.datetime64(date)
        if "rounding" in r:
            out["rounding"] = self.load_rounding(date, r["rounding"])
        return out

    def load_rounding(self, date, rspec):
        rr = {}
        keys = self.facts.rounding_keys  # None = loader copies every key
        for fn, spec in rspec.items():
            ds = sorted(
                k for k in spec if isinstance(k, datetime.date) and not isinstance(k, datetime.datetime) and k <= date
            )
            if ds:
                pol = spec[max(ds)]
                rr[fn] = {k: pol[k] for k in pol if keys is None or k in keys}
        return rr

    # ------------------------------------------------------------------ piecewise
    def parse_piecewise_group(self, gd, group):
        """model of _parse_piecewise_parameters (mutates and returns gd)"""
        for param in list(gd):
            v = gd[param]
            if isinstance(v, dict):
                if "type" in v and isinstance(v["type"], str) and v["type"].startswith("piecewise"):
                    try:
                        pw = parse_pw_exact(v)
                    except PWError as e:
                        raise Missing(f"{group}.{param}: piecewise specification invalid: {e}") from e
                    gd[param] = pw.as_float_dict()
                else:
                    for key in self.facts.add_trans_keys:
                        v.pop(key, None)
        return gd

    def group_env(self, date, group):
        return self.parse_piecewise_group(self.load_group(date, group), group)

    # ------------------------------------------------------------------ timeline
    @functools.cached_property
    def all_entry_dates(self):
        ds = set()

        def walk(d):
            for k, v in d.items():
                if isinstance(k, datetime.date) and not isinstance(k, datetime.datetime):
                    ds.add(k)
                if isinstance(v, dict):
                    walk(v)

        for g in self.groups():
            walk(self.raw(g))
        return ds

    def piecewise_params(self):
        for g in self.groups():
            for p, v in self.raw(g).items():
                if isinstance(v, dict) and isinstance(v.get("type"), str) and v["type"].startswith("piecewise"):
                    yield g, p, v


# ====================================================================== exact piecewise
INF = math.inf


class PWError(Exception):
    pass


def fr(v):
    if isinstance(v, bool):
        raise PWError(f"boolean {v!r} where a number is expected")
    if isinstance(v, str):
        try:
            v = float(v)
        except ValueError as e:
            raise PWError(f"not a number: {v!r}") from e
    if isinstance(v, float):
        if math.isinf(v):
            return v
        if math.isnan(v):
            raise PWError("nan")
        return Fraction(repr(v))
    if isinstance(v, int):
        return Fraction(v)
    raise PWError(f"not a number: {v!r}")


class PW:
    def __init__(self, typ, lo, up, rates, c, issues, supplied_all):
        self.typ = typ
        self.lo, self.up, self.rates, self.c = lo, up, rates, c
        self.issues = issues
        self.n = len(lo)
        self.supplied_all = supplied_all

    @property
    def thresholds(self):
        return [self.lo[0], *self.up]

    def as_float_dict(self):
        th = sorted(float(x) for x in self.thresholds)  # the loader sorts
        return {
            "thresholds": numpy.array(th),
            "rates": numpy.array([[float(x) for x in row] for row in self.rates]),
            "intercepts_at_lower_thresholds": numpy.array([float(x) for x in self.c]),
        }

    def piece_poly(self, i):
        """coefficients (c, r1, r2, ...) of piece i in powers of (x - lo[i]); piece 0 is constant"""
        if i == 0:
            return [self.c[0]]
        return [self.c[i]] + [row[i] for row in self.rates]

    def value_at(self, i, x):
        """value of piece i at rational x"""
        p = self.piece_poly(i)
        if i == 0:
            return p[0]
        dx = x - self.lo[i]
        return p[0] + sum(p[k] * dx**k for k in range(1, len(p)))

    def slope_at(self, i, x):
        p = self.piece_poly(i)
        if i == 0:
            return Fraction(0)
        dx = x - self.lo[i]
        return sum(k * p[k] * dx ** (k - 1) for k in range(1, len(p)))


def parse_pw_exact(pd):
    """exact (Fraction) re-statement of get_piecewise_parameters (+ add_progressionsfaktor)."""
    parts = str(pd["type"]).split("_")
    if len(parts) < 2 or parts[1] not in ("linear", "quadratic", "cubic"):
        raise PWError(f"type {pd['type']!r} not specified")
    typ = parts[1]
    keys = sorted(k for k in pd if isinstance(k, int) and not isinstance(k, bool))
    if keys != list(range(len(keys))) or not keys:
        raise PWError("piece keys do not start with 0 or are not consecutive")
    n = len(keys)
    for i in keys:
        if not isinstance(pd[i], dict):
            raise PWError(f"piece {i} is not a mapping")
    if "lower_threshold" not in pd[0]:
        raise PWError("first piece needs lower_threshold")
    if "upper_threshold" not in pd[n - 1]:
        raise PWError("last piece needs upper_threshold")
    lo = [None] * n
    up = [None] * n
    lo[0] = fr(pd[0]["lower_threshold"])
    up[-1] = fr(pd[n - 1]["upper_threshold"])
    if not (lo[0] == -INF and up[-1] == INF):
        raise PWError("not defined on the entire real line")
    for i in keys[1:]:
        if "lower_threshold" in pd[i]:
            lo[i] = fr(pd[i]["lower_threshold"])
        elif "upper_threshold" in pd[i - 1]:
            lo[i] = fr(pd[i - 1]["upper_threshold"])
        else:
            raise PWError(f"piece {i}: no lower threshold and no upper threshold before")
    for i in keys[:-1]:
        if "upper_threshold" in pd[i]:
            up[i] = fr(pd[i]["upper_threshold"])
        elif "lower_threshold" in pd[i + 1]:
            up[i] = fr(pd[i + 1]["lower_threshold"])
        else:
            raise PWError(f"piece {i}: no upper threshold and no lower threshold after")
    issues = []
    for i in range(n - 1):
        if up[i] != lo[i + 1]:
            # the loader uses numpy.allclose here
            a, b = float(up[i]), float(lo[i + 1])
            if not numpy.allclose(a, b):
                raise PWError(f"upper[{i}]={up[i]} and lower[{i + 1}]={lo[i + 1]} do not coincide")
            issues.append(f"upper[{i}]={up[i]} != lower[{i + 1}]={lo[i + 1]} (within allclose)")
    deg = {"linear": 1, "quadratic": 2, "cubic": 3}[typ]
    names = ["rate_linear", "rate_quadratic", "rate_cubic"][:deg]
    rates = [[None] * n for _ in range(deg)]
    pf = bool(pd.get("progressionsfaktor"))
    for i in keys:
        for k in range(deg):
            if typ == "linear":
                if "rate" in pd[i]:
                    v = pd[i]["rate"]
                elif "rate_linear" in pd[i]:
                    v = pd[i]["rate_linear"]
                else:
                    raise PWError(f"piece {i}: no rate")
                v = fr(v)
            else:
                nm = names[k]
                if nm in pd[i]:
                    v = fr(pd[i][nm])
                elif nm == "rate_quadratic" and pf:
                    if i + 1 not in pd or "rate_linear" not in pd[i + 1] or "rate_linear" not in pd[i]:
                        raise PWError(f"piece {i}: progressionsfaktor needs rate_linear of pieces {i} and {i + 1}")
                    width = up[i] - lo[i]
                    if width == 0:
                        raise PWError(f"piece {i}: progressionsfaktor over an empty piece")
                    if isinstance(width, float):  # unbounded piece: float division by inf gives 0.0
                        v = Fraction(0)
                        issues.append(f"piece {i}: progressionsfaktor over an unbounded piece evaluates to 0")
                    else:
                        v = (fr(pd[i + 1]["rate_linear"]) - fr(pd[i]["rate_linear"])) / (2 * width)
                else:
                    raise PWError(f"piece {i}: {nm} missing")
            rates[k][i] = v
    given = [i for i in keys if "intercept_at_lower_threshold" in pd[i]]
    if 0 not in given:
        raise PWError("first piece needs an intercept")
    if len(given) == n:
        c = [fr(pd[i]["intercept_at_lower_threshold"]) for i in keys]
        supplied_all = True
    elif len(given) == 1:
        supplied_all = False
        c = [fr(pd[0]["intercept_at_lower_threshold"])]
        for i in range(1, n):
            if lo[i - 1] == -INF:
                c.append(c[i - 1])
            else:
                dx = up[i - 1] - lo[i - 1]
                c.append(c[i - 1] + sum(rates[k][i - 1] * dx ** (k + 1) for k in range(deg)))
    else:
        raise PWError("more than one, but not all intercepts supplied")
    return PW(typ, lo, up, rates, c, issues, supplied_all)
