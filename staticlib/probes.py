"""Anchor probes: structural facts of the subject that the models rely on, re-read from the
source on every run.  Facts are constants / operators / call targets, never text positions."""
from __future__ import annotations

import ast

from .common import AnalysisError
from .srcmodel import find_function, walk_own

LOADER_STRINGS = [
    "deviation_from", "previous", "access_different_date", "vorjahr", "jahresanfang",
    "scalar", "inf", "rounding", "datum",
]


def _str_list(node, assigns):
    """node is a list/tuple/set display of str constants, or a Name bound to one"""
    if isinstance(node, ast.Name) and node.id in assigns:
        node = assigns[node.id]
    if isinstance(node, (ast.List, ast.Tuple, ast.Set)) and node.elts and all(
        isinstance(e, ast.Constant) and isinstance(e.value, str) for e in node.elts
    ):
        return [e.value for e in node.elts]
    return None


def local_assigns(fn):
    out = {}
    for n in walk_own(fn):
        if isinstance(n, ast.Assign) and len(n.targets) == 1 and isinstance(n.targets[0], ast.Name):
            out.setdefault(n.targets[0].id, n.value)
    return out


def called_functions(fn, mod):
    """module-level functions of `mod` called (by bare name) inside fn, in source order"""
    out = []
    for n in ast.walk(fn):
        if isinstance(n, ast.Call) and isinstance(n.func, ast.Name) and n.func.id in mod.functions:
            if n.func.id not in out:
                out.append(n.func.id)
    return out


class LoaderFacts:
    def __init__(self, repo):
        self.repo = repo
        pe = repo.module("policy_environment.py")
        self.pe = pe
        loader = find_function(pe, "_load_parameter_group_from_yaml", "primary anchor")
        self.loader = loader
        from .guards import scope_functions

        scope = scope_functions(pe, loader)
        la = {}
        for f_ in scope:
            la.update(local_assigns(f_))
        la.update({k: v for k, v in pe.assigns.items() if k not in la})
        consts = {n.value for f_ in scope for n in ast.walk(f_) if isinstance(n, ast.Constant) and isinstance(n.value, str)}
        consts |= {n.value for v in pe.assigns.values() for n in ast.walk(v) if isinstance(n, ast.Constant) and isinstance(n.value, str)}
        missing = [s for s in LOADER_STRINGS if s not in consts]
        if missing:
            raise AnalysisError(f"model-drift: loader no longer mentions {missing}")
        # --- keys not transferred from a dated entry
        self.not_trans_keys = None
        for n in [x for f_ in scope for x in ast.walk(f_)]:
            if isinstance(n, ast.Compare) and len(n.ops) == 1 and isinstance(n.ops[0], ast.NotIn):
                lst = _str_list(n.comparators[0], la)
                if lst and "deviation_from" in lst:
                    self.not_trans_keys = lst
        if self.not_trans_keys is None:
            raise AnalysisError("model-drift: list of non-transferred entry keys not found in the loader")
        # --- keys transferred from the parameter level
        self.add_trans_keys = None
        for n in [x for f_ in scope for x in ast.walk(f_)]:
            if isinstance(n, ast.For):
                lst = _str_list(n.iter, la)
                if lst and "type" in lst:
                    self.add_trans_keys = lst
        if self.add_trans_keys is None:
            raise AnalysisError("model-drift: parameter-level transferred keys (type, progressionsfaktor) not found")
        # --- rounding loader: the function that receives raw[...]["rounding"]
        self.rounding_loader = None
        for n in [x for f_ in scope for x in ast.walk(f_)]:
            if isinstance(n, ast.Call) and isinstance(n.func, ast.Name) and n.func.id in pe.functions:
                for a in n.args:
                    if isinstance(a, ast.Subscript) and isinstance(a.slice, ast.Constant) and a.slice.value == "rounding":
                        self.rounding_loader = pe.functions[n.func.id]
        if self.rounding_loader is None:
            # inline handling?
            raise AnalysisError("model-drift: call that loads the 'rounding' block not found in the loader")
        self.rounding_keys, self.rounding_keys_site = self._rounding_keys(self.rounding_loader)

    def _rounding_keys(self, fn):
        """which keys of a dated rounding entry reach the environment: list of names, or None = all"""
        la = dict(self.pe.assigns)
        la.update(local_assigns(fn))
        for n in ast.walk(fn):
            if isinstance(n, ast.Compare) and len(n.ops) == 1 and isinstance(n.ops[0], ast.In):
                lst = _str_list(n.comparators[0], la)
                if lst and ("base" in lst or "direction" in lst):
                    return lst, n
        # whole-entry copies
        for n in ast.walk(fn):
            if isinstance(n, ast.Assign) and isinstance(n.targets[0], ast.Subscript):
                v = n.value
                txt = ast.unparse(v)
                if isinstance(v, ast.Name) or txt.startswith(("dict(", "copy.deepcopy(", "copy.copy(", "{**")) or txt.endswith(".copy()"):
                    if isinstance(v, ast.Name) and v.id in ("out",):
                        continue
                    return None, n
        raise AnalysisError("model-drift: cannot determine which rounding keys the loader transfers")


def policy_env_setup_calls(repo):
    """the derived-parameter helpers called as `params = f(date, params)` in set_up_policy_environment"""
    pe = repo.module("policy_environment.py")
    su = find_function(pe, "set_up_policy_environment", "primary anchor")
    out = []
    for n in walk_own(su):
        if (
            isinstance(n, ast.Assign)
            and isinstance(n.value, ast.Call)
            and isinstance(n.value.func, ast.Name)
            and n.value.func.id in pe.functions
            and len(n.value.args) == 2
            and all(isinstance(a, ast.Name) for a in n.value.args)
            and isinstance(n.targets[0], ast.Name)
            and n.targets[0].id == n.value.args[1].id
        ):
            out.append(pe.functions[n.value.func.id])
        # loop form: `for step in (f, g, h): params = step(date, params)`
        if isinstance(n, ast.For) and isinstance(n.target, ast.Name) and len(n.body) == 1 and not n.orelse:
            b = n.body[0]
            seq = n.iter
            if isinstance(seq, ast.Name):
                seq = next((a.value for a in pe.tree.body if isinstance(a, ast.Assign) and isinstance(a.targets[0], ast.Name) and a.targets[0].id == seq.id), seq)
            if (
                isinstance(b, ast.Assign)
                and isinstance(b.value, ast.Call)
                and isinstance(b.value.func, ast.Name)
                and b.value.func.id == n.target.id
                and len(b.value.args) == 2
                and all(isinstance(a, ast.Name) for a in b.value.args)
                and isinstance(b.targets[0], ast.Name)
                and b.targets[0].id == b.value.args[1].id
                and isinstance(seq, (ast.Tuple, ast.List))
                and all(isinstance(e, ast.Name) and e.id in pe.functions for e in seq.elts)
            ):
                out.extend(pe.functions[e.id] for e in seq.elts)
    return out
