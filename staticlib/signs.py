"""Non-negativity prover over the static DAG of one date (sign domain of the abstract interpreter).

sign(node) in {'pos', 'nonneg', None}.  Input columns are non-negative by assumption (valid population)
unless listed as possibly negative.  Aggregates, time conversions and groupings preserve non-negativity;
a scalar rule is interpreted with its arguments' signs.  When the sign of a node is lost, `origins`
names the constructs responsible: ('difference' | 'negation' | 'negative-constant' | ..., line, module, text)
- a *difference* not under a guard ordering its operands is the positive evidence a report is based on;
an empty origin set means the loss comes from a construct outside the sign domain (inconclusive)."""
from __future__ import annotations

from .absint import lb_of, neg_of, sign_of, ub_of


class SignProver:
    def __init__(self, s, date, neg_inputs=(), assume=None):
        self.s = s
        self.date = date
        self.dag = s.dag(date)
        self.neg_inputs = set(neg_inputs)
        self.assume = assume or {}  # rule qual -> sign assumed by review
        self.memo = {}
        self.orig = {}  # node -> frozenset of origins recorded when its own analysis lost the sign
        self.note = {}  # node -> reason string for losses outside the interpreter
        self.used_assumptions = set()
        self.bounds = {}  # node -> (lb, ub) of a scalar rule result
        self.reviewed = {}  # (rule qual, difference text) -> reason; such differences are taken as non-negative
        self.used_reviewed = set()
        self.clamped = {}  # node -> 'clamped-minus' events of its rule (max(0, a - b) with b of unknown sign)

    def sign(self, name, _stack=()):
        if name in self.memo:
            return self.memo[name]
        if name in _stack or len(_stack) > 40:
            return None
        out = self._sign(name, (*_stack, name))
        self.memo[name] = out
        return out

    def _sign(self, name, st):
        node = self.dag.nodes.get(name)
        if node is None:
            if name in self.neg_inputs:
                self.note[name] = "input column that may be negative"
                return None
            return "nonneg"
        if node.kind == "grouping":
            return "nonneg"
        if node.kind == "grp_agg":
            ag = node.spec.get("aggr")
            if ag == "count":
                return "pos"
            if ag in ("any", "all"):
                return "nonneg"
            sg = self.sign(node.spec.get("source_col"), st)
            if sg is None:
                return None
            return "pos" if sg == "pos" and ag in ("sum", "max", "min", "mean") else "nonneg"
        if node.kind == "pid_agg":
            sg = self.sign(node.spec.get("source_col"), st)
            return None if sg is None else "nonneg"  # nobody may point to a person: sum = 0
        if node.kind == "time":
            return self.sign(node.args[0], st)
        if node.kind == "rule":
            r = node.rule
            if r.qual in self.assume:
                self.used_assumptions.add(r.qual)
                return self.assume[r.qual]
            if not self.s.is_scalar_rule(r):
                self.note[name] = f"{r.qual} works on whole columns (outside the sign domain)"
                return None
            self.memo[name] = None  # cut cycles
            try:
                rr = self.s.analyse_rule(r, self.date, sign_fn=lambda a: (self.sign(a, st), *self.bounds.get(a, (None, None))))
            except RecursionError:
                self.note[name] = "recursion"
                return None
            cm = [e for e in rr.interp.events if e[0] == "clamped-minus"]
            if cm:
                self.clamped[name] = cm
            sg = sign_of(rr.res)
            # the rounding wrapper keeps the sign unless it adds a negative offset
            if sg is not None and r.rounding_key:
                params, _, _ = self.s.em.params(self.date)
                grp = params.get(r.rounding_key)
                spec = grp.get("rounding", {}).get(name) if isinstance(grp, dict) else None
                off = spec.get("to_add_after_rounding", 0) if isinstance(spec, dict) else 0
                if isinstance(off, (int, float)) and off < 0:
                    self.orig[name] = frozenset({("negative-rounding-offset", r.node.lineno, r.mod.rel, f"to_add_after_rounding = {off}")})
                    return None
                if sg == "pos":
                    sg = "nonneg"  # rounding down may reach zero
            if sg is None:
                og = neg_of(rr.res)
                if og and all((r.qual, o[3]) in self.reviewed for o in og):
                    self.used_reviewed |= {(r.qual, o[3]) for o in og}
                    del self.memo[name]
                    return "nonneg"
                self.orig[name] = frozenset(o for o in og if (r.qual, o[3]) not in self.reviewed)
                del self.memo[name]
            else:
                self.bounds[name] = (lb_of(rr.res), ub_of(rr.res))
            return sg
        return None

    def blame(self, name):
        """the nodes at which non-negativity is lost on the way to `name`:
        list of (node, rule qual | None, origins, note)"""
        out, seen = [], set()

        def walk(n, via=None):
            if (n, via and via.qual) in seen:
                return
            seen.add((n, via and via.qual))
            if self.sign(n) is not None:
                return
            node = self.dag.nodes.get(n)
            if node is None:
                if n in self.neg_inputs and via is not None:
                    # positive evidence: a possibly negative input enters `via` and is not clamped afterwards
                    out.append((n, via.qual, frozenset({("possibly negative input", via.node.lineno, via.mod.rel, n)}), self.note.get(n, "")))
                else:
                    out.append((n, None, frozenset(), self.note.get(n, "")))
                return
            if node.kind in ("grp_agg", "pid_agg"):
                walk(node.spec.get("source_col"), via)
                return
            if node.kind == "time":
                walk(node.args[0], via)
                return
            if node.kind != "rule":
                out.append((n, None, frozenset(), "unknown node kind"))
                return
            r = node.rule
            args = [a for a in r.argnames if not a.endswith("_params")]
            lost = [a for a in args if self.sign(a) is None]
            own = self.orig.get(n, frozenset())
            if own or not lost or n in self.note:
                out.append((n, r.qual, own, self.note.get(n, "")))
            for a in lost:
                walk(a, r)

        walk(name)
        return out
