"""Tiny concrete evaluator for *pure module-level helpers* that build spec dictionaries
(e.g. demographic_vars._add_grouping_suffixes_to_keys).  Constant propagation inside the
analyser; anything outside the subset raises and becomes an ANALYSIS-ERROR upstream."""
from __future__ import annotations

import ast
import operator

_BIN = {ast.Add: operator.add, ast.Sub: operator.sub, ast.Mult: operator.mul, ast.Mod: operator.mod}


class _Return(Exception):
    def __init__(self, v):
        self.v = v


class Unsupported(Exception):
    pass


def fold_module_value(repo, mod, node, depth=0):
    return _Ev(repo, mod).expr(node, {}, depth)


class _Ev:
    def __init__(self, repo, mod):
        self.repo = repo
        self.mod = mod

    def name(self, n, env, depth):
        if n in env:
            return env[n]
        if n in self.mod.assigns:
            return self.expr(self.mod.assigns[n], {}, depth + 1)
        if n in self.mod.imports:
            src, orig = self.mod.imports[n]
            if src == "_gettsim.config":
                return self.repo.cfg(orig)
        if n in ("True", "False", "None"):
            return {"True": True, "False": False, "None": None}[n]
        raise Unsupported(f"name {n}")

    def expr(self, e, env, depth):
        if depth > 6:
            raise Unsupported("depth")
        if isinstance(e, ast.Constant):
            return e.value
        if isinstance(e, ast.Name):
            return self.name(e.id, env, depth)
        if isinstance(e, ast.Dict):
            out = {}
            for k, v in zip(e.keys, e.values):
                if k is None:
                    out.update(self.expr(v, env, depth))
                else:
                    out[self.expr(k, env, depth)] = self.expr(v, env, depth)
            return out
        if isinstance(e, (ast.List, ast.Tuple, ast.Set)):
            vals = [self.expr(x, env, depth) for x in e.elts]
            return vals if isinstance(e, ast.List) else tuple(vals) if isinstance(e, ast.Tuple) else set(vals)
        if isinstance(e, ast.BinOp) and type(e.op) in _BIN:
            return _BIN[type(e.op)](self.expr(e.left, env, depth), self.expr(e.right, env, depth))
        if isinstance(e, ast.JoinedStr):
            s = ""
            for v in e.values:
                if isinstance(v, ast.Constant):
                    s += v.value
                elif isinstance(v, ast.FormattedValue) and v.format_spec is None and v.conversion == -1:
                    s += str(self.expr(v.value, env, depth))
                else:
                    raise Unsupported("f-string")
            return s
        if isinstance(e, ast.Subscript):
            return self.expr(e.value, env, depth)[self.expr(e.slice, env, depth)]
        if isinstance(e, ast.Compare) and len(e.ops) == 1 and isinstance(e.ops[0], (ast.In, ast.NotIn, ast.Eq, ast.NotEq)):
            a, b = self.expr(e.left, env, depth), self.expr(e.comparators[0], env, depth)
            r = (a in b) if isinstance(e.ops[0], (ast.In, ast.NotIn)) else (a == b)
            return r if isinstance(e.ops[0], (ast.In, ast.Eq)) else not r
        if isinstance(e, ast.UnaryOp) and isinstance(e.op, ast.Not):
            return not self.expr(e.operand, env, depth)
        if isinstance(e, ast.BoolOp):
            vals = [self.expr(v, env, depth) for v in e.values]
            return all(vals) if isinstance(e.op, ast.And) else any(vals)
        if isinstance(e, ast.IfExp):
            return self.expr(e.body if self.expr(e.test, env, depth) else e.orelse, env, depth)
        if isinstance(e, ast.DictComp) and len(e.generators) == 1:
            g = e.generators[0]
            out = {}
            for item in self.iterate(g.iter, env, depth):
                env2 = dict(env)
                self.bind(g.target, item, env2)
                if all(self.expr(c, env2, depth) for c in g.ifs):
                    out[self.expr(e.key, env2, depth)] = self.expr(e.value, env2, depth)
            return out
        if isinstance(e, ast.Call):
            f = e.func
            if isinstance(f, ast.Attribute) and f.attr in ("items", "keys", "values", "copy") and not e.args:
                base = self.expr(f.value, env, depth)
                return list(getattr(base, f.attr)()) if f.attr != "copy" else dict(base)
            if isinstance(f, ast.Name) and f.id in ("dict", "list", "tuple", "sorted", "str") and len(e.args) <= 1:
                args = [self.expr(a, env, depth) for a in e.args]
                return {"dict": dict, "list": list, "tuple": tuple, "sorted": sorted, "str": str}[f.id](*args)
            if isinstance(f, ast.Name):
                vis = self.repo.helpers_visible_from(self.mod)
                if f.id in vis:
                    m2, fd = vis[f.id]
                    args = [self.expr(a, env, depth) for a in e.args]
                    kw = {k.arg: self.expr(k.value, env, depth) for k in e.keywords}
                    names = [a.arg for a in fd.args.args]
                    env2 = dict(zip(names, args))
                    env2.update(kw)
                    sub = _Ev(self.repo, m2)
                    try:
                        sub.block(fd.body, env2, depth + 1)
                    except _Return as r:
                        return r.v
                    return None
            raise Unsupported(f"call {ast.unparse(e)[:60]}")
        raise Unsupported(type(e).__name__)

    def iterate(self, it, env, depth):
        v = self.expr(it, env, depth)
        return list(v)

    def bind(self, t, v, env):
        if isinstance(t, ast.Name):
            env[t.id] = v
        elif isinstance(t, (ast.Tuple, ast.List)):
            vs = list(v)
            if len(vs) != len(t.elts):
                raise Unsupported("unpack")
            for a, b in zip(t.elts, vs):
                self.bind(a, b, env)
        else:
            raise Unsupported("bind target")

    def block(self, stmts, env, depth):
        for s in stmts:
            if isinstance(s, ast.Expr) and isinstance(s.value, ast.Constant):
                continue
            if isinstance(s, ast.Assign) and len(s.targets) == 1:
                t = s.targets[0]
                v = self.expr(s.value, env, depth)
                if isinstance(t, ast.Subscript):
                    self.expr(t.value, env, depth)[self.expr(t.slice, env, depth)] = v
                else:
                    self.bind(t, v, env)
            elif isinstance(s, ast.For) and not s.orelse:
                for item in self.iterate(s.iter, env, depth):
                    self.bind(s.target, item, env)
                    self.block(s.body, env, depth)
            elif isinstance(s, ast.If):
                self.block(s.body if self.expr(s.test, env, depth) else s.orelse, env, depth)
            elif isinstance(s, ast.Return):
                raise _Return(self.expr(s.value, env, depth) if s.value else None)
            else:
                raise Unsupported(f"statement {type(s).__name__}")
