"""Effects and alias engine (E): which objects may a framework function write, and are they fresh,
caller-owned (reachable from a parameter) or module-level state?

Per function a summary {mutates(param i), mutates(global g), return is-part-of / contains-parts-of
param i, returns-fresh}, propagated bottom-up over the resolved intra-package call graph to a fixed
point.  Two provenance sets per value: `prov` = objects the value may *be (a part of)*; `cont` =
objects whose parts it may *contain as elements* (a fresh dict holding caller-owned series is not
caller-owned itself, but what you subscript out of it is).  Calls the engine cannot resolve are
treated as returning fresh objects and are counted: the engine can miss an effect through foreign
code, it cannot invent one."""
from __future__ import annotations

import ast
import collections

from .common import AnalysisError
from .srcmodel import walk_own

MODS = ["interface", "functions_loader", "policy_environment", "shared", "time_conversion", "vectorization",
        "groupings", "aggregation", "aggregation_numpy", "piecewise_functions", "gettsim_typing", "config"]
MUTATORS = {"append", "extend", "insert", "pop", "popitem", "clear", "update", "setdefault", "remove", "sort",
            "reverse", "add", "discard", "difference_update", "intersection_update", "symmetric_difference_update"}
ADDERS = {"append", "extend", "insert", "update", "setdefault", "add"}
# builtins / methods whose result is a new object; SHALLOW ones keep their argument's elements
FRESH_DEEP = {"deepcopy", "str", "int", "float", "bool", "len", "repr", "format", "isinstance", "hasattr", "callable",
              "type", "range", "min", "max", "sum", "any", "all", "abs", "round", "compile", "print", "id", "hash"}
SHALLOW = {"dict", "list", "set", "tuple", "sorted", "frozenset", "zip", "enumerate", "map", "filter", "iter", "next",
           "reversed", "copy", "getattr", "vars"}
SHALLOW_METHODS = {"copy", "items", "values", "keys", "get", "pop", "setdefault", "popitem", "partial", "wraps", "reduce",
                   "getmembers", "signature", "vectorize"}
F = ("F",)


class Func:
    def __init__(self, mod, name, node, qual, cls=None):
        self.mod, self.name, self.node, self.qual, self.cls = mod, name, node, qual, cls
        a = node.args
        self.params = [x.arg for x in a.posonlyargs + a.args + a.kwonlyargs]
        if a.vararg:
            self.params.append(a.vararg.arg)
        if a.kwarg:
            self.params.append(a.kwarg.arg)
        self.mut = set()       # param indices whose object itself is (transitively) mutated
        self.mutd = set()      # param indices of which a deep part / element is mutated
        self.mutg = set()      # module-level bindings mutated
        self.ret_prov = set()  # tags
        self.ret_cont = set()
        self.sites = []        # (lineno, what, target description, tag)
        self.unknown = []
        self.decorators = [ast.unparse(d) for d in node.decorator_list]


class Effects:
    def __init__(self, repo, mods=MODS):
        self.repo = repo
        self.funcs: dict[str, Func] = {}
        self.modglobals = {}
        self.flat_globals = set()
        self.imports = {}
        self.trees = {}
        for m in mods:
            if not (repo.pkg / f"{m}.py").exists():
                raise AnalysisError(f"framework module {m}.py vanished")
            mod = repo.module(f"{m}.py")
            self.trees[m] = mod
            g = {}
            for name, v in mod.assigns.items():
                g[name] = "mutable" if isinstance(v, (ast.Dict, ast.List, ast.Set, ast.Call, ast.ListComp, ast.DictComp, ast.SetComp)) else "immutable"
                if isinstance(v, (ast.List, ast.Set)) and all(isinstance(x, ast.Constant) for x in v.elts):
                    self.flat_globals.add((m, name))  # elements are immutable constants: iterating shares nothing
            self.modglobals[m] = g
            imp = {}
            for local, (src, orig) in mod.imports.items():
                if src.startswith("_gettsim."):
                    imp[local] = (src.split(".")[-1], orig)
            self.imports[m] = imp
            self._collect(m, mod.tree.body, "")
        self.rounds = 0
        for _ in range(12):
            self.rounds += 1
            ch = False
            for f in self.funcs.values():
                ch |= self._analyse(f)
            if not ch:
                break
        else:
            raise AnalysisError("effects summaries did not reach a fixed point in 12 rounds")

    def _collect(self, m, body, prefix, cls=None):
        for n in body:
            if isinstance(n, (ast.FunctionDef, ast.AsyncFunctionDef)):
                q = f"{m}.{prefix}{n.name}"
                self.funcs[q] = Func(m, n.name, n, q, cls)
                self._collect(m, n.body, prefix + n.name + ".", cls)
            elif isinstance(n, ast.ClassDef):
                self._collect(m, n.body, prefix + n.name + ".", n.name)
            else:
                for fld in ("body", "orelse", "finalbody", "handlers"):
                    sub = getattr(n, fld, None)
                    if isinstance(sub, list):
                        self._collect(m, [x for x in sub if isinstance(x, ast.AST)], prefix, cls)

    def resolve(self, fn, name):
        q = f"{fn.qual}.{name}"
        if q in self.funcs:
            return self.funcs[q]
        parts = fn.qual.split(".")
        for i in range(len(parts) - 1, 0, -1):
            q = ".".join(parts[:i]) + "." + name
            if q in self.funcs:
                return self.funcs[q]
        if name in self.imports[fn.mod]:
            mm, nn = self.imports[fn.mod][name]
            return self.funcs.get(f"{mm}.{nn}")
        return None

    # ------------------------------------------------------------------ per function
    def _analyse(self, fn):
        env = collections.defaultdict(set)   # name -> prov tags
        cont = collections.defaultdict(set)  # name -> content tags
        bound = set(fn.params)
        for i, p in enumerate(fn.params):
            env[p].add(("P", i))
        nested = {n.name for n in ast.walk(fn.node) if isinstance(n, (ast.FunctionDef, ast.AsyncFunctionDef)) and n is not fn.node}
        outer_locals = self._outer_locals(fn)
        me = self

        def deep(e):
            p, c = pc(e)
            return p | c

        def extract(e):
            """(prov, cont) of something taken out of e (subscript, attribute, iteration)"""
            p, c = pc(e)
            out = set(c) | deepen(p)
            return (out - {F}) or {F}, deepen(out) - {F}

        def pc(e):
            """(prov, cont) of expression e"""
            if e is None:
                return {F}, set()
            if isinstance(e, ast.Name):
                if e.id in bound:
                    return set(env[e.id]) or {F}, set(cont[e.id])
                if e.id in nested:
                    return {F}, set()
                if e.id in outer_locals:
                    return {("C", e.id)}, set()
                g = me.modglobals[fn.mod]
                if e.id in g:
                    return ({("G", fn.mod + "." + e.id)} if g[e.id] == "mutable" else {F}), set()
                if e.id in me.imports[fn.mod]:
                    mm, nn = me.imports[fn.mod][e.id]
                    if me.modglobals.get(mm, {}).get(nn) == "mutable":
                        return {("G", mm + "." + nn)}, set()
                return {F}, set()
            if isinstance(e, (ast.Subscript, ast.Attribute)):
                return extract(e.value)
            if isinstance(e, ast.Starred):
                return pc(e.value)
            if isinstance(e, (ast.Dict,)):
                c = set()
                for k, v in zip(e.keys, e.values):
                    c |= deep(v)  # also for **v
                return {F}, c - {F}
            if isinstance(e, (ast.List, ast.Set, ast.Tuple)):
                c = set()
                for v in e.elts:
                    c |= deep(v)
                return {F}, c - {F}
            if isinstance(e, (ast.ListComp, ast.SetComp, ast.GeneratorExp, ast.DictComp)):
                c = set()
                for g_ in e.generators:
                    it_ = g_.iter
                    if isinstance(it_, ast.Name) and it_.id not in bound:
                        tgt = (fn.mod, it_.id) if it_.id in me.modglobals[fn.mod] else (me.imports[fn.mod].get(it_.id) or (None, None))
                        if tuple(tgt) in me.flat_globals:
                            continue
                    c |= deep(it_)
                return {F}, c - {F}
            if isinstance(e, ast.IfExp):
                p1, c1 = pc(e.body)
                p2, c2 = pc(e.orelse)
                return p1 | p2, c1 | c2
            if isinstance(e, ast.BoolOp):
                p, c = set(), set()
                for v in e.values:
                    a, b = pc(v)
                    p |= a
                    c |= b
                return p, c
            if isinstance(e, ast.NamedExpr):
                return pc(e.value)
            if isinstance(e, ast.Await):
                return pc(e.value)
            if isinstance(e, ast.Call):
                return call_pc(e)
            return {F}, set()

        def arg_of(call, callee, i):
            # positional / keyword argument bound to parameter i of callee
            pos = [a for a in call.args]
            offset = 0
            if i - offset < len(pos) and not any(isinstance(a, ast.Starred) for a in pos[: i + 1]):
                return pos[i - offset]
            for kw in call.keywords:
                if kw.arg == callee.params[i]:
                    return kw.value
            return None

        def call_pc(e):
            f = e.func
            if isinstance(f, ast.Name):
                if f.id in ("deepcopy",) or f.id in FRESH_DEEP:
                    return {F}, set()
                if f.id in SHALLOW:
                    c = set()
                    for a in e.args:
                        c |= deep(a)
                    return {F}, c - {F}
                if f.id == "reduce" and len(e.args) == 3:
                    return extract(e.args[2])  # functools.reduce(operator.getitem, keys, obj): derived from obj
                callee = me.resolve(fn, f.id)
                if callee is not None:
                    return subst(e, callee)
                if f.id in env:
                    fn.unknown.append(f"call of local {f.id}")
                    c = set()
                    for a in e.args:
                        c |= deep(a)
                    return {F}, c - {F}
                fn.unknown.append(ast.unparse(e)[:50])
                return {F}, set()
            if isinstance(f, ast.Attribute):
                if f.attr == "deepcopy":
                    return {F}, set()
                if f.attr in SHALLOW_METHODS:
                    d = deep(f.value)
                    for a in e.args:
                        d |= deep(a)
                    for kw in e.keywords:
                        d |= deep(kw.value)
                    if f.attr in ("get", "pop", "setdefault", "popitem"):
                        p1, c1 = extract(f.value)  # an element of the receiver (or the default)
                        for a in e.args[1:]:
                            p2, c2 = pc(a)
                            p1 |= p2
                            c1 |= c2
                        return p1, c1
                    return {F}, d - {F}
                fn.unknown.append(ast.unparse(e)[:50])
                return {F}, set()
            if isinstance(f, ast.Call) and e.args and f.args and ((isinstance(f.func, ast.Attribute) and f.func.attr in ("wraps", "update_wrapper")) or (isinstance(f.func, ast.Name) and f.func.id == "wraps")):
                # functools.wraps(wrapped)(wrapper) returns `wrapper` itself after a *shallow* copy of wrapped.__dict__:
                # mutable attributes (e.g. the __info__ dict) are then shared between the two functions
                p, c = pc(e.args[0])
                wp, wc = pc(f.args[0])
                return p, (c | deepen(wp) | wc) - {F}
            return {F}, set()

        def subst(call, callee):
            p, c = set(), set()
            for src, dst in ((callee.ret_prov, p), (callee.ret_cont, c)):
                for t in src:
                    if t[0] in ("P", "D"):
                        a = arg_of(call, callee, t[1])
                        if a is None:
                            continue
                        ap, ac = pc(a)
                        if t[0] == "P":
                            dst |= ap
                        else:
                            dst |= deepen(ap) | ac
                    elif t != F:
                        dst.add(t)
            return ((p - {F}) or {F}), c - {F}

        def bind(t, p, c):
            if isinstance(t, ast.Name):
                bound.add(t.id)
                env[t.id] |= p
                cont[t.id] |= c
            elif isinstance(t, (ast.Tuple, ast.List)):
                for x in t.elts:
                    bind(x, (c | deepen(p)) or {F}, deepen(c | p) - {F})  # unpacking takes elements
            elif isinstance(t, ast.Starred):
                bind(t.value, p, c)

        mut, mutd, mutg, sites = set(), set(), set(), []
        rets_p, rets_c = set(), set()

        def site(entry):
            if entry not in sites:
                sites.append(entry)

        def mutate_tags(tags, n, what):
            for t in tags:
                if t[0] == "P":
                    mut.add(t[1])
                    site((n.lineno, what, "param " + fn.params[t[1]], t))
                elif t[0] == "D":
                    mutd.add(t[1])
                    site((n.lineno, what, "part of param " + fn.params[t[1]], t))
                elif t[0] == "G":
                    mutg.add(t[1])
                    site((n.lineno, what, "global " + t[1], t))
                elif t[0] == "C":
                    site((n.lineno, what, "closure " + t[1], t))

        def mutate(base, n, what):
            mutate_tags(pc(base)[0], n, what)

        def assign(t, p, c, n, strong=True):
            if isinstance(t, ast.Name):
                bound.add(t.id)
                if strong:
                    env[t.id] = set(p)
                    cont[t.id] = set(c)
                else:
                    env[t.id] |= p
                    cont[t.id] |= c
            elif isinstance(t, (ast.Tuple, ast.List)):
                for x in t.elts:
                    assign(x, (c | deepen(p)) or {F}, deepen(c | p) - {F}, n, strong)
            elif isinstance(t, ast.Starred):
                assign(t.value, p, c, n, strong)
            elif isinstance(t, (ast.Subscript, ast.Attribute)):
                mutate(t.value, n, "store " + ast.unparse(t)[:50])
                b_ = _base_name(t)
                if isinstance(b_, str) and b_ in bound:
                    cont[b_] |= (p | c) - {F}

        def effects_of(expr, n):
            """mutation sites inside an expression (calls), plus bindings made by comprehensions / walrus"""
            if expr is None:
                return
            stack = [expr]
            while stack:
                x = stack.pop()
                if isinstance(x, (ast.Lambda, ast.FunctionDef, ast.AsyncFunctionDef, ast.ClassDef)):
                    continue
                if isinstance(x, ast.comprehension):
                    assign(x.target, *extract(x.iter), n, strong=False)
                if isinstance(x, ast.NamedExpr):
                    assign(x.target, *pc(x.value), n)
                if isinstance(x, ast.Call):
                    f = x.func
                    if isinstance(f, ast.Attribute) and f.attr in MUTATORS:
                        mutate(f.value, x, "call ." + f.attr + "()")
                        if f.attr in ADDERS:
                            b_ = f.value.id if isinstance(f.value, ast.Name) else _base_name(f.value)
                            if isinstance(b_, str) and b_ in bound:
                                for a in x.args:
                                    cont[b_] |= deep(a) - {F}
                    elif isinstance(f, ast.Name) and f.id == "exec" and len(x.args) > 1:
                        mutate(x.args[1], x, "exec with this namespace")
                    elif isinstance(f, ast.Name) and f.id in ("setattr", "delattr") and x.args:
                        mutate(x.args[0], x, f.id)
                    elif isinstance(f, ast.Name):
                        callee = self.resolve(fn, f.id)
                        if callee is not None:
                            for i in callee.mut:
                                a = arg_of(x, callee, i)
                                if a is not None:
                                    mutate(a, x, f"via {callee.qual}({callee.params[i]})")
                            for i in callee.mutd:
                                a = arg_of(x, callee, i)
                                if a is not None:
                                    ap, ac = pc(a)
                                    mutate_tags(deepen(ap) | ac, x, f"via {callee.qual}(part of {callee.params[i]})")
                            for g_ in callee.mutg:
                                mutg.add(g_)
                                site((x.lineno, "via " + callee.qual, "global " + g_, ("G", g_)))
                stack.extend(ast.iter_child_nodes(x))

        def snapshot():
            return {k: set(v) for k, v in env.items()}, {k: set(v) for k, v in cont.items()}

        def restore(st):
            env.clear()
            cont.clear()
            for k, v in st[0].items():
                env[k] = set(v)
            for k, v in st[1].items():
                cont[k] = set(v)

        def join_into(st):
            for k, v in st[0].items():
                env[k] |= v
            for k, v in st[1].items():
                cont[k] |= v

        def exec_block(stmts):
            """returns False when the block cannot complete normally (return/raise on every path)"""
            for st in stmts:
                if not exec_stmt(st):
                    return False
            return True

        def branches(blocks):
            """run alternative blocks from the same state; join the states of those that complete"""
            start = snapshot()
            outs = []
            for blk in blocks:
                restore(start)
                if exec_block(blk):
                    outs.append(snapshot())
            if not outs:
                restore(start)
                return False
            restore(outs[0])
            for o in outs[1:]:
                join_into(o)
            return True

        def exec_stmt(st):
            if isinstance(st, (ast.FunctionDef, ast.AsyncFunctionDef, ast.ClassDef)):
                bound.add(st.name)
                env[st.name] = {F}
                return True
            if isinstance(st, ast.Assign):
                effects_of(st.value, st)
                p, c = pc(st.value)
                for t in st.targets:
                    assign(t, p, c, st)
                return True
            if isinstance(st, ast.AnnAssign):
                if st.value is not None:
                    effects_of(st.value, st)
                    assign(st.target, *pc(st.value), st)
                return True
            if isinstance(st, ast.AugAssign):
                effects_of(st.value, st)
                p, c = pc(st.value)
                if isinstance(st.target, ast.Name):
                    # x += y mutates x in place when x is a list/dict/set
                    mutate(st.target, st, "augmented assignment " + ast.unparse(st.target)) if isinstance(st.op, (ast.Add, ast.BitOr)) and (pc(st.target)[0] - {F}) and isinstance(st.value, (ast.List, ast.Dict, ast.Set, ast.ListComp)) else None
                    cont[st.target.id] |= (p | c) - {F}
                else:
                    assign(st.target, p, c, st)
                return True
            if isinstance(st, ast.Expr):
                effects_of(st.value, st)
                return True
            if isinstance(st, ast.Return):
                if st.value is not None:
                    effects_of(st.value, st)
                    p, c = pc(st.value)
                    rets_p.update(p)
                    rets_c.update(c)
                return False
            if isinstance(st, ast.Raise):
                effects_of(st.exc, st)
                return False
            if isinstance(st, ast.If):
                effects_of(st.test, st)
                return branches([st.body, st.orelse])
            if isinstance(st, (ast.For, ast.AsyncFor)):
                effects_of(st.iter, st)
                before = snapshot()
                for _ in range(2):
                    assign(st.target, *extract(st.iter), st, strong=False)
                    exec_block(st.body)
                    join_into(before)
                    before = snapshot()
                exec_block(st.orelse)
                return True
            if isinstance(st, ast.While):
                effects_of(st.test, st)
                before = snapshot()
                for _ in range(2):
                    exec_block(st.body)
                    join_into(before)
                    before = snapshot()
                exec_block(st.orelse)
                return True
            if isinstance(st, (ast.With, ast.AsyncWith)):
                for it in st.items:
                    effects_of(it.context_expr, st)
                    if it.optional_vars is not None:
                        assign(it.optional_vars, *pc(it.context_expr), st)
                return exec_block(st.body)
            if isinstance(st, ast.Try):
                start = snapshot()
                ok = exec_block(st.body)
                after_body = snapshot()
                outs = []
                if ok:
                    if exec_block(st.orelse):
                        outs.append(snapshot())
                for h in st.handlers:
                    restore(start)
                    join_into(after_body)
                    if h.name:
                        bound.add(h.name)
                        env[h.name] = {F}
                    if exec_block(h.body):
                        outs.append(snapshot())
                if outs:
                    restore(outs[0])
                    for o in outs[1:]:
                        join_into(o)
                else:
                    restore(after_body)
                fin = exec_block(st.finalbody)
                return bool(outs) and fin
            if isinstance(st, ast.Delete):
                for t in st.targets:
                    if isinstance(t, (ast.Subscript, ast.Attribute)):
                        mutate(t.value, st, "del " + ast.unparse(t)[:40])
                return True
            if isinstance(st, ast.Global):
                for nm in st.names:
                    mutg.add(fn.mod + "." + nm)
                    site((st.lineno, "global statement", "global " + fn.mod + "." + nm, ("G", fn.mod + "." + nm)))
                return True
            if isinstance(st, ast.Assert):
                effects_of(st.test, st)
                return True
            if isinstance(st, ast.Match):
                effects_of(st.subject, st)
                return branches([c.body for c in st.cases] + [[]])
            return True

        exec_block(fn.node.body)
        fn._rp, fn._rc = rets_p, rets_c
        rp = {t for t in getattr(fn, "_rp", set()) if t[0] in ("P", "D", "G") or t == F}
        rc = {t for t in getattr(fn, "_rc", set()) if t[0] in ("P", "D", "G")}
        fn._rp, fn._rc = set(), set()
        changed = (mut != fn.mut) or (mutd != fn.mutd) or (mutg != fn.mutg) or (rp != fn.ret_prov) or (rc != fn.ret_cont)
        fn.mut, fn.mutd, fn.mutg, fn.ret_prov, fn.ret_cont, fn.sites = mut, mutd, mutg, rp, rc, sites
        return changed

    def _outer_locals(self, fn):
        parts = fn.qual.split(".")
        out = set()
        for i in range(2, len(parts)):
            q = ".".join(parts[:i])
            o = self.funcs.get(q)
            if o is not None:
                out |= set(o.params)
                for n in walk_own(o.node):
                    if isinstance(n, ast.Assign):
                        for t in n.targets:
                            if isinstance(t, ast.Name):
                                out.add(t.id)
        return out

    # ------------------------------------------------------------------ queries
    def entry(self, qual):
        f = self.funcs.get(qual)
        if f is None:
            raise AnalysisError(f"entry point {qual} vanished")
        return f

    def memoised(self):
        """functions decorated with functools.cache / lru_cache (and friends)"""
        out = []
        for f in self.funcs.values():
            for d in f.decorators:
                if any(k in d for k in ("lru_cache", "functools.cache", "cache(", "cached_property", "memoize")) or d in ("cache", "functools.cache"):
                    out.append((f, d))
        return out


def deepen(tags):
    return {("D", t[1]) if t[0] == "P" else t for t in tags}


def _base_name(node):
    while isinstance(node, (ast.Subscript, ast.Attribute)):
        node = node.value
    return node.id if isinstance(node, ast.Name) else None
