"""Finite-domain predicate evaluation (O, B): exhaustive evaluation of a boolean expression over
all weak orderings of a few symbolic dates / all truth assignments of a few atoms.  This is the
evaluation of a *predicate expression* extracted from the source, not execution of the subject."""
from __future__ import annotations

import ast
import itertools


def weak_orderings(n):
    """all assignments of ranks to n variables that are distinct as weak orderings"""
    seen = set()
    for ranks in itertools.product(range(n), repeat=n):
        # canonical form: dense ranks
        order = sorted(set(ranks))
        canon = tuple(order.index(r) for r in ranks)
        if canon not in seen:
            seen.add(canon)
            yield canon


class Subst(ast.NodeTransformer):
    """replace sub-expressions by variable names according to `mapper(node) -> name | None`"""

    def __init__(self, mapper):
        self.mapper = mapper

    def visit(self, node):
        nm = self.mapper(node)
        if nm is not None:
            return ast.copy_location(ast.Name(id=nm, ctx=ast.Load()), node)
        return super().visit(node)


ALLOWED = (ast.Expression, ast.BoolOp, ast.And, ast.Or, ast.UnaryOp, ast.Not, ast.Compare, ast.Name, ast.Load,
           ast.Lt, ast.LtE, ast.Gt, ast.GtE, ast.Eq, ast.NotEq, ast.Constant, ast.IfExp, ast.Call)


def evaluate(expr, env, funcs=None):
    """evaluate a substituted boolean expression; only comparisons/bool ops/names (+ whitelisted calls)"""
    tree = ast.Expression(body=expr)
    ast.fix_missing_locations(tree)
    for n in ast.walk(tree):
        if not isinstance(n, ALLOWED):
            raise ValueError(f"construct {type(n).__name__} not allowed in a predicate expression")
        if isinstance(n, ast.Call) and not (isinstance(n.func, ast.Name) and n.func.id in (funcs or {})):
            raise ValueError(f"call {ast.unparse(n)} not allowed in a predicate expression")
        if isinstance(n, ast.Name) and n.id not in env and n.id not in (funcs or {}):
            raise ValueError(f"free name {n.id}")
    g = {"__builtins__": {}}
    g.update(funcs or {})
    return bool(eval(compile(tree, "<predicate>", "eval"), g, dict(env)))  # noqa: S307


def equivalent_on_orderings(expr, names, spec, side=None, funcs=None):
    """compare expr with spec(env) on every weak ordering of `names` satisfying side(env).
    returns (n_checked, counterexample | None)"""
    n = 0
    cex = None
    for ranks in weak_orderings(len(names)):
        env = dict(zip(names, ranks))
        if side is not None and not side(env):
            continue
        n += 1
        got = evaluate(expr, env, funcs)
        want = bool(spec(env))
        if got != want and cex is None:
            cex = (env, got, want)
    return n, cex


def truth_table(expr, atoms, funcs=None):
    out = {}
    for vals in itertools.product([False, True], repeat=len(atoms)):
        env = dict(zip(atoms, vals))
        out[vals] = evaluate(expr, env, funcs)
    return out
