"""Finite-domain predicate evaluation (O, B): exhaustive evaluation of a boolean expression over
all weak orderings of a few symbolic dates / all truth assignments of a few atoms.  This is the
evaluation of a *predicate expression* extracted from the source, not execution of the subject."""
from __future__ import annotations

import ast
import itertools


def weak_orderings(n):
    """all assignments of ranks to n variables that are distinct as weak orderings"""
    seen = set()
    for ranks in itertools.product(range(n), repeat=n):
        # canonical form: dense ranks
        order = sorted(set(ranks))
        canon = tuple(order.index(r) for r in ranks)
        if canon not in seen:
            seen.add(canon)
            yield canon


class Subst(ast.NodeTransformer):
    """replace sub-expressions by variable names according to `mapper(node) -> name | None`"""

    def __init__(self, mapper):
        self.mapper = mapper

    def visit(self, node):
        nm = self.mapper(node)
        if nm is not None:
            return ast.copy_location(ast.Name(id=nm, ctx=ast.Load()), node)
        return super().visit(node)


ALLOWED = (ast.Expression, ast.BoolOp, ast.And, ast.Or, ast.UnaryOp, ast.Not, ast.Compare, ast.Name, ast.Load,
           ast.Lt, ast.LtE, ast.Gt, ast.GtE, ast.Eq, ast.NotEq, ast.Constant, ast.IfExp, ast.Call)


def evaluate(expr, env, funcs=None):
    """evaluate a substituted boolean expression; only comparisons/bool ops/names (+ whitelisted calls)"""
    tree = ast.Expression(body=expr)
    ast.fix_missing_locations(tree)
    for n in ast.walk(tree):
        if not isinstance(n, ALLOWED):
            raise ValueError(f"construct {type(n).__name__} not allowed in a predicate expression")
        if isinstance(n, ast.Call) and not (isinstance(n.func, ast.Name) and n.func.id in (funcs or {})):
            raise ValueError(f"call {ast.unparse(n)} not allowed in a predicate expression")
        if isinstance(n, ast.Name) and n.id not in env and n.id not in (funcs or {}):
            raise ValueError(f"free name {n.id}")
    g = {"__builtins__": {}}
    g.update(funcs or {})
    return bool(eval(compile(tree, "<predicate>", "eval"), g, dict(env)))  # noqa: S307


def equivalent_on_orderings(expr, names, spec, side=None, funcs=None):
    """compare expr with spec(env) on every weak ordering of `names` satisfying side(env).
    returns (n_checked, counterexample | None)"""
    n = 0
    cex = None
    for ranks in weak_orderings(len(names)):
        env = dict(zip(names, ranks))
        if side is not None and not side(env):
            continue
        n += 1
        got = evaluate(expr, env, funcs)
        want = bool(spec(env))
        if got != want and cex is None:
            cex = (env, got, want)
    return n, cex


def truth_table(expr, atoms, funcs=None):
    out = {}
    for vals in itertools.product([False, True], repeat=len(atoms)):
        env = dict(zip(atoms, vals))
        out[vals] = evaluate(expr, env, funcs)
    return out


class NotExpressible(ValueError):
    pass


def function_as_expression(fn, consts=None):
    """the return value of a small straight-line / if-else function as ONE expression over its arguments:
    locals are substituted, `if c: A else: B` becomes a conditional expression.  Raises NotExpressible for
    loops, try, augmented subscripts etc."""

    def subst(e, env):
        class S(ast.NodeTransformer):
            def visit_Name(self, n):
                if isinstance(n.ctx, ast.Load) and n.id in env:
                    return ast.parse(ast.unparse(env[n.id]), mode="eval").body
                return n

        return S().visit(ast.parse(ast.unparse(e), mode="eval").body)

    def block(stmts, env, budget=[64]):
        for i, s in enumerate(stmts):
            if isinstance(s, ast.Expr) and isinstance(s.value, ast.Constant):
                continue
            if isinstance(s, ast.Pass):
                continue
            if isinstance(s, ast.Assign) and len(s.targets) == 1 and isinstance(s.targets[0], ast.Name):
                env = {**env, s.targets[0].id: subst(s.value, env)}
                continue
            if isinstance(s, ast.AnnAssign) and isinstance(s.target, ast.Name) and s.value is not None:
                env = {**env, s.target.id: subst(s.value, env)}
                continue
            if isinstance(s, ast.AugAssign) and isinstance(s.target, ast.Name):
                cur = env.get(s.target.id, ast.Name(id=s.target.id, ctx=ast.Load()))
                env = {**env, s.target.id: ast.BinOp(left=cur, op=s.op, right=subst(s.value, env))}
                continue
            if isinstance(s, ast.Return):
                if s.value is None:
                    raise NotExpressible("bare return")
                return subst(s.value, env)
            if isinstance(s, ast.For) and not s.orelse and not any(isinstance(x, (ast.Break, ast.Continue)) for x in ast.walk(s)):
                # a loop over a literal table (given directly or as a module-level constant) is unrolled
                seq = s.iter
                if isinstance(seq, ast.Name) and consts and seq.id in consts and seq.id not in env:
                    seq = consts[seq.id]
                if isinstance(seq, (ast.Tuple, ast.List)) and len(seq.elts) <= 16:
                    unrolled = []
                    for el in seq.elts:
                        if isinstance(s.target, ast.Name):
                            unrolled.append(ast.Assign(targets=[ast.Name(id=s.target.id, ctx=ast.Store())], value=el))
                        elif isinstance(s.target, ast.Tuple) and isinstance(el, (ast.Tuple, ast.List)) and len(el.elts) == len(s.target.elts) and all(isinstance(t, ast.Name) for t in s.target.elts):
                            unrolled.extend(ast.Assign(targets=[ast.Name(id=t.id, ctx=ast.Store())], value=v) for t, v in zip(s.target.elts, el.elts))
                        else:
                            raise NotExpressible("loop target")
                        unrolled.extend(s.body)
                    return block([*unrolled, *stmts[i + 1:]], env)
            if isinstance(s, ast.If):
                budget[0] -= 1
                if budget[0] < 0:
                    raise NotExpressible("too many branches")
                rest = stmts[i + 1:]
                return ast.IfExp(test=subst(s.test, env), body=block([*s.body, *rest], env), orelse=block([*s.orelse, *rest], env))
            raise NotExpressible(f"statement {type(s).__name__}")
        raise NotExpressible("falls off the end")

    e = block(fn.body, {}, [64])
    return ast.fix_missing_locations(ast.parse(ast.unparse(e), mode="eval").body)
