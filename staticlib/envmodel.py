"""Environment model: parameters of all groups at a date (Y) including the date-derived
parameters written by the `_parse_*` helpers of set_up_policy_environment, plus the timeline of
equivalence intervals."""
from __future__ import annotations

import datetime
import functools

from .absint import Conc, Interp
from .probes import LoaderFacts, policy_env_setup_calls
from .yamlmodel import Missing, YamlModel


class EnvModel:
    def __init__(self, repo):
        self.repo = repo
        self.facts = LoaderFacts(repo)
        self.ym = YamlModel(repo, self.facts)
        self._cache = {}
        self.derived_fns = policy_env_setup_calls(repo)

    def params(self, date):
        """returns (params: group -> dict, problems: list[str], derived_events)"""
        if date in self._cache:
            return self._cache[date]
        params, problems = {}, []
        for g in self.ym.groups():
            try:
                params[g] = self.ym.group_env(date, g)
            except Missing as e:
                problems.append(f"{g}: {e}")
            except RecursionError:
                problems.append(f"{g}: recursion in deviation_from")
        dev_events = []
        pe = self.repo.module("policy_environment.py")
        for fd in self.derived_fns:
            it = Interp(self.repo, pe, allow_store=True)
            names = [a.arg for a in fd.args.args]
            env = {names[0]: Conc(date), names[1]: Conc(params)}
            try:
                it.run_function(fd, env)
            except Exception as e:  # noqa: BLE001
                problems.append(f"derived parameter helper {fd.name}: analyser exception {e!r}")
            for ev in it.events:
                if ev[0] in ("param-missing", "zero-div-const", "fold-exc"):
                    if ev[0] == "fold-exc" and "<=" in str(ev[3]):
                        continue  # set <= dict_keys assert
                    problems.append(f"derived parameter helper {fd.name}:{ev[1]}: {ev[0]} {ev[3]} {ev[4] if len(ev) > 5 else ''}")
                if ev[0] == "param-store":
                    dev_events.append((fd.name, ev[3]))
        self._cache[date] = (params, problems, dev_events)
        return self._cache[date]

    # ------------------------------------------------------------------ timeline
    @functools.cached_property
    def last_entry_date(self):
        return max(self.ym.all_entry_dates)

    def change_dates(self):
        ds = set(self.ym.all_entry_dates)
        for r in self.repo.rules:
            if r.start is None:
                continue
            if r.start.year > 1:
                ds.add(r.start)
            if r.end.year < 9999:
                ds.add(r.end + datetime.timedelta(days=1))
        ds |= self.framework_dates()
        for d in list(ds):
            try:
                ds.add(d.replace(year=d.year + 1))
            except ValueError:
                ds.add(d.replace(year=d.year + 1, day=28))
                ds.add(datetime.date(d.year + 1, 3, 1))
        lo = min(d.year for d in ds)
        hi = max(d.year for d in ds)
        ds |= {datetime.date(y, 1, 1) for y in range(max(lo, 1900), hi + 2)}
        # leap days look one day earlier for `vorjahr`
        return sorted(ds)

    def framework_dates(self):
        """date literals hidden in the set-up code (datetime.date(y, m, d) / date(y, m, d) with
        integer literals): they and the following day are change dates too"""
        import ast

        out = set()
        pe = self.repo.module("policy_environment.py")
        for n in ast.walk(pe.tree):
            if isinstance(n, ast.Call) and ast.unparse(n.func) in ("datetime.date", "date", "datetime.datetime"):
                vals = [a.value for a in n.args if isinstance(a, ast.Constant) and isinstance(a.value, int)]
                kw = {k.arg: k.value.value for k in n.keywords if isinstance(k.value, ast.Constant)}
                try:
                    d = datetime.date(*vals[:3], **{k: v for k, v in kw.items() if k in ("year", "month", "day")})
                except Exception:  # noqa: BLE001
                    continue
                out |= {d, d + datetime.timedelta(days=1)}
        return out

    def intervals(self, start, end=None):
        """[(first_day, last_day)] of equivalence intervals intersecting [start, end]"""
        end = end or self.last_entry_date
        cds = [d for d in self.change_dates() if start < d <= end]
        firsts = [start, *cds]
        out = []
        for i, f in enumerate(firsts):
            last = (firsts[i + 1] - datetime.timedelta(days=1)) if i + 1 < len(firsts) else end
            out.append((f, last))
        return out
