from __future__ import annotations

import argparse
import importlib
import json
import os
import sys

from .common import run_check

LEVELS = {"C13": "proof", "C18": "proof"}


def main():
    if len(sys.argv) > 1 and sys.argv[1] == "selftest":
        from selftest.run import main as st

        sys.exit(st(sys.argv[2:]))
    ap = argparse.ArgumentParser()
    ap.add_argument("prop")
    ap.add_argument("--tier", default=os.environ.get("VERIF_TIER") or "quick", choices=["quick", "thorough"])
    ap.add_argument("--root", default=os.environ.get("VERIF_ROOT", "/repo"))
    ap.add_argument("--replay", default=None)
    a = ap.parse_args()
    if a.prop == "selftest":
        from selftest.run import main as st

        sys.exit(st(sys.argv[2:]))
    if a.replay:
        rp = json.load(open(a.replay))
        print(f"replaying finding {rp['rule']} {rp['key']} at {rp['where']}:")
        print("  ", rp["message"])
        print("   rule:", rp.get("rule_text", ""))
        os.environ["VERIF_ONLY_RULE"] = rp["rule"]
    try:
        mod = importlib.import_module(f"rules.{a.prop.lower()}")
    except ModuleNotFoundError:
        print(f"ANALYSIS-ERROR property={a.prop}: no check module")
        sys.exit(2)
    except Exception as e:  # noqa: BLE001 - a broken checker is an analysis error, never a verdict
        print(f"ANALYSIS-ERROR property={a.prop}: the check module cannot be loaded ({type(e).__name__}: {e})")
        sys.exit(2)
    sys.exit(run_check(a.prop, mod.check, a.tier, a.root, LEVELS.get(a.prop, "other")))


if __name__ == "__main__":
    main()
