"""Exact rational folding (Q): arithmetic expression trees over one symbolic variable and
module-level numeric constants are folded with fractions.Fraction into coefficient * value^k."""
from __future__ import annotations

import ast
from fractions import Fraction


class NotFoldable(Exception):
    pass


class Mono:
    __slots__ = ("c", "k")

    def __init__(self, c, k=0):
        self.c = Fraction(c)
        self.k = k

    def __repr__(self):
        return f"{self.c}*v^{self.k}"


def num(v):
    if isinstance(v, bool):
        raise NotFoldable("bool")
    if isinstance(v, int):
        return Fraction(v)
    if isinstance(v, float):
        return Fraction(repr(v))  # the decimal literal as written in the source
    raise NotFoldable(f"constant {v!r}")


def fold(expr, var, consts, depth=0, funcs=None):
    """expr -> Mono in `var`; `consts` maps names to expression nodes (module-level assignments)"""
    if depth > 20:
        raise NotFoldable("depth")
    if isinstance(expr, ast.Constant):
        return Mono(num(expr.value))
    if isinstance(expr, ast.Name):
        if expr.id == var:
            return Mono(1, 1)
        if expr.id in consts:
            return fold(consts[expr.id], None, consts, depth + 1, funcs)
        raise NotFoldable(f"name {expr.id}")
    if isinstance(expr, ast.UnaryOp) and isinstance(expr.op, (ast.USub, ast.UAdd)):
        m = fold(expr.operand, var, consts, depth + 1, funcs)
        return Mono(-m.c if isinstance(expr.op, ast.USub) else m.c, m.k)
    if isinstance(expr, ast.BinOp):
        a = fold(expr.left, var, consts, depth + 1, funcs)
        b = fold(expr.right, var, consts, depth + 1, funcs)
        if isinstance(expr.op, ast.Mult):
            return Mono(a.c * b.c, a.k + b.k)
        if isinstance(expr.op, ast.Div):
            if b.c == 0:
                raise NotFoldable("division by zero")
            return Mono(a.c / b.c, a.k - b.k)
        if isinstance(expr.op, (ast.Add, ast.Sub)):
            if a.k != b.k:
                raise NotFoldable("sum of different powers")
            return Mono(a.c + b.c if isinstance(expr.op, ast.Add) else a.c - b.c, a.k)
        if isinstance(expr.op, ast.Pow) and b.k == 0 and b.c.denominator == 1:
            return Mono(a.c ** int(b.c), a.k * int(b.c))
        raise NotFoldable(f"operator {type(expr.op).__name__}")
    if isinstance(expr, ast.Call) and isinstance(expr.func, ast.Name) and expr.func.id == "float" and len(expr.args) == 1:
        return fold(expr.args[0], var, consts, depth + 1, funcs)
    if isinstance(expr, ast.Call) and isinstance(expr.func, ast.Name) and funcs and expr.func.id in funcs and len(expr.args) == 1 and not expr.keywords:
        # composition with another one-argument arithmetic function of the module: c2 * (c1 * v^k1)^k2
        inner = fold(expr.args[0], var, consts, depth + 1, funcs)
        outer = fold_function(funcs[expr.func.id], consts, funcs, depth + 1)
        if outer.k < 0 and inner.c == 0:
            raise NotFoldable("division by zero")
        return Mono(outer.c * inner.c ** outer.k, inner.k * outer.k)
    raise NotFoldable(type(expr).__name__)


def fold_function(fd, consts, funcs=None, depth=0):
    """a function `def f(v): [locals = ...]; return expr` -> Mono"""
    if depth > 8:
        raise NotFoldable("call depth")
    args = [a.arg for a in fd.args.args]
    if len(args) != 1:
        raise NotFoldable("not a one-argument function")
    env = dict(consts)
    for s in fd.body:
        if isinstance(s, ast.Expr) and isinstance(s.value, ast.Constant):
            continue
        if isinstance(s, ast.Assign) and len(s.targets) == 1 and isinstance(s.targets[0], ast.Name):
            env[s.targets[0].id] = _Inline(s.value, args[0])
            continue
        if isinstance(s, ast.Return) and s.value is not None:
            return _fold_inl(s.value, args[0], env, funcs, depth)
        raise NotFoldable(f"statement {type(s).__name__}")
    raise NotFoldable("no return")


class _Inline:
    def __init__(self, expr, var):
        self.expr, self.var = expr, var


def _fold_inl(expr, var, env, funcs=None, depth=0):
    plain = {k: v for k, v in env.items() if not isinstance(v, _Inline)}

    class R(ast.NodeTransformer):
        def visit_Name(self, n):
            v = env.get(n.id)
            if isinstance(v, _Inline):
                return self.visit(ast.parse(ast.unparse(v.expr), mode="eval").body)
            return n

    e2 = R().visit(ast.parse(ast.unparse(expr), mode="eval").body)
    return fold(e2, var, plain, depth, funcs)
