"""C10 - statutory rounding is applied exactly once, on the right grid (partial).

RW   key agreement: every key the rounding wrapper reads from a spec and some dated YAML rounding
     entry provides is transferred by the loader.
SV   spec validity at every date: base numeric > 0, direction in {up, down, nearest}, offset numeric.
SR   spec -> rule: wherever a spec is in force, the implementation active then is rounded with that
     group key, or passes a column through that is rounded on the same grid.
WRAP the wrapper maps up/down/nearest to ceil/floor/round of out/base times base, adds the offset
     once, and transforms the rounded value no further.
ONCE derived (time-converted / aggregated) functions never inherit the rounding key.
MISS a rule marked for rounding without a specification raises (truth table of the guard)."""
from __future__ import annotations

import ast
import datetime
import numbers

from staticlib.common import AnalysisError
from staticlib.ordersem import Subst, truth_table
from staticlib.session import get_session
from staticlib.srcmodel import find_function, walk_own

from ._atoms import enumerate_rule

DOC_KEYS = {"reference", "note"}
KEY = "params_key_for_rounding"


def check(ctx):
    s = get_session(ctx.root)
    repo = s.repo
    ctx.assumptions += ["|rounded - x| < base (floating point) is not decided", "GEP-5 rounding-spec keys: base, direction, to_add_after_rounding"]
    itf = repo.module("interface.py")
    arf = find_function(itf, "_add_rounding_to_functions", "primary anchor")
    wrap_keys, spec_var = _wrapper_reads(ctx, itf, arf)
    key_agreement(ctx, s, wrap_keys)
    spec_validity(ctx, s)
    spec_to_rule(ctx, s)
    wrapper_shape(ctx, repo, itf)
    not_twice(ctx, repo, itf, arf)
    missing_is_error(ctx, itf, arf, spec_var)


# ------------------------------------------------------------------ RW
def _wrapper_reads(ctx, itf, arf):
    """keys read from `rounding_spec = params[key]["rounding"][name]`"""
    spec_var = None
    for n in walk_own(arf):
        if isinstance(n, ast.Assign) and isinstance(n.targets[0], ast.Name) and isinstance(n.value, ast.Subscript):
            t = ast.unparse(n.value)
            if "['rounding']" in t or '["rounding"]' in t:
                spec_var = n.targets[0].id
    if spec_var is None:
        raise AnalysisError("_add_rounding_to_functions: the statement reading params[key]['rounding'][name] not found")
    keys = set()
    for n in ast.walk(arf):
        if isinstance(n, ast.Subscript) and isinstance(n.value, ast.Name) and n.value.id == spec_var and isinstance(n.slice, ast.Constant):
            keys.add(n.slice.value)
        if isinstance(n, ast.Call) and isinstance(n.func, ast.Attribute) and n.func.attr == "get" and isinstance(n.func.value, ast.Name) and n.func.value.id == spec_var and n.args and isinstance(n.args[0], ast.Constant):
            keys.add(n.args[0].value)
    if not {"base", "direction"} <= keys:
        raise AnalysisError(f"_add_rounding_to_functions reads {sorted(keys)} from the spec; expected at least base and direction")
    return keys, spec_var


def key_agreement(ctx, s, wrap_keys):
    ctx.rule("RW", "every spec key that the wrapper reads and a dated YAML rounding entry provides is among the keys the loader transfers")
    facts = s.em.facts
    transferred = facts.rounding_keys  # None = all
    ym = s.em.ym
    for g in ym.groups():
        r = ym.raw(g).get("rounding")
        if not isinstance(r, dict):
            continue
        for name, spec in r.items():
            if not isinstance(spec, dict):
                continue
            for d, entry in spec.items():
                if not isinstance(d, datetime.date) or not isinstance(entry, dict):
                    continue
                for k in entry:
                    if k in DOC_KEYS:
                        continue
                    if k not in wrap_keys:
                        ctx.info(f"{g}.rounding.{name}@{d}: key {k!r} is read by nobody")
                        continue
                    ok = transferred is None or k in transferred
                    ctx.ob("RW", ok=ok, distinct=(g, name, str(d), k))
                    if not ok:
                        ctx.violation("RW", f"{g}.rounding.{name}|{k}", f"src/_gettsim/parameters/{g}.yaml rounding.{name}",
                                      f"{g}.rounding.{name} provides `{k}` (first at {d}: {entry[k]!r}) and the wrapper reads it, but the loader transfers only {sorted(transferred)}: the statutory {k} is silently dropped")
    ctx.floor("RW", 50)


# ------------------------------------------------------------------ SV
def spec_validity(ctx, s):
    ctx.rule("SV", "every dated rounding entry has a numeric base > 0, a direction in {up, down, nearest} and (if present) a numeric offset")
    ym = s.em.ym
    for g in ym.groups():
        r = ym.raw(g).get("rounding")
        if not isinstance(r, dict):
            continue
        for name, spec in r.items():
            for d, e in (spec.items() if isinstance(spec, dict) else []):
                if not isinstance(d, datetime.date) or not isinstance(e, dict):
                    continue
                probs = []
                b = e.get("base")
                if type(b) not in (int, float) or not b > 0:
                    probs.append(f"base {b!r}")
                if e.get("direction") not in ("up", "down", "nearest"):
                    probs.append(f"direction {e.get('direction')!r}")
                if "to_add_after_rounding" in e and type(e["to_add_after_rounding"]) not in (int, float):
                    probs.append(f"to_add_after_rounding {e['to_add_after_rounding']!r}")
                ctx.ob("SV", ok=not probs, distinct=(g, name, str(d)))
                for pr in probs:
                    ctx.violation("SV", f"{g}.rounding.{name}@{d}|{pr}", f"src/_gettsim/parameters/{g}.yaml rounding.{name}", f"invalid rounding spec {g}.{name}@{d}: {pr}")
    ctx.floor("SV", 25)


# ------------------------------------------------------------------ SR
def spec_to_rule(ctx, s):
    ctx.rule("SR", "for every interval and every name with a rounding spec in force in group g: the implementation active then carries params_key_for_rounding == g, or every path returns a grid literal / a column rounded with the same base and direction")
    start = datetime.date(1980, 1, 1)
    iv = s.em.intervals(start)
    dates = sorted({f for f, _ in iv} | ({l for _, l in iv} if ctx.tier == "thorough" else set()))
    for d in dates:
        params, problems, _ = s.em.params(d)
        dag = s.dag(d)
        for g, gp in params.items():
            rspec = gp.get("rounding") if isinstance(gp, dict) else None
            if not isinstance(rspec, dict):
                continue
            for name, spec in rspec.items():
                node = dag.nodes.get(name)
                if node is None:
                    ctx.ob("SR", ok=True, distinct=(g, name, "inactive"))
                    continue  # no implementation at this date: nothing to round
                if node.kind != "rule":
                    ctx.ob("SR", ok=False, distinct=(g, name, node.kind))
                    ctx.violation("SR", f"{g}|{name}|{node.kind}", f"spec {g}.rounding.{name}", f"at {d} {name} has a rounding spec in {g} but is a {node.kind} node, which is never rounded")
                    continue
                r = node.rule
                if r.rounding_key == g:
                    ctx.ob("SR", ok=True, distinct=(g, name, r.qual))
                    continue
                # pass-through?
                why = _pass_through(s, dag, d, r, params, spec)
                ok = why is None
                ctx.ob("SR", ok=ok, distinct=(g, name, r.qual))
                if not ok:
                    ctx.violation("SR", f"{r.qual}|{g}|{name}", r.where,
                                  f"at {d} a rounding spec for {name} is in force in {g} ({spec}), but the active implementation {r.name} "
                                  + (f"is rounded with key {r.rounding_key!r}" if r.rounding_key else "carries no params_key_for_rounding") + f" and is no pass-through ({why})")
                else:
                    ctx.info(f"{r.qual}: pass-through of a column rounded on the same grid ({name}@{d})")
    ctx.extra_cov["SR_dates"] = len(dates)
    ctx.floor("SR", 3000)


def _pass_through(s, dag, d, r, params, spec):
    """None if every return is a literal on the grid or an argument rounded with the same base/direction"""
    try:
        atoms, rows = enumerate_rule(s, r, d)
    except AnalysisError as e:
        return str(e)
    for asg, cls, vals, _ in rows:
        for c, v in zip(cls, vals):
            if c == "Zero":
                continue
            if c.startswith("Const("):
                try:
                    x = float(v.v)
                    q = x / spec["base"]
                    if abs(q - round(q)) < 1e-9:
                        continue
                except Exception:  # noqa: BLE001
                    pass
                return f"returns the off-grid constant {c}"
            if c.startswith("Sym("):
                a = c[4:-1]
                src = dag.nodes.get(a)
                if src is not None and src.kind == "rule" and src.rule.rounding_key:
                    sp2 = params.get(src.rule.rounding_key, {}).get("rounding", {}).get(a)
                    if sp2 and sp2.get("base") == spec.get("base") and sp2.get("direction") == spec.get("direction"):
                        continue
                return f"returns {a}, which is not rounded with base {spec.get('base')} / {spec.get('direction')}"
            return "returns a computed value"
    return None


# ------------------------------------------------------------------ WRAP
def wrapper_shape(ctx, repo, itf):
    ctx.rule("WRAP", "the rounding wrapper computes base*ceil(out/base) for up, base*floor(out/base) for down, base*round(out/base) for nearest, adds the offset exactly once and returns that value untransformed")
    fn = find_function(itf, "_add_rounding_to_one_function", "primary anchor")
    params = [a.arg for a in fn.args.args]
    if len(params) < 3:
        raise AnalysisError("_add_rounding_to_one_function signature changed")
    base, direction, offset = params[:3]
    wrappers = [n for n in ast.walk(fn) if isinstance(n, ast.FunctionDef) and any(isinstance(x, ast.Return) and x.value is not None for x in walk_own(n)) and any(isinstance(c, ast.Call) and isinstance(c.func, ast.Name) and c.func.id == "func" for c in ast.walk(n)) and not any(isinstance(m, ast.FunctionDef) for m in n.body)]
    if len(wrappers) != 1:
        raise AnalysisError("rounding wrapper (innermost function calling func) not recognised")
    w = wrappers[0]
    outvar = None
    for n in walk_own(w):
        if isinstance(n, ast.Assign) and isinstance(n.value, ast.Call) and isinstance(n.value.func, ast.Name) and n.value.func.id == "func":
            outvar = n.targets[0].id
    rets = [n for n in walk_own(w) if isinstance(n, ast.Return)]
    if outvar is None or len(rets) != 1:
        raise AnalysisError("rounding wrapper: result variable / single return not recognised")
    if not isinstance(rets[0].value, ast.Name):
        names = [x.id for x in ast.walk(rets[0].value) if isinstance(x, ast.Name)]
        cands = [x for x in names if any(isinstance(n, ast.Assign) and isinstance(n.targets[0], ast.Name) and n.targets[0].id == x and _round_kind(n.value, base, outvar) for n in walk_own(w))]
        if len(cands) != 1:
            raise AnalysisError("rounding wrapper: returned expression not recognised")
        ctx.ob("WRAP", ok=False, distinct="return")
        ctx.violation("WRAP", f"return-transformed|{ast.unparse(rets[0].value)[:60]}", itf.loc(rets[0]), f"the wrapper returns `{ast.unparse(rets[0].value)[:80]}` instead of the rounded value itself: the result is transformed after rounding and can leave the statutory grid")
        rv = cands[0]
    else:
        rv = rets[0].value.id
    want = {"up": "ceil", "down": "floor", "nearest": "round"}
    seen = {}
    other = []
    adds = 0
    for n in walk_own(w):
        tgt = None
        if isinstance(n, ast.Assign) and isinstance(n.targets[0], ast.Name) and n.targets[0].id == rv:
            tgt = n
        if isinstance(n, ast.AugAssign) and isinstance(n.target, ast.Name) and n.target.id == rv:
            if isinstance(n.op, ast.Add) and ast.unparse(n.value) == offset:
                adds += 1
            else:
                other.append(n)
            continue
        if tgt is None:
            continue
        kind = _round_kind(tgt.value, base, outvar)
        # which direction literal guards this assignment?
        lit = None
        for m in walk_own(w):
            if isinstance(m, ast.If) and tgt in m.body:
                t = m.test
                if isinstance(t, ast.Compare) and len(t.ops) == 1 and isinstance(t.ops[0], ast.Eq):
                    sides = [t.left, t.comparators[0]]
                    names = [x.id for x in sides if isinstance(x, ast.Name)]
                    consts = [x.value for x in sides if isinstance(x, ast.Constant)]
                    if names == [direction] and len(consts) == 1:
                        lit = consts[0]
        if kind is None or lit is None:
            other.append(tgt)
        else:
            seen[lit] = (kind, tgt)
    for lit, fnname in want.items():
        ok = lit in seen and seen[lit][0] == fnname
        ctx.ob("WRAP", ok=ok, distinct=lit)
        if not ok:
            got = seen.get(lit)
            ctx.violation("WRAP", f"direction|{lit}|{got[0] if got else 'absent'}", itf.loc(got[1]) if got else itf.loc(w), f"direction {lit!r} is implemented with {got[0] if got else 'nothing'} instead of {fnname} of out/base times base")
    ok = adds == 1
    ctx.ob("WRAP", ok=ok, distinct="offset")
    if not ok:
        ctx.violation("WRAP", f"offset-added-{adds}-times", itf.loc(w), f"the offset is added {adds} times to the rounded value (must be exactly once)")
    ctx.ob("WRAP", ok=not other, distinct="no-further-transformation")
    for n in other:
        ctx.violation("WRAP", f"extra|{ast.unparse(n)[:70]}", itf.loc(n), f"`{ast.unparse(n)[:90]}` transforms the rounded value again (or rounds in an unrecognised way): the result can leave the statutory grid")


def _round_kind(e, base, outvar):
    """base * F(out / base)  ->  'ceil' | 'floor' | 'round' | None"""
    if not (isinstance(e, ast.BinOp) and isinstance(e.op, ast.Mult)):
        return None
    a, b = e.left, e.right
    if ast.unparse(b) == base:
        a, b = b, a
    if ast.unparse(a) != base:
        return None
    q = f"{outvar} / {base}"
    if isinstance(b, ast.Call):
        if isinstance(b.func, ast.Attribute) and b.func.attr in ("ceil", "floor", "round", "rint") and len(b.args) == 1 and ast.unparse(b.args[0]) == q:
            return {"rint": "round"}.get(b.func.attr, b.func.attr)
        if isinstance(b.func, ast.Attribute) and b.func.attr == "round" and not b.args and ast.unparse(b.func.value) in (q, f"({q})"):
            return "round"
    return None


# ------------------------------------------------------------------ ONCE
def not_twice(ctx, repo, itf, arf):
    ctx.rule("ONCE", "the metadata given to a time-converted function cannot contain the rounding key; aggregate factories attach no metadata; the key string is the same at the decorator, the remover and the tester; each name is wrapped at most once")
    sh = repo.module("shared.py")
    pi = find_function(sh, "policy_info", "primary anchor")
    dec_keys = {n.slice.value for n in ast.walk(pi) if isinstance(n, ast.Subscript) and isinstance(n.slice, ast.Constant) and isinstance(n.slice.value, str) and "__info__" in ast.unparse(n.value) and isinstance(n.ctx, ast.Store)}
    tester_keys = {c.left.value for c in ast.walk(arf) if isinstance(c, ast.Compare) and isinstance(c.left, ast.Constant) and isinstance(c.left.value, str) and any(isinstance(o, ast.In) for o in c.ops) and "__info__" in ast.unparse(c.comparators[0])}
    ok = KEY in dec_keys and tester_keys == {KEY}
    ctx.ob("ONCE", ok=ok, distinct="key-decorator-tester")
    if not ok:
        ctx.violation("ONCE", f"key-mismatch|{sorted(dec_keys & {KEY})}|{sorted(tester_keys)}", itf.loc(arf), f"the decorator stores {sorted(k for k in dec_keys if 'round' in k)} but the wrapper tests for {sorted(tester_keys)}: rounding would never (or always) apply")
    tc = repo.module("time_conversion.py")
    fac = find_function(tc, "_create_function_for_time_unit", "primary anchor")
    info_param = fac.args.args[1].arg if len(fac.args.args) > 1 else None
    stores = [n for n in ast.walk(fac) if isinstance(n, ast.Assign) and any(isinstance(t, ast.Attribute) and t.attr == "__info__" for t in n.targets)]
    if not stores:
        ctx.ob("ONCE", ok=True, distinct="remover")  # not copying metadata at all is fine
    for st in stores:
        v = st.value
        ok = False
        why = f"`{ast.unparse(v)[:80]}`"
        if isinstance(v, ast.DictComp) and v.generators and v.generators[0].ifs:
            # {k: v for k, v in info.items() if k != KEY}
            gen = v.generators[0]
            kv = gen.target.elts[0].id if isinstance(gen.target, ast.Tuple) and isinstance(gen.target.elts[0], ast.Name) else None
            for c in gen.ifs:
                t = ast.unparse(c)
                if kv and t in (f"{kv} != '{KEY}'", f"'{KEY}' != {kv}", f"{kv} not in ('{KEY}',)", f"{kv} not in ['{KEY}']", f"not {kv} == '{KEY}'"):
                    ok = True
            if not ok:
                why += " does not filter out the key " + KEY
        elif isinstance(v, ast.Name):
            # a local copy from which the key was popped / deleted
            nm = v.id
            removed = any(
                (isinstance(n, ast.Call) and isinstance(n.func, ast.Attribute) and n.func.attr == "pop" and isinstance(n.func.value, ast.Name) and n.func.value.id == nm and n.args and isinstance(n.args[0], ast.Constant) and n.args[0].value == KEY)
                or (isinstance(n, ast.Delete) and any(ast.unparse(t) in (f"{nm}['{KEY}']",) for t in n.targets))
                for n in ast.walk(fac)
            )
            copied = any(isinstance(n, ast.Assign) and isinstance(n.targets[0], ast.Name) and n.targets[0].id == nm and isinstance(n.value, ast.Call) and ast.unparse(n.value.func) in ("dict", "copy.copy", "copy.deepcopy") or (isinstance(n, ast.Assign) and isinstance(n.targets[0], ast.Name) and n.targets[0].id == nm and isinstance(n.value, (ast.Dict, ast.DictComp))) for n in ast.walk(fac))
            ok = removed and (copied or nm != info_param)
            if not ok:
                why += " is the original metadata (the key is not removed from a copy)"
        elif isinstance(v, ast.Dict) and not any(k is None for k in v.keys):
            ok = not any(isinstance(k, ast.Constant) and k.value == KEY for k in v.keys)
        ctx.ob("ONCE", ok=ok, distinct=("remover", ast.unparse(v)[:40]))
        if not ok:
            ctx.violation("ONCE", "time-conversion-inherits-rounding-key", tc.loc(st), f"the derived time-unit function gets metadata {why}: it would be rounded again with the source column's spec")
    fl = repo.module("functions_loader.py")
    for name in ("_create_one_aggregate_by_group_func", "_create_one_aggregate_by_p_id_func"):
        fd = find_function(fl, name, "primary anchor")
        bad = [n for n in ast.walk(fd) if isinstance(n, ast.Attribute) and n.attr == "__info__" and isinstance(n.ctx, ast.Store)]
        ctx.ob("ONCE", ok=not bad, distinct=name)
        for n in bad:
            ctx.violation("ONCE", f"{name}|__info__", fl.loc(n), f"{name} attaches __info__ to an aggregate: an aggregate of a rounded column could be rounded again")
    # each name wrapped at most once: one loop over the function dict, store keyed by the loop variable
    loops = [n for n in walk_own(arf) if isinstance(n, ast.For)]
    stores = [n for n in ast.walk(arf) if isinstance(n, ast.Assign) and isinstance(n.targets[0], ast.Subscript) and isinstance(n.value, ast.Call) and "_add_rounding_to_one_function" in ast.unparse(n.value)]
    ok = len(loops) == 1 and len(stores) == 1 and isinstance(loops[0].target, ast.Tuple) and ast.unparse(stores[0].targets[0].slice) == ast.unparse(loops[0].target.elts[0])
    ctx.ob("ONCE", ok=ok, distinct="single-wrap")
    if not ok:
        ctx.violation("ONCE", "wrapped-more-than-once", itf.loc(arf), "the rounding wrapper is not applied in a single loop keyed by the function name: a function could be wrapped twice")
    # the wrapped object is the loop's own function
    if stores:
        call = stores[0].value
        inner = call.args[0] if call.args else None
        ok = isinstance(inner, ast.Name) and isinstance(loops[0].target, ast.Tuple) and inner.id == loops[0].target.elts[1].id
        ctx.ob("ONCE", ok=ok, distinct="wraps-own-function")
        if not ok:
            ctx.violation("ONCE", "wraps-other-function", itf.loc(stores[0]), f"`{ast.unparse(stores[0])[:90]}` does not wrap the loop's own function")


# ------------------------------------------------------------------ MISS
def missing_is_error(ctx, itf, arf, spec_var):
    ctx.rule("MISS", "the spec is read only when params_key in params, 'rounding' in params[key] and name in params[key]['rounding'] all hold; the other seven combinations raise")
    guard = None
    for n in walk_own(arf):
        if isinstance(n, ast.If) and any(isinstance(x, ast.Raise) for x in n.body) and any(isinstance(c, ast.Constant) and c.value == "rounding" for c in ast.walk(n.test)):
            guard = n
            break
    if guard is None:
        ctx.ob("MISS", ok=False, distinct="guard")
        ctx.violation("MISS", "no-guard", itf.loc(arf), "no `raise` guards the look-up of the rounding spec: a rule marked for rounding without a specification would fail with an unspecific error or be silently skipped")
        return
    members = []

    def m(node):
        if isinstance(node, ast.Compare) and len(node.ops) == 1 and isinstance(node.ops[0], (ast.In, ast.NotIn)):
            k = ast.unparse(node.left) + " in " + ast.unparse(node.comparators[0])
            if k not in members:
                members.append(k)
            nm = f"M{members.index(k)}"
            if isinstance(node.ops[0], ast.NotIn):
                return None  # handled below through rewriting
            return nm
        return None

    class S2(Subst):
        def visit(self, node):
            if isinstance(node, ast.Compare) and len(node.ops) == 1 and isinstance(node.ops[0], ast.NotIn):
                pos = ast.Compare(left=node.left, ops=[ast.In()], comparators=node.comparators)
                nm = self.mapper(pos)
                return ast.UnaryOp(op=ast.Not(), operand=ast.Name(id=nm, ctx=ast.Load()))
            return super().visit(node)

    expr = S2(m).visit(ast.parse(ast.unparse(guard.test), mode="eval").body)
    atoms = [f"M{i}" for i in range(len(members))]
    try:
        tt = truth_table(expr, atoms)
    except ValueError as e:
        raise AnalysisError(f"guard of the rounding-spec look-up is not a boolean combination of membership tests: {e}") from e
    ok3 = len(members) == 3
    bad = [k for k, v in tt.items() if v != (not all(k))]
    ctx.ob("MISS", ok=ok3 and not bad, distinct="guard", n=max(len(tt), 1))
    if not ok3:
        ctx.violation("MISS", f"guard-tests|{len(members)}", itf.loc(guard), f"the guard tests {members}; expected the three memberships (key in params, 'rounding' in params[key], name in params[key]['rounding'])")
    for k in bad[:1]:
        ctx.violation("MISS", f"guard-truth|{k}", itf.loc(guard), f"with memberships {dict(zip(members, k))} the guard {'raises although the spec exists' if all(k) else 'does not raise although the spec is missing'}")
    # the read is after the guard at the same nesting level
    body = None
    for n in ast.walk(arf):
        if hasattr(n, "body") and isinstance(n.body, list) and guard in n.body:
            body = n.body
    reads = [i for i, st in enumerate(body or []) if isinstance(st, ast.Assign) and isinstance(st.targets[0], ast.Name) and st.targets[0].id == spec_var]
    ok = bool(reads) and reads[0] > body.index(guard)
    ctx.ob("MISS", ok=ok, distinct="dominance")
    if not ok:
        ctx.violation("MISS", "read-before-guard", itf.loc(guard), "the rounding spec is read before (or outside) the guard that raises when it is missing")
