"""C10 - statutory rounding is applied exactly once, on the right grid (partial).

RW   key agreement: every key the rounding wrapper reads from a spec and some dated YAML rounding
     entry provides is transferred by the loader.
SV   spec validity at every date: base numeric > 0, direction in {up, down, nearest}, offset numeric.
SR   spec -> rule: wherever a spec is in force, the implementation active then is rounded with that
     group key, or passes a column through that is rounded on the same grid.
WRAP the wrapper maps up/down/nearest to ceil/floor/round of out/base times base, adds the offset
     once, and transforms the rounded value no further.
ONCE derived (time-converted / aggregated) functions never inherit the rounding key.
MISS a rule marked for rounding without a specification raises (truth table of the guard)."""
from __future__ import annotations

import ast
import datetime
import numbers

from staticlib.common import AnalysisError
from staticlib.ordersem import Subst, truth_table
from staticlib.session import get_session
from staticlib.srcmodel import find_function, walk_own

from ._atoms import enumerate_rule

DOC_KEYS = {"reference", "note"}
KEY = "params_key_for_rounding"


def check(ctx):
    s = get_session(ctx.root)
    repo = s.repo
    ctx.assumptions += ["|rounded - x| < base (floating point) is not decided", "GEP-5 rounding-spec keys: base, direction, to_add_after_rounding"]
    itf = repo.module("interface.py")
    arf = find_function(itf, "_add_rounding_to_functions", "primary anchor")
    wrap_keys, spec_var = _wrapper_reads(ctx, itf, arf)
    key_agreement(ctx, s, wrap_keys)
    spec_validity(ctx, s)
    spec_to_rule(ctx, s)
    wrapper_shape(ctx, repo, itf)
    not_twice(ctx, repo, itf, arf)
    missing_is_error(ctx, itf, arf, spec_var)
    spec_selection(ctx, s)
    no_rounding_inside_rules(ctx, repo)


def spec_selection(ctx, s):
    from .c07 import _selector

    ctx.rule("RSEL", "the rounding loader takes, per function, the latest dated spec on or before the policy date - and none when every spec is dated later (a missing spec must stay missing, so that it is an error)")
    _selector(ctx, s.repo.module("policy_environment.py"), s.em.facts.rounding_loader, "RSEL")


ROUNDERS = {"round", "ceil", "floor", "rint", "trunc", "around", "fix"}


def no_rounding_inside_rules(ctx, repo):
    """NR: expected count zero - a policy rule that rounds its own amount is rounded even with rounding=False
    and escapes the dated specs.  (`int(...)`, `//` and comparisons are not rounding of an amount.)"""
    ctx.rule("NR", "no policy rule (or helper in a policy module) calls round / ceil / floor / rint / trunc: rounding of amounts happens only in the wrapper that `rounding=False` switches off")
    n = 0
    fns = [(r.mod, r.node, r.qual) for r in repo.rules]
    seen = {id(r.node) for r in repo.rules}
    for m in {r.mod.rel: r.mod for r in repo.rules}.values():
        for name, fd in m.functions.items():
            if id(fd) not in seen:
                fns.append((m, fd, f"{m.rel}:{name}"))
    for m, fd, qual in fns:
        n += 1
        for c in ast.walk(fd):
            if isinstance(c, ast.Call):
                fname = ast.unparse(c.func)
                last = fname.split(".")[-1]
                if last in ROUNDERS and (fname == last and last == "round" or fname.split(".")[0] in ("np", "numpy", "math", "jnp") or (isinstance(c.func, ast.Attribute) and last == "round" and not c.args)):
                    ctx.ob("NR", ok=False, distinct=(qual, ast.unparse(c)[:60]))
                    ctx.violation("NR", f"{qual}|{ast.unparse(c)[:80]}", m.loc(c) + f" {qual.split(':')[-1]}", f"`{ast.unparse(c)[:80]}` rounds inside the rule: the amount stays rounded when the simulation is run with rounding=False and ignores the dated rounding specs")
    ctx.ob("NR", ok=True, distinct="functions scanned", n=n)
    ctx.floor("NR", 300)


# ------------------------------------------------------------------ RW
def _spec_read(itf, arf):
    """the expression `params[key]["rounding"][name]` (a Load), the function containing it, and the variable of
    _add_rounding_to_functions that holds the spec"""
    from staticlib.guards import scope_functions

    scope = scope_functions(itf, arf)
    reads = []
    for f in scope:
        for n in ast.walk(f):
            if isinstance(n, ast.Subscript) and isinstance(n.ctx, ast.Load) and isinstance(n.value, ast.Subscript) and isinstance(n.value.slice, ast.Constant) and n.value.slice.value == "rounding":
                reads.append((f, n))
    if len(reads) != 1:
        raise AnalysisError(f"the statement reading params[key]['rounding'][name] not found exactly once in _add_rounding_to_functions and its helpers ({len(reads)})")
    rf, read = reads[0]
    spec_var = None
    for n in walk_own(arf):
        if isinstance(n, ast.Assign) and isinstance(n.targets[0], ast.Name):
            if n.value is read or (isinstance(n.value, ast.Call) and isinstance(n.value.func, ast.Name) and n.value.func.id == rf.name and rf is not arf):
                spec_var = n.targets[0].id
    if spec_var is None:
        raise AnalysisError("_add_rounding_to_functions: variable holding the rounding spec not found")
    return rf, read, spec_var


def _wrapper_reads(ctx, itf, arf):
    """keys read from the rounding spec in _add_rounding_to_functions"""
    rf, read, spec_var = _spec_read(itf, arf)
    keys = set()
    for n in ast.walk(arf):
        if isinstance(n, ast.Subscript) and isinstance(n.value, ast.Name) and n.value.id == spec_var and isinstance(n.slice, ast.Constant):
            keys.add(n.slice.value)
        if isinstance(n, ast.Call) and isinstance(n.func, ast.Attribute) and n.func.attr == "get" and isinstance(n.func.value, ast.Name) and n.func.value.id == spec_var and n.args and isinstance(n.args[0], ast.Constant):
            keys.add(n.args[0].value)
    # `f(**spec)` / `f(x=spec.pop(..), **spec)`: every parameter of the module-level callee is a key read from the spec
    for n in ast.walk(arf):
        if isinstance(n, ast.Call) and any(kw.arg is None and isinstance(kw.value, ast.Name) and kw.value.id == spec_var for kw in n.keywords) and isinstance(n.func, ast.Name) and n.func.id in itf.functions:
            callee = itf.functions[n.func.id]
            keys |= {a.arg for a in callee.args.args + callee.args.kwonlyargs}
    muts = [n for n in ast.walk(arf) if isinstance(n, ast.Call) and isinstance(n.func, ast.Attribute) and n.func.attr in ("pop", "popitem", "clear", "update", "setdefault") and isinstance(n.func.value, ast.Name) and n.func.value.id == spec_var]
    muts += [n for n in ast.walk(arf) if isinstance(n, (ast.Assign, ast.AugAssign, ast.Delete)) and any(isinstance(t, ast.Subscript) and isinstance(t.value, ast.Name) and t.value.id == spec_var for t in (n.targets if isinstance(n, (ast.Assign, ast.Delete)) else [n.target]))]
    ctx.rule("RO", "setting up the rounding reads the caller's spec and never changes it (no pop / del / item assignment on params[key]['rounding'][name]): the second simulation with the same parameters rounds like the first")
    ctx.ob("RO", ok=not muts, distinct="spec")
    for n in muts:
        ctx.violation("RO", f"_add_rounding_to_functions|{ast.unparse(n)[:60]}", itf.loc(n) + " _add_rounding_to_functions", f"`{ast.unparse(n)[:80]}` changes the rounding spec inside the caller's parameters: later simulations with the same parameters lose / change the setting")
    if not {"base", "direction"} <= keys:
        raise AnalysisError(f"_add_rounding_to_functions reads {sorted(keys)} from the spec; expected at least base and direction")
    return keys, spec_var


def key_agreement(ctx, s, wrap_keys):
    ctx.rule("RW", "every spec key that the wrapper reads and a dated YAML rounding entry provides is among the keys the loader transfers")
    facts = s.em.facts
    transferred = facts.rounding_keys  # None = all
    ym = s.em.ym
    for g in ym.groups():
        r = ym.raw(g).get("rounding")
        if not isinstance(r, dict):
            continue
        for name, spec in r.items():
            if not isinstance(spec, dict):
                continue
            for d, entry in spec.items():
                if not isinstance(d, datetime.date) or not isinstance(entry, dict):
                    continue
                for k in entry:
                    if k in DOC_KEYS:
                        continue
                    if k not in wrap_keys:
                        # a key nobody reads is silently ignored: a misspelt statutory key looks exactly like this
                        ctx.ob("RW", ok=False, distinct=(g, name, str(d), k))
                        ctx.violation("RW", f"{g}.rounding.{name}|unknown key {k}", f"src/_gettsim/parameters/{g}.yaml rounding.{name}",
                                      f"{g}.rounding.{name}@{d} has the key `{k}`, which neither the loader transfers nor the wrapper reads (known: {sorted(wrap_keys)} and the documentation keys {sorted(DOC_KEYS)}): the value {entry[k]!r} is silently ignored - a misspelt key drops the statutory setting")
                        continue
                    ok = transferred is None or k in transferred
                    ctx.ob("RW", ok=ok, distinct=(g, name, str(d), k))
                    if not ok:
                        ctx.violation("RW", f"{g}.rounding.{name}|{k}", f"src/_gettsim/parameters/{g}.yaml rounding.{name}",
                                      f"{g}.rounding.{name} provides `{k}` (first at {d}: {entry[k]!r}) and the wrapper reads it, but the loader transfers only {sorted(transferred)}: the statutory {k} is silently dropped")
    ctx.floor("RW", 50)


# ------------------------------------------------------------------ SV
def spec_validity(ctx, s):
    ctx.rule("SV", "every dated rounding entry has a numeric base > 0, a direction in {up, down, nearest} and (if present) a numeric offset")
    ym = s.em.ym
    for g in ym.groups():
        r = ym.raw(g).get("rounding")
        if not isinstance(r, dict):
            continue
        for name, spec in r.items():
            for d, e in (spec.items() if isinstance(spec, dict) else []):
                if not isinstance(d, datetime.date) or not isinstance(e, dict):
                    continue
                probs = []
                b = e.get("base")
                if type(b) not in (int, float) or not b > 0:
                    probs.append(f"base {b!r}")
                if e.get("direction") not in ("up", "down", "nearest"):
                    probs.append(f"direction {e.get('direction')!r}")
                if "to_add_after_rounding" in e and type(e["to_add_after_rounding"]) not in (int, float):
                    probs.append(f"to_add_after_rounding {e['to_add_after_rounding']!r}")
                ctx.ob("SV", ok=not probs, distinct=(g, name, str(d)))
                for pr in probs:
                    ctx.violation("SV", f"{g}.rounding.{name}@{d}|{pr}", f"src/_gettsim/parameters/{g}.yaml rounding.{name}", f"invalid rounding spec {g}.{name}@{d}: {pr}")
    ctx.floor("SV", 25)


# ------------------------------------------------------------------ SR
def spec_to_rule(ctx, s):
    ctx.rule("SR", "for every interval and every name with a rounding spec in force in group g: the implementation active then carries params_key_for_rounding == g, or every path returns a grid literal / a column rounded with the same base and direction")
    start = datetime.date(1980, 1, 1)
    iv = s.em.intervals(start)
    dates = sorted({f for f, _ in iv} | ({l for _, l in iv} if ctx.tier == "thorough" else set()))
    for d in dates:
        params, problems, _ = s.em.params(d)
        dag = s.dag(d)
        for g, gp in params.items():
            rspec = gp.get("rounding") if isinstance(gp, dict) else None
            if not isinstance(rspec, dict):
                continue
            for name, spec in rspec.items():
                node = dag.nodes.get(name)
                if node is None:
                    ctx.ob("SR", ok=True, distinct=(g, name, "inactive"))
                    continue  # no implementation at this date: nothing to round
                if node.kind != "rule":
                    ctx.ob("SR", ok=False, distinct=(g, name, node.kind))
                    ctx.violation("SR", f"{g}|{name}|{node.kind}", f"spec {g}.rounding.{name}", f"at {d} {name} has a rounding spec in {g} but is a {node.kind} node, which is never rounded")
                    continue
                r = node.rule
                if r.rounding_key == g:
                    ctx.ob("SR", ok=True, distinct=(g, name, r.qual))
                    continue
                # pass-through?
                why = _pass_through(s, dag, d, r, params, spec)
                ok = why is None
                ctx.ob("SR", ok=ok, distinct=(g, name, r.qual))
                if not ok:
                    ctx.violation("SR", f"{r.qual}|{g}|{name}", r.where,
                                  f"at {d} a rounding spec for {name} is in force in {g} ({spec}), but the active implementation {r.name} "
                                  + (f"is rounded with key {r.rounding_key!r}" if r.rounding_key else "carries no params_key_for_rounding") + f" and is no pass-through ({why})")
                else:
                    ctx.info(f"{r.qual}: pass-through of a column rounded on the same grid ({name}@{d})")
    ctx.extra_cov["SR_dates"] = len(dates)
    ctx.floor("SR", 3000)


def _pass_through(s, dag, d, r, params, spec):
    """None if every return is a literal on the grid or an argument rounded with the same base/direction"""
    try:
        atoms, rows = enumerate_rule(s, r, d)
    except AnalysisError as e:
        return str(e)
    for asg, cls, vals, _ in rows:
        for c, v in zip(cls, vals):
            if c == "Zero":
                continue
            if c.startswith("Const("):
                try:
                    x = float(v.v)
                    q = x / spec["base"]
                    if abs(q - round(q)) < 1e-9:
                        continue
                except Exception:  # noqa: BLE001
                    pass
                return f"returns the off-grid constant {c}"
            if c.startswith("Sym("):
                a = c[4:-1]
                src = dag.nodes.get(a)
                if src is not None and src.kind == "rule" and src.rule.rounding_key:
                    sp2 = params.get(src.rule.rounding_key, {}).get("rounding", {}).get(a)
                    if sp2 and sp2.get("base") == spec.get("base") and sp2.get("direction") == spec.get("direction"):
                        continue
                return f"returns {a}, which is not rounded with base {spec.get('base')} / {spec.get('direction')}"
            return "returns a computed value"
    return None


# ------------------------------------------------------------------ WRAP
class _Unsupported(Exception):
    pass


def _canon(t):
    """canonical form of a term: flatten and sort + and *"""
    if t[0] in ("add", "mul"):
        ops = []
        for x in t[1]:
            x = _canon(x)
            if x[0] == t[0]:
                ops += list(x[1])
            else:
                ops.append(x)
        return (t[0], tuple(sorted(ops, key=repr)))
    if t[0] == "div":
        return ("div", _canon(t[1]), _canon(t[2]))
    if t[0] == "fn":
        return ("fn", t[1], _canon(t[2]))
    return t


def _term(e, env, cx=None):
    if isinstance(e, ast.Name):
        if e.id in env:
            return env[e.id]
        return ("opaque", e.id)
    if isinstance(e, ast.Constant) and isinstance(e.value, (int, float)):
        return ("num", e.value)
    if isinstance(e, ast.BinOp):
        a, b = _term(e.left, env, cx), _term(e.right, env, cx)
        if isinstance(e.op, ast.Add):
            return ("add", (a, b))
        if isinstance(e.op, ast.Mult):
            return ("mul", (a, b))
        if isinstance(e.op, ast.Div):
            return ("div", a, b)
        return ("opaque", ast.unparse(e)[:60])
    if isinstance(e, ast.Call):
        f = e.func
        if isinstance(f, ast.Attribute) and f.attr in ("ceil", "floor", "round", "rint", "around") and isinstance(f.value, ast.Name) and f.value.id in ("np", "numpy", "math") and len(e.args) == 1 and not e.keywords:
            return ("fn", {"rint": "round", "around": "round"}.get(f.attr, f.attr), _term(e.args[0], env, cx))
        if isinstance(f, ast.Attribute) and f.attr == "round" and not e.args and not e.keywords:
            return ("fn", "round", _term(f.value, env, cx))
        if isinstance(f, ast.Name) and cx and f.id in cx["funcs"] and f.id != "func":
            r = _call_helper(cx["funcs"][f.id], e, env, cx)
            if r is not None:
                return r
        # an unknown call applied to known terms is an opaque transformation of them
        return ("opaque", ast.unparse(e)[:80])
    return ("opaque", ast.unparse(e)[:60])


def _has_raise(t):
    if t == ("raise",):
        return True
    return isinstance(t, tuple) and any(_has_raise(x) for x in t if isinstance(x, tuple))


def _call_helper(h, call, env, cx):
    """inline a module-level helper: parameters bound to the argument terms; the parameter that receives the
    direction name plays the direction inside"""
    names = [a.arg for a in h.args.posonlyargs + h.args.args + h.args.kwonlyargs]
    bound = dict(zip(names, call.args))
    bound.update({kw.arg: kw.value for kw in call.keywords if kw.arg})
    env2 = {k: _term(v, env, cx) for k, v in bound.items()}
    dn = next((k for k, v in bound.items() if isinstance(v, ast.Name) and v.id == cx["dname"]), "\0none")
    if cx.get("depth", 0) > 4:
        raise _Unsupported("helper nesting")
    return _run_wrapper(h.body, env2, cx["direction"], dn, {**cx, "dname": dn, "depth": cx.get("depth", 0) + 1})


def _run_wrapper(stmts, env, direction, dname, cx=None):
    """symbolic execution of the wrapper body for one concrete direction; returns the returned term or None"""
    cx = cx or {"funcs": {}, "direction": direction, "dname": dname}
    for st in stmts:
        if isinstance(st, ast.Expr) and isinstance(st.value, ast.Constant):
            continue
        if isinstance(st, ast.Expr) and isinstance(st.value, ast.Call) and isinstance(st.value.func, ast.Name) and st.value.func.id in cx["funcs"]:
            # a helper called for its checks only: it may raise for this direction, it returns nothing
            r = _call_helper(cx["funcs"][st.value.func.id], st.value, env, cx)
            if r == ("raise",):
                return r
            continue
        if isinstance(st, ast.Assign) and len(st.targets) == 1 and isinstance(st.targets[0], ast.Name):
            v = st.value
            if isinstance(v, ast.Call) and isinstance(v.func, ast.Name) and v.func.id == "func":
                env[st.targets[0].id] = ("sym", "X")
            else:
                env[st.targets[0].id] = _term(v, env, cx)
                if _has_raise(env[st.targets[0].id]):
                    return ("raise",)  # a helper evaluated for the value raised
            continue
        if isinstance(st, ast.AugAssign) and isinstance(st.target, ast.Name):
            cur = env.get(st.target.id)
            if cur is None:
                raise _Unsupported("augmented assignment to unknown name")
            rhs = _term(st.value, env, cx)
            if isinstance(st.op, ast.Add):
                env[st.target.id] = ("add", (cur, rhs))
            elif isinstance(st.op, ast.Mult):
                env[st.target.id] = ("mul", (cur, rhs))
            else:
                raise _Unsupported("augmented operator")
            continue
        if isinstance(st, ast.Return):
            r = _term(st.value, env, cx) if st.value is not None else None
            return ("raise",) if _has_raise(r) else r
        if isinstance(st, ast.Raise):
            return ("raise",)
        if isinstance(st, ast.If):
            t = st.test
            verdict = None
            if isinstance(t, ast.Compare) and len(t.ops) == 1 and isinstance(t.ops[0], (ast.Eq, ast.NotEq)):
                sides = [t.left, t.comparators[0]]
                nm = [x.id for x in sides if isinstance(x, ast.Name)]
                cs = [x.value for x in sides if isinstance(x, ast.Constant)]
                if nm == [dname] and len(cs) == 1:
                    verdict = (cs[0] == direction) == isinstance(t.ops[0], ast.Eq)
            if isinstance(t, ast.Compare) and len(t.ops) == 1 and isinstance(t.ops[0], (ast.In, ast.NotIn)) and isinstance(t.left, ast.Name) and t.left.id == dname and isinstance(t.comparators[0], (ast.List, ast.Tuple, ast.Set)):
                vals = [x.value for x in t.comparators[0].elts if isinstance(x, ast.Constant)]
                verdict = (direction in vals) == isinstance(t.ops[0], ast.In)
            if verdict is None:
                # input validation (type checks on base / offset): a branch that only raises is skipped
                if all(isinstance(x, ast.Raise) for x in st.body) and not st.orelse:
                    continue
                raise _Unsupported("test " + ast.unparse(t)[:60])
            r = _run_wrapper(st.body if verdict else st.orelse, env, direction, dname, cx)
            if r is not None:
                return r
            continue
        if isinstance(st, ast.Match) and isinstance(st.subject, ast.Name) and st.subject.id == dname:
            chosen = None
            for c in st.cases:
                pat = c.pattern
                if isinstance(pat, ast.MatchValue) and isinstance(pat.value, ast.Constant) and pat.value.value == direction and c.guard is None:
                    chosen = c
                    break
                if isinstance(pat, ast.MatchAs) and pat.pattern is None and c.guard is None:
                    chosen = c
                    break
                if isinstance(pat, ast.MatchOr) and any(isinstance(p_, ast.MatchValue) and isinstance(p_.value, ast.Constant) and p_.value.value == direction for p_ in pat.patterns):
                    chosen = c
                    break
            if chosen is not None:
                r = _run_wrapper(chosen.body, env, direction, dname, cx)
                if r is not None:
                    return r
            continue
        raise _Unsupported("statement " + type(st).__name__)
    return None


def wrapper_shape(ctx, repo, itf):
    ctx.rule("WRAP", "for direction up / down / nearest the rounding wrapper returns exactly offset + base * ceil|floor|round(out / base) (symbolic evaluation of the wrapper body, any spelling); any other direction raises")
    fn = find_function(itf, "_add_rounding_to_one_function", "primary anchor")
    params = [a.arg for a in fn.args.args]
    if len(params) < 3:
        raise AnalysisError("_add_rounding_to_one_function signature changed")
    base, direction, offset = params[:3]
    wrappers = [n for n in ast.walk(fn) if isinstance(n, ast.FunctionDef) and any(isinstance(c, ast.Call) and isinstance(c.func, ast.Name) and c.func.id == "func" for c in ast.walk(n)) and not any(isinstance(m, ast.FunctionDef) for m in n.body)]
    if len(wrappers) != 1:
        raise AnalysisError("rounding wrapper (innermost function calling func) not recognised")
    w = wrappers[0]
    want_fn = {"up": "ceil", "down": "floor", "nearest": "round"}
    for d, f in want_fn.items():
        env = {base: ("sym", "B"), offset: ("sym", "O")}
        try:
            got = _run_wrapper(w.body, env, d, direction, {"funcs": itf.functions, "direction": d, "dname": direction})
        except _Unsupported as e:
            raise AnalysisError(f"rounding wrapper contains a construct the symbolic evaluation does not model ({e}); WRAP needs a re-read") from e
        want = _canon(("add", (("sym", "O"), ("mul", (("sym", "B"), ("fn", f, ("div", ("sym", "X"), ("sym", "B"))))))))
        ok = got is not None and got != ("raise",) and _canon(got) == want
        ctx.ob("WRAP", ok=ok, distinct=d)
        if not ok:
            ctx.violation("WRAP", f"direction|{d}|{_show(got)}", itf.loc(w), f"for direction {d!r} the wrapper returns {_show(got)}; statutory rounding is O + B*{f}(X/B) with X the unrounded value, B the base, O the offset")
    env = {base: ("sym", "B"), offset: ("sym", "O")}
    try:
        got = _run_wrapper(w.body, env, "sideways", direction, {"funcs": itf.functions, "direction": "sideways", "dname": direction})
    except _Unsupported as e:
        raise AnalysisError(f"rounding wrapper: {e}") from e
    ok = got == ("raise",)
    ctx.ob("WRAP", ok=ok, distinct="invalid-direction")
    if not ok:
        ctx.violation("WRAP", "invalid-direction-accepted", itf.loc(w), f"an unknown direction does not raise but returns {_show(got)}")


def _show(t):
    if t is None:
        return "nothing"
    if t == ("raise",):
        return "<raises>"
    t = _canon(t)

    def sh(x):
        if x[0] == "sym":
            return x[1]
        if x[0] == "num":
            return repr(x[1])
        if x[0] == "add":
            return "(" + " + ".join(sh(y) for y in x[1]) + ")"
        if x[0] == "mul":
            return "*".join(sh(y) for y in x[1])
        if x[0] == "div":
            return f"{sh(x[1])}/{sh(x[2])}"
        if x[0] == "fn":
            return f"{x[1]}({sh(x[2])})"
        if x[0] == "opaque":
            return f"`{x[1]}`"
        return str(x)

    return sh(t)


# ------------------------------------------------------------------ ONCE
def not_twice(ctx, repo, itf, arf):
    ctx.rule("ONCE", "the metadata given to a time-converted function cannot contain the rounding key; aggregate factories attach no metadata; the key string is the same at the decorator, the remover and the tester; each name is wrapped at most once")
    sh = repo.module("shared.py")
    pi = find_function(sh, "policy_info", "primary anchor")
    dec_keys = {n.slice.value for n in ast.walk(pi) if isinstance(n, ast.Subscript) and isinstance(n.slice, ast.Constant) and isinstance(n.slice.value, str) and "__info__" in ast.unparse(n.value) and isinstance(n.ctx, ast.Store)}
    tester_keys = {c.left.value for c in ast.walk(arf) if isinstance(c, ast.Compare) and isinstance(c.left, ast.Constant) and isinstance(c.left.value, str) and any(isinstance(o, (ast.In, ast.NotIn)) for o in c.ops) and "__info__" in ast.unparse(c.comparators[0])}
    tester_keys |= {c.args[0].value for c in ast.walk(arf) if isinstance(c, ast.Call) and isinstance(c.func, ast.Attribute) and c.func.attr == "get" and "__info__" in ast.unparse(c.func.value) and c.args and isinstance(c.args[0], ast.Constant)}
    ok = KEY in dec_keys and tester_keys == {KEY}
    ctx.ob("ONCE", ok=ok, distinct="key-decorator-tester")
    if not ok:
        ctx.violation("ONCE", f"key-mismatch|{sorted(dec_keys & {KEY})}|{sorted(tester_keys)}", itf.loc(arf), f"the decorator stores {sorted(k for k in dec_keys if 'round' in k)} but the wrapper tests for {sorted(tester_keys)}: rounding would never (or always) apply")
    tc = repo.module("time_conversion.py")
    fac = find_function(tc, "_create_function_for_time_unit", "primary anchor")
    info_param = fac.args.args[1].arg if len(fac.args.args) > 1 else None
    stores = [n for n in ast.walk(fac) if isinstance(n, ast.Assign) and any(isinstance(t, ast.Attribute) and t.attr == "__info__" for t in n.targets)]
    if not stores:
        ctx.ob("ONCE", ok=True, distinct="remover")  # not copying metadata at all is fine
    for st in stores:
        v = st.value
        ok = False
        why = f"`{ast.unparse(v)[:80]}`"
        if isinstance(v, ast.Call) and isinstance(v.func, ast.Name) and v.func.id in tc.functions and len(v.args) == 1 and not v.keywords and isinstance(v.args[0], ast.Name) and v.args[0].id == info_param and len(tc.functions[v.func.id].args.args) == 1:
            # a helper that returns the metadata without the key: decide its return value in its own scope
            hfd = tc.functions[v.func.id]
            hrets = [r for r in ast.walk(hfd) if isinstance(r, ast.Return) and r.value is not None]
            if len(hrets) == 1:
                fac, info_param, v = hfd, hfd.args.args[0].arg, hrets[0].value
        if isinstance(v, ast.DictComp) and v.generators and v.generators[0].ifs:
            # {k: v for k, v in info.items() if k != KEY}
            gen = v.generators[0]
            kv = gen.target.elts[0].id if isinstance(gen.target, ast.Tuple) and isinstance(gen.target.elts[0], ast.Name) else None
            for c in gen.ifs:
                t = ast.unparse(c)
                if kv and t in (f"{kv} != '{KEY}'", f"'{KEY}' != {kv}", f"{kv} not in ('{KEY}',)", f"{kv} not in ['{KEY}']", f"not {kv} == '{KEY}'"):
                    ok = True
            if not ok:
                why += " does not filter out the key " + KEY
        elif isinstance(v, ast.Name):
            # a local copy from which the key was popped / deleted
            nm = v.id
            removed = any(
                (isinstance(n, ast.Call) and isinstance(n.func, ast.Attribute) and n.func.attr == "pop" and isinstance(n.func.value, ast.Name) and n.func.value.id == nm and n.args and isinstance(n.args[0], ast.Constant) and n.args[0].value == KEY)
                or (isinstance(n, ast.Delete) and any(ast.unparse(t) in (f"{nm}['{KEY}']",) for t in n.targets))
                for n in ast.walk(fac)
            )
            copied = any(isinstance(n, ast.Assign) and isinstance(n.targets[0], ast.Name) and n.targets[0].id == nm and isinstance(n.value, ast.Call) and ast.unparse(n.value.func) in ("dict", "copy.copy", "copy.deepcopy") or (isinstance(n, ast.Assign) and isinstance(n.targets[0], ast.Name) and n.targets[0].id == nm and isinstance(n.value, (ast.Dict, ast.DictComp))) for n in ast.walk(fac))
            ok = removed and (copied or nm != info_param)
            if not ok:
                why += " is the original metadata (the key is not removed from a copy)"
        elif isinstance(v, ast.Dict) and not any(k is None for k in v.keys):
            ok = not any(isinstance(k, ast.Constant) and k.value == KEY for k in v.keys)
        ctx.ob("ONCE", ok=ok, distinct=("remover", ast.unparse(v)[:40]))
        if not ok:
            ctx.violation("ONCE", "time-conversion-inherits-rounding-key", tc.loc(st), f"the derived time-unit function gets metadata {why}: it would be rounded again with the source column's spec")
    fl = repo.module("functions_loader.py")
    for name in ("_create_one_aggregate_by_group_func", "_create_one_aggregate_by_p_id_func"):
        fd = find_function(fl, name, "primary anchor")
        bad = [n for n in ast.walk(fd) if isinstance(n, ast.Attribute) and n.attr == "__info__" and isinstance(n.ctx, ast.Store)]
        ctx.ob("ONCE", ok=not bad, distinct=name)
        for n in bad:
            ctx.violation("ONCE", f"{name}|__info__", fl.loc(n), f"{name} attaches __info__ to an aggregate: an aggregate of a rounded column could be rounded again")
    # each name wrapped at most once: one loop over the function dict, store keyed by the loop variable
    loops = [n for n in walk_own(arf) if isinstance(n, ast.For)]
    # the decorator may be bound to a local first: `round_output = _add_rounding_to_one_function(...); new[name] = round_output(func)`
    decorators = {n.targets[0].id for n in ast.walk(arf) if isinstance(n, ast.Assign) and isinstance(n.targets[0], ast.Name) and isinstance(n.value, ast.Call) and ast.unparse(n.value.func) == "_add_rounding_to_one_function"}
    stores = [
        n
        for n in ast.walk(arf)
        if isinstance(n, ast.Assign) and isinstance(n.targets[0], ast.Subscript) and isinstance(n.value, ast.Call)
        and ("_add_rounding_to_one_function" in ast.unparse(n.value) or (isinstance(n.value.func, ast.Name) and n.value.func.id in decorators))
    ]
    ok = len(loops) == 1 and len(stores) == 1 and isinstance(loops[0].target, ast.Tuple) and ast.unparse(stores[0].targets[0].slice) == ast.unparse(loops[0].target.elts[0])
    ctx.ob("ONCE", ok=ok, distinct="single-wrap")
    if not ok:
        ctx.violation("ONCE", "wrapped-more-than-once", itf.loc(arf), "the rounding wrapper is not applied in a single loop keyed by the function name: a function could be wrapped twice")
    # the wrapped object is the loop's own function
    if stores:
        call = stores[0].value
        inner = call.args[0] if call.args else None
        ok = isinstance(inner, ast.Name) and isinstance(loops[0].target, ast.Tuple) and inner.id == loops[0].target.elts[1].id
        ctx.ob("ONCE", ok=ok, distinct="wraps-own-function")
        if not ok:
            ctx.violation("ONCE", "wraps-other-function", itf.loc(stores[0]), f"`{ast.unparse(stores[0])[:90]}` does not wrap the loop's own function")


# ------------------------------------------------------------------ MISS
def missing_is_error(ctx, itf, arf, spec_var):
    ctx.rule("MISS", "the spec is read only when params_key in params, 'rounding' in params[key] and name in params[key]['rounding'] all hold; whenever one of them fails a raise is reached")
    import itertools

    from staticlib.guards import Dominance, atoms_and_eval

    rf, read, _ = _spec_read(itf, arf)
    dom = Dominance(rf)

    def atom(node):
        if isinstance(node, ast.Compare) and len(node.ops) == 1 and isinstance(node.ops[0], ast.In):
            c = ast.unparse(node.comparators[0])
            l = ast.unparse(node.left)
            if l == "'rounding'":
                return "M_rounding"
            if c.endswith("['rounding']"):
                return "M_name"
            if "[" not in c and "rounding" not in c and "__info__" not in c:
                return "M_key"
        return None

    conds = dom.of(read)
    names, conj = atoms_and_eval(conds, atom)
    mem = [x for x in ("M_key", "M_rounding", "M_name") if x in names]
    ok3 = len(mem) == 3
    bad = None
    if ok3:
        for vals in itertools.product([False, True], repeat=len(names)):
            env = dict(zip(names, vals))
            if conj(env) and not all(env[m] for m in mem):
                bad = {m: env[m] for m in mem}
    ctx.ob("MISS", ok=ok3 and bad is None, distinct="guard", n=8)
    if not ok3:
        ctx.violation("MISS", f"guard-tests|{sorted(mem)}", itf.loc(read), f"the look-up of the rounding spec is guarded by {sorted(mem) or 'no'} membership tests; expected all three (key in params, 'rounding' in params[key], name in params[key]['rounding']): a rule marked for rounding without a specification fails with an unspecific error or is silently skipped")
    elif bad:
        ctx.violation("MISS", f"guard-truth|{bad}", itf.loc(read), f"the spec is read although {bad}")
    # each missing membership reaches a raise
    raises = [n for n in ast.walk(rf) if isinstance(n, ast.Raise)]
    if ok3:
        for m in mem:
            reached = False
            for r in raises:
                n2, c2 = atoms_and_eval(dom.of(r), atom)
                env = {x: True for x in n2}
                env[m] = False
                # opaque atoms (e.g. base/direction membership of the second check) free
                free = [x for x in n2 if x not in mem]
                for vals in itertools.product([False, True], repeat=len(free)):
                    env.update(dict(zip(free, vals)))
                    if c2(env):
                        reached = True
            ctx.ob("MISS", ok=reached, distinct=("raise", m))
            if not reached:
                ctx.violation("MISS", f"no-raise|{m}", itf.loc(read), f"when {m[2:]} is missing no raise is reached")
