"""C18 - statutory schedules are well-formed and of the statutory shape (proof on the data).

For every parameter of type piecewise_* and every date at which it changes, the schedule is
re-derived in exact rational arithmetic from the YAML literals (documented semantics: on
[t_i, t_i+1) f(x) = c_i + sum_k r_ki (x - t_i)^k, lowest piece constant) and every obligation is
an identity or inequality between rationals.  Plus structural probes on the evaluator."""
from __future__ import annotations

import ast
import datetime
import math
from fractions import Fraction

from staticlib.common import AnalysisError
from staticlib.session import get_session
from staticlib.srcmodel import find_function
from staticlib.yamlmodel import INF, Missing, PWError, parse_pw_exact

TARIFF = ("eink_st", "eink_st_tarif")
SOLI = ("soli_st", "soli_st")
CENT = Fraction(1, 100)


def versions(s, tier):
    """(group, param, date, loaded dict) for every change date of every piecewise parameter"""
    ym = s.em.ym
    for g, p, raw in ym.piecewise_params():
        dates = sorted(k for k in raw if isinstance(k, datetime.date) and not isinstance(k, datetime.datetime))
        # a deviation_from another parameter changes when the base changes
        extra = set()
        for d in dates:
            e = raw[d]
            if isinstance(e, dict) and isinstance(e.get("deviation_from"), str) and "." in e["deviation_from"]:
                g2, p2 = e["deviation_from"].split(".")[:2]
                try:
                    extra |= {k for k in ym.raw(g2).get(p2, {}) if isinstance(k, datetime.date) and k > d}
                except Exception:  # noqa: BLE001
                    pass
        if tier == "thorough":
            extra |= {d - datetime.timedelta(days=1) for d in dates[1:]}
            extra |= {datetime.date(d.year, 12, 31) for d in dates}
        for d in sorted(set(dates) | extra):
            if d < dates[0]:
                continue
            yield g, p, d


def check(ctx):
    s = get_session(ctx.root)
    ym = s.em.ym
    ctx.trusted_base = ["python ast", "PyYAML safe loader", "fractions.Fraction arithmetic",
                        "parameter-loader model (design-time differential validation, anchor probes)"]
    ctx.assumptions += [
        "schedule semantics as documented: piece i on [t_i, t_i+1), value c_i + sum_k r_ki (x - t_i)^k, lowest piece constant",
        "YAML numerals are read with their decimal source value (Fraction(repr(float)))",
        "floating-point exactness of piecewise_polynomial at threshold +/- 1 ulp is not decided",
    ]
    ctx.rule("W1", "keys 0..n-1; first lower threshold -inf, last upper +inf; upper[i] == lower[i+1] exactly; thresholds strictly increasing; rates complete; intercepts only lowest or all; progressionsfaktor only with quadratic type")
    ctx.rule("W2", "income-tax tariff: zero on the lowest piece, continuous at every threshold, slope >= 0 and non-decreasing within and across pieces (convex), slope <= top rate")
    ctx.rule("W3", "solidarity surcharge: continuous, slope >= 0, f(x) <= r_top*x + 0.01 for all x >= 0")
    ctx.rule("E", "evaluator: bin = searchsorted(thresholds, x, side='right') - 1; increment measured from the selected bin's own threshold; lowest bin constant; all degrees 1..deg added with matching power")
    seen_tar = seen_soli = 0
    nver = 0
    for g, p, d in versions(s, ctx.tier):
        where = f"src/_gettsim/parameters/{g}.yaml {p}@{d}"
        try:
            pd = ym.load_group(d, g, [p])[p]
        except Missing as e:
            ctx.ob("W1", ok=False, distinct=(g, p, str(d)))
            ctx.violation("W1", f"{g}.{p}@{d}|unresolvable", where, f"schedule cannot be loaded: {e}")
            continue
        except KeyError:
            continue
        if not (isinstance(pd, dict) and str(pd.get("type", "")).startswith("piecewise")):
            continue
        nver += 1
        try:
            pw = parse_pw_exact(pd)
        except PWError as e:
            ctx.ob("W1", ok=False, distinct=(g, p, str(d)))
            ctx.violation("W1", f"{g}.{p}@{d}|{e}", where, f"ill-formed schedule: {e}")
            continue
        # ---- W1
        probs = []
        th = pw.thresholds
        for i in range(len(th) - 1):
            if not th[i] < th[i + 1]:
                probs.append(f"thresholds not strictly increasing at piece {i}: {th[i]} !< {th[i + 1]}")
        for i in range(pw.n - 1):
            if pw.up[i] != pw.lo[i + 1]:
                probs.append(f"upper[{i}]={pw.up[i]} != lower[{i + 1}]={pw.lo[i + 1]}")
        if pd.get("progressionsfaktor") and pw.typ != "quadratic":
            probs.append("progressionsfaktor on a non-quadratic schedule")
        for i in range(pw.n):
            unknown = [k for k in pd[i] if k not in ("lower_threshold", "upper_threshold", "rate", "rate_linear", "rate_quadratic", "rate_cubic", "intercept_at_lower_threshold")]
            if unknown:
                probs.append(f"piece {i}: keys {unknown} are not read by the parser (misspelt rate/threshold?)")
            if pw.typ == "linear" and any(k in pd[i] for k in ("rate_quadratic", "rate_cubic")):
                probs.append(f"piece {i}: higher-order rate on a linear schedule is ignored")
        nob = pw.n * 3 + 2
        ctx.ob("W1", ok=not probs, distinct=(g, p, str(d)), n=nob)
        for pr in probs:
            ctx.violation("W1", f"{g}.{p}@{d}|{pr}", where, pr)
        for note in pw.issues:
            ctx.info(f"{g}.{p}@{d}: {note}")
        if len(ctx.samples) < 5:
            ctx.sample({"schedule": f"{g}.{p}", "date": str(d), "type": pw.typ, "thresholds": [str(x) for x in th], "intercepts": [str(x) for x in pw.c][:6]})
        if probs:
            continue
        # ---- W2
        if (g, p) == TARIFF:
            seen_tar += 1
            _tariff(ctx, pw, g, p, d, where)
        if (g, p) == SOLI:
            seen_soli += 1
            _soli(ctx, pw, g, p, d, where)
    if seen_tar == 0:
        raise AnalysisError("anchor eink_st.eink_st_tarif (piecewise) vanished")
    if seen_soli == 0:
        raise AnalysisError("anchor soli_st.soli_st (piecewise) vanished")
    _evaluator(ctx, s.repo)
    ctx.floor("W1", 300)
    ctx.floor("W2", 60)
    ctx.floor("W3", 20)
    ctx.extra_cov["schedule_versions"] = nver
    ctx.extra_cov["tariff_versions"] = seen_tar
    ctx.extra_cov["soli_versions"] = seen_soli
    ctx.extra_cov["exhaustive"] = True


def _tariff(ctx, pw, g, p, d, where):
    def bad(msg):
        ctx.violation("W2", f"{g}.{p}@{d}|{msg}", where, msg)

    if len(pw.rates) > 2:
        raise AnalysisError("income-tax tariff is no longer at most quadratic; W2 needs a re-read")
    n = pw.n
    ok = pw.c[0] == 0
    ctx.ob("W2", ok=ok, distinct=(str(d), "zero"))
    if not ok:
        bad(f"lowest piece is not zero (intercept {pw.c[0]})")
    top = pw.rates[0][n - 1]
    ok = (len(pw.rates) == 1 or pw.rates[1][n - 1] == 0) and top >= 0
    ctx.ob("W2", ok=ok, distinct=(str(d), "top"))
    if not ok:
        bad("top piece is not linear with a non-negative rate")
    prev_end_slope = Fraction(0)
    for i in range(1, n):
        lo, up = pw.lo[i], pw.up[i]
        # continuity at lo
        left = pw.c[0] if i == 1 else pw.value_at(i - 1, lo)
        ok = left == pw.c[i]
        ctx.ob("W2", ok=ok, distinct=(str(d), i, "cont"))
        if not ok:
            bad(f"jump of {pw.c[i] - left} at threshold {lo} (piece {i})")
        r1 = pw.rates[0][i]
        r2 = pw.rates[1][i] if len(pw.rates) > 1 else Fraction(0)
        ok = r1 >= 0 and r2 >= 0
        ctx.ob("W2", ok=ok, distinct=(str(d), i, "slope"))
        if not ok:
            bad(f"piece {i}: slope negative or decreasing (rate_linear {r1}, rate_quadratic {r2})")
        ok = r1 >= prev_end_slope
        ctx.ob("W2", ok=ok, distinct=(str(d), i, "convex"))
        if not ok:
            bad(f"marginal rate drops at threshold {lo}: {prev_end_slope} -> {r1} (not convex)")
        if up != INF:
            end = r1 + 2 * r2 * (up - lo)
        else:
            end = r1
            if r2 != 0:
                bad(f"unbounded piece {i} with quadratic term")
        ok = end <= top
        ctx.ob("W2", ok=ok, distinct=(str(d), i, "top"))
        if not ok:
            bad(f"piece {i}: marginal rate reaches {end} > top rate {top}")
        prev_end_slope = end


def _soli(ctx, pw, g, p, d, where):
    def bad(msg):
        ctx.violation("W3", f"{g}.{p}@{d}|{msg}", where, msg)

    if len(pw.rates) != 1:
        raise AnalysisError("solidarity surcharge schedule is no longer piecewise linear; W3 needs a re-read")
    n = pw.n
    top = pw.rates[0][n - 1]
    for i in range(1, n):
        lo = pw.lo[i]
        left = pw.c[0] if i == 1 else pw.value_at(i - 1, lo)
        ok = left == pw.c[i]
        ctx.ob("W3", ok=ok, distinct=(str(d), i, "cont"))
        if not ok:
            bad(f"jump of {pw.c[i] - left} at threshold {lo}")
        ok = pw.rates[0][i] >= 0
        ctx.ob("W3", ok=ok, distinct=(str(d), i, "slope"))
        if not ok:
            bad(f"piece {i}: negative slope {pw.rates[0][i]}")
    # f(x) - top*x is piecewise linear on x >= 0: maximal at a breakpoint >= 0, at 0, or at infinity
    pts = [Fraction(0)] + [t for t in pw.lo[1:] if t > 0]
    worst = None
    for x in pts:
        i = max(j for j in range(n) if pw.lo[j] <= x)
        ex = pw.value_at(i, x) - top * x
        worst = ex if worst is None else max(worst, ex)
        ok = ex <= CENT
        ctx.ob("W3", ok=ok, distinct=(str(d), str(x), "cap"))
        if not ok:
            bad(f"at x={x} the surcharge exceeds rate*tax by {float(ex):.4f} > 0.01")
    ok = pw.rates[0][n - 1] <= top
    ctx.ob("W3", ok=ok, distinct=(str(d), "inf"))
    ctx.info(f"soli_st@{d}: max excess over rate*tax = {float(worst):.5f}")


def _evaluator(ctx, repo):
    m = repo.module("piecewise_functions.py")
    fn = find_function(m, "piecewise_polynomial", "primary anchor")
    args = [a.arg for a in fn.args.args]
    if len(args) < 4:
        raise AnalysisError("piecewise_polynomial signature changed")
    x, th, rates, ic = args[:4]
    ss = [n for n in ast.walk(fn) if isinstance(n, ast.Call) and ast.unparse(n.func).endswith("searchsorted")]
    if len(ss) != 1:
        raise AnalysisError("piecewise_polynomial no longer selects the bin with one searchsorted call; E needs a re-read")
    c = ss[0]
    side = None
    for kw in c.keywords:
        if kw.arg == "side" and isinstance(kw.value, ast.Constant):
            side = kw.value.value
    if len(c.args) >= 3 and isinstance(c.args[2], ast.Constant):
        side = c.args[2].value
    a0 = ast.unparse(c.args[0]) if c.args else ""
    a1 = ast.unparse(c.args[1]) if len(c.args) > 1 else ""
    ok = side == "right" and a0 == th and a1 == x
    ctx.ob("E", ok=ok, distinct="side")
    if not ok:
        ctx.violation("E", "searchsorted-side", m.loc(c), f"bin selection is searchsorted({a0}, {a1}, side={side!r}); pieces are [t_i, t_i+1) only with (thresholds, x, side='right')")
    # bin variable = searchsorted(...) - 1
    binvar = None
    for n in ast.walk(fn):
        if isinstance(n, ast.Assign) and c in list(ast.walk(n.value)):
            v = n.value
            ok = isinstance(v, ast.BinOp) and isinstance(v.op, ast.Sub) and isinstance(v.right, ast.Constant) and v.right.value == 1 and v.left is c
            ctx.ob("E", ok=ok, distinct="minus1")
            if not ok:
                ctx.violation("E", "bin-offset", m.loc(n), f"bin index is `{ast.unparse(v)}`, expected searchsorted(...) - 1")
            binvar = n.targets[0].id if isinstance(n.targets[0], ast.Name) else None
    if binvar is None:
        raise AnalysisError("bin variable of piecewise_polynomial not found")
    # increment = x - thresholds[bin]
    incvar = None
    for n in ast.walk(fn):
        if isinstance(n, ast.Assign) and isinstance(n.value, ast.BinOp) and isinstance(n.value.op, ast.Sub) and ast.unparse(n.value.left) == x:
            r = n.value.right
            rt = ast.unparse(r)
            # thresholds[bin] possibly through a temporary
            tmp = {t.targets[0].id: ast.unparse(t.value) for t in ast.walk(fn) if isinstance(t, ast.Assign) and isinstance(t.targets[0], ast.Name)}
            rt = tmp.get(rt, rt)
            ok = rt == f"{th}[{binvar}]"
            ctx.ob("E", ok=ok, distinct="increment")
            if not ok:
                ctx.violation("E", "increment-base", m.loc(n), f"increment is `{ast.unparse(n.value)}` with base `{rt}`, expected {x} - {th}[{binvar}]")
            incvar = n.targets[0].id
    if incvar is None:
        raise AnalysisError("increment of piecewise_polynomial not found")
    # the non-multiplier path: out = intercepts[bin]; if bin > 0: for pol in range(1, deg+1): out += rates[pol-1][bin] * mult * inc**pol
    found_ic = any(
        isinstance(n, ast.Assign) and ast.unparse(n.value) == f"{ic}[{binvar}]" for n in ast.walk(fn)
    )
    ctx.ob("E", ok=found_ic, distinct="intercept")
    if not found_ic:
        ctx.violation("E", "intercept-of-bin", m.loc(fn), f"no assignment out = {ic}[{binvar}] found")
    adds = [n for n in ast.walk(fn) if isinstance(n, ast.AugAssign) and isinstance(n.op, ast.Add) and incvar in {x.id for x in ast.walk(n.value) if isinstance(x, ast.Name)}]
    if len(adds) != 1:
        raise AnalysisError("polynomial accumulation of piecewise_polynomial not recognised; E needs a re-read")
    add = adds[0]
    pows = [n for n in ast.walk(add.value) if isinstance(n, ast.BinOp) and isinstance(n.op, ast.Pow)]
    subs = [n for n in ast.walk(add.value) if isinstance(n, ast.Subscript) and ast.unparse(n.value).startswith(rates)]
    # enclosing for loop
    loop = None
    for n in ast.walk(fn):
        if isinstance(n, ast.For) and add in list(ast.walk(n)):
            loop = n
    if loop is None or not pows or not subs or not isinstance(loop.target, ast.Name):
        raise AnalysisError("polynomial accumulation loop of piecewise_polynomial not recognised; E needs a re-read")
    pv = loop.target.id
    degv = {t.targets[0].id: ast.unparse(t.value) for t in ast.walk(fn) if isinstance(t, ast.Assign) and isinstance(t.targets[0], ast.Name)}
    deg_names = [k for k, v in degv.items() if v in (f"{rates}.shape[0]", f"len({rates})")]
    sub = subs[0]
    # index expression of the rate row: rates[e1][bin] or rates[e1, bin]
    if isinstance(sub.slice, ast.Tuple):
        e1, bsel = sub.slice.elts[0], ast.unparse(sub.slice.elts[1])
    elif isinstance(sub.value, ast.Subscript):
        e1, bsel = sub.value.slice, ast.unparse(sub.slice)
    else:
        outer = [n for n in ast.walk(add.value) if isinstance(n, ast.Subscript) and n.value is sub]
        if not outer:
            raise AnalysisError("rate selection of piecewise_polynomial not recognised; E needs a re-read")
        e1, bsel = sub.slice, ast.unparse(outer[0].slice)
    e2 = pows[0].right
    # single-assignment locals (e.g. `powers = range(1, degree + 1)`) are inlined before the finite evaluation
    nassign = {}
    for t in ast.walk(fn):
        if isinstance(t, ast.Assign) and isinstance(t.targets[0], ast.Name):
            nassign[t.targets[0].id] = nassign.get(t.targets[0].id, 0) + 1
    once = {t.targets[0].id: t.value for t in ast.walk(fn) if isinstance(t, ast.Assign) and isinstance(t.targets[0], ast.Name) and nassign[t.targets[0].id] == 1 and t.targets[0].id not in deg_names}

    class _Inl(ast.NodeTransformer):
        depth = 0

        def visit_Name(self, n):
            if isinstance(n.ctx, ast.Load) and n.id in once and n.id != pv and self.depth < 6:
                self.depth += 1
                r = self.visit(ast.parse(ast.unparse(once[n.id]), mode="eval").body)
                self.depth -= 1
                return r
            return n

    def _inl(e):
        return ast.fix_missing_locations(_Inl().visit(ast.parse(ast.unparse(e), mode="eval").body))

    loop_iter, e1, e2 = _inl(loop.iter), _inl(e1), _inl(e2)
    okb = bsel == binvar and ast.unparse(pows[0].left) == incvar
    pairs_ok = True
    detail = ""
    try:
        for D in (1, 2, 3):
            envd = {dn: D for dn in deg_names}
            envd["__builtins__"] = {"range": range, "len": len}
            it = list(eval(compile(ast.Expression(loop_iter), "<range>", "eval"), dict(envd)))  # noqa: S307 - integer range expression of the analysed loop header
            got = set()
            for k in it:
                envk = dict(envd)
                envk[pv] = k
                got.add((eval(compile(ast.Expression(e1), "<i>", "eval"), dict(envk)), eval(compile(ast.Expression(e2), "<p>", "eval"), dict(envk))))  # noqa: S307
            want = {(k - 1, k) for k in range(1, D + 1)}
            if got != want:
                pairs_ok = False
                detail = f"for degree {D} the (rate row, power) pairs are {sorted(got)}, expected {sorted(want)}"
    except Exception as e:  # noqa: BLE001
        raise AnalysisError(f"loop header / index expressions of piecewise_polynomial not evaluable ({e!r}); E needs a re-read") from e
    ok = okb and pairs_ok
    msg = detail or f"term `{ast.unparse(add.value)}` selects bin `{bsel}` and powers `{ast.unparse(pows[0])}`"
    ctx.ob("E", ok=ok, distinct="accumulate")
    if not ok:
        ctx.violation("E", "accumulation", m.loc(add), "polynomial terms do not pair rate k with power k of the increment over k=1..deg: " + msg)
    # guard: lowest bin constant
    guard = None
    for n in ast.walk(fn):
        if isinstance(n, ast.If) and loop is not None and loop in list(ast.walk(n)) and binvar in ast.unparse(n.test) and "None" not in ast.unparse(n.test):
            guard = n
    okg = guard is not None and ast.unparse(guard.test) in (f"{binvar} > 0", f"{binvar} >= 1", f"0 < {binvar}", f"{binvar} != 0")
    ctx.ob("E", ok=okg, distinct="lowest-constant")
    if not okg:
        ctx.violation("E", "lowest-bin", m.loc(loop or fn), "the polynomial increment is not restricted to bins above the lowest (whose lower threshold is -inf)")
    _multiplier_path(ctx, m, fn, th, rates, ic, binvar, incvar)
    _call_sites(ctx, repo)
    _generator_exact(ctx, m)


def _multiplier_path(ctx, m, fn, th, rates, ic, binvar, incvar, _depth=0, _rename=None):
    """E-mult: with a rates multiplier the intercept of the person's bin is rebuilt as
    intercepts[0] + sum over the full pieces below the bin (pieces 1 .. bin-1; the lowest piece is constant) of
    multiplier * rate[k-1, piece] * width(piece)**k.  Decided by finite evaluation of the loop headers, the guard
    on the bin and the index expressions for n = 3..5 pieces and every bin."""
    adds = [n for n in ast.walk(fn) if isinstance(n, ast.AugAssign) and isinstance(n.op, ast.Add)
            and any(isinstance(x, ast.Subscript) and ast.unparse(x.value).startswith(rates) for x in ast.walk(n.value))
            and incvar not in {x.id for x in ast.walk(n.value) if isinstance(x, ast.Name)}]
    if not adds and _depth < 2:
        # the accumulation may live in a helper of the module: follow the call, mapping the names through its parameters
        for c in ast.walk(fn):
            if isinstance(c, ast.Call) and isinstance(c.func, ast.Name) and c.func.id in m.functions and c.func.id != fn.name:
                h = m.functions[c.func.id]
                hp = [a.arg for a in h.args.posonlyargs + h.args.args + h.args.kwonlyargs]
                bound = dict(zip(hp, [ast.unparse(a) for a in c.args]))
                bound.update({kw.arg: ast.unparse(kw.value) for kw in c.keywords if kw.arg})
                inv = {v: k for k, v in bound.items()}
                if th in inv and rates in inv and binvar in inv:
                    rename = {k: v for k, v in bound.items()}
                    return _multiplier_path(ctx, m, h, inv[th], inv[rates], ic, inv[binvar], incvar, _depth + 1, rename)
    if not adds:
        if any(a.arg == "rates_multiplier" for a in fn.args.args):
            raise AnalysisError("piecewise_polynomial takes a rates_multiplier but no accumulation of scaled rates was found; E-mult needs a re-read")
        return
    if len(adds) != 1:
        raise AnalysisError("scaled-rates accumulation of piecewise_polynomial not recognised; E-mult needs a re-read")
    add = adds[0]
    # assignments by name (single definitions are inlined into index expressions)
    defs = {}
    for t in ast.walk(fn):
        if isinstance(t, ast.Assign) and len(t.targets) == 1 and isinstance(t.targets[0], ast.Name):
            defs.setdefault(t.targets[0].id, []).append(t.value)
    sub = next(x for x in ast.walk(add.value) if isinstance(x, ast.Subscript) and ast.unparse(x.value).startswith(rates))
    if isinstance(sub.slice, ast.Tuple) and len(sub.slice.elts) == 2:
        col = sub.slice.elts[1]
    else:
        outer = [x for x in ast.walk(add.value) if isinstance(x, ast.Subscript) and x.value is sub]
        if not outer:
            raise AnalysisError("rate selection in the scaled-rates path not recognised; E-mult needs a re-read")
        col = outer[0].slice
    pw_ = [x for x in ast.walk(add.value) if isinstance(x, ast.BinOp) and isinstance(x.op, ast.Pow)]
    if not pw_:
        raise AnalysisError("power term in the scaled-rates path not found; E-mult needs a re-read")
    width = pw_[0].left
    if isinstance(width, ast.Name) and len(defs.get(width.id, [])) == 1:
        width = defs[width.id][0]
    wsubs = [x for x in ast.walk(width) if isinstance(x, ast.Subscript) and ast.unparse(x.value) == th]
    if not (isinstance(width, ast.BinOp) and isinstance(width.op, ast.Sub) and len(wsubs) == 2):
        raise AnalysisError(f"piece width `{ast.unparse(width)}` in the scaled-rates path is not thresholds[a] - thresholds[b]; E-mult needs a re-read")
    hi_e, lo_e = width.left.slice, width.right.slice

    # path from the function body to the accumulation: loops and guards
    def path_to(stmts, target, acc):
        from staticlib.guards import terminates

        acc = list(acc)
        for st in stmts:
            if st is target:
                return acc
            # guard clause before the site: `if c: continue` makes the rest of the block run under `not c`
            if isinstance(st, ast.If) and not any(target is x for x in ast.walk(st)):
                if terminates(st.body) and not (st.orelse and terminates(st.orelse)):
                    acc.append(("if", st.test, False))
                elif st.orelse and terminates(st.orelse):
                    acc.append(("if", st.test, True))
            for blk, tag in ((getattr(st, "body", None), "body"), (getattr(st, "orelse", None), "orelse")):
                if isinstance(blk, list) and any(target is x for b in blk for x in ast.walk(b)):
                    if isinstance(st, ast.For):
                        return path_to(blk, target, [*acc, ("for", st)])
                    if isinstance(st, ast.If):
                        return path_to(blk, target, [*acc, ("if", st.test, tag == "body")])
                    return path_to(blk, target, acc)
        return None

    path = path_to(fn.body, add, [])
    if path is None:
        raise AnalysisError("accumulation site not reachable by structured path; E-mult needs a re-read")
    SAFE = {"range": range, "len": len, "min": min, "max": max}

    def ev(e, env):
        e = ast.parse(ast.unparse(e), mode="eval").body
        for x in ast.walk(e):
            if isinstance(x, ast.Name) and x.id not in env and x.id not in SAFE:
                if len(defs.get(x.id, [])) == 1:
                    env = {**env, x.id: ev(defs[x.id][0], env)}
                else:
                    raise KeyError(x.id)
        return eval(compile(ast.Expression(ast.fix_missing_locations(e)), "<idx>", "eval"), {"__builtins__": SAFE}, dict(env))  # noqa: S307 - integer index expression of the analysed loop

    bad = None
    n_cases = 0
    try:
        for npieces in (3, 4, 5):
            for b in range(npieces):
                base = {binvar: b, "num_intervals": npieces, "rates_multiplier": 2}
                # names equal to len(thresholds) - 1 etc. resolve through `defs`; thresholds has npieces + 1 entries
                base[th] = list(range(npieces + 1))
                for hp_, arg_ in (_rename or {}).items():  # helper parameters bound to the caller's quantities
                    if arg_ == "num_intervals":
                        base[hp_] = npieces
                    elif arg_ == "degree_polynomial":
                        base[hp_] = 1
                    elif arg_ == "rates_multiplier":
                        base[hp_] = 2
                got = set()

                def walk(i, env):
                    if i == len(path):
                        got.add((ev(col, env), ev(hi_e, env), ev(lo_e, env)))
                        return
                    kind = path[i][0]
                    if kind == "for":
                        loop = path[i][1]
                        if not isinstance(loop.target, ast.Name):
                            raise KeyError("loop target")
                        vals = list(ev(loop.iter, env))
                        # the degree loop does not matter for the set of pieces
                        if not any(isinstance(x, ast.Name) and x.id == loop.target.id for e_ in (col, hi_e, lo_e) for x in ast.walk(e_)):
                            vals = vals[:1] or [1]
                        for v in vals:
                            env2 = {**env, loop.target.id: v}
                            # statements of the loop body before the next path element may define names (threshold_incr)
                            walk(i + 1, env2)
                    else:
                        _, test, pol = path[i]
                        t = ast.unparse(test)
                        if "is not None" in t or "is None" in t:
                            val = ("is not None" in t)
                        else:
                            val = bool(ev(test, env))
                        if val == pol:
                            walk(i + 1, env)

                base["degree_polynomial"] = 1
                walk(0, base)
                want = {(j, j + 1, j) for j in range(1, min(b, npieces - 1))}
                n_cases += 1
                if got != want and bad is None:
                    bad = (npieces, b, sorted(got), sorted(want))
    except Exception as e:  # noqa: BLE001
        raise AnalysisError(f"scaled-rates path of piecewise_polynomial not evaluable ({e!r}); E-mult needs a re-read") from e
    ctx.ob("E", ok=bad is None, distinct="scaled-rates", n=n_cases)
    if bad:
        npieces, b, got, want = bad
        ctx.violation("E", "scaled-rates-intercept", m.loc(add), f"with a rates multiplier, {npieces} pieces and the argument in piece {b}, the intercept is rebuilt from (rate column, upper, lower threshold index) {got}; the full pieces below the bin are {want} - the schedule jumps at the lower threshold of that piece")


def _call_sites(ctx, repo):
    """CS: thresholds, rates and intercepts handed to one piecewise_polynomial call belong to one schedule."""
    ctx.rule("CS", "the thresholds, rates and intercepts_at_lower_thresholds arguments of every piecewise_polynomial call are read from the same parameter (intercepts are generated from that parameter's own thresholds and rates)")
    n = 0
    for r in repo.rules:
        for c in ast.walk(r.node):
            if not (isinstance(c, ast.Call) and ast.unparse(c.func).split(".")[-1] == "piecewise_polynomial"):
                continue
            pos = ["x", "thresholds", "rates", "intercepts_at_lower_thresholds", "rates_multiplier"]
            a = dict(zip(pos, c.args))
            a.update({kw.arg: kw.value for kw in c.keywords if kw.arg})
            bases = {}
            for k in pos[1:4]:
                e = a.get(k)
                if isinstance(e, ast.Subscript) and isinstance(e.slice, ast.Constant):
                    bases[k] = ast.unparse(e.value)
                elif isinstance(e, ast.Name):
                    # a local bound to params[...][key]
                    for t in ast.walk(r.node):
                        if isinstance(t, ast.Assign) and isinstance(t.targets[0], ast.Name) and t.targets[0].id == e.id and isinstance(t.value, ast.Subscript) and isinstance(t.value.slice, ast.Constant):
                            bases[k] = ast.unparse(t.value.value)
            if len(bases) < 2:
                continue
            n += 1
            ok = len(set(bases.values())) == 1
            ctx.ob("CS", ok=ok, distinct=(r.qual, c.lineno))
            if not ok:
                ctx.violation("CS", f"{r.qual}|{'/'.join(sorted(set(bases.values())))}", f"src/_gettsim/{r.mod.rel}:{c.lineno} {r.name}", f"piecewise_polynomial is called with parts of different schedules: {bases} - intercepts that were generated for other thresholds / rates make the function jump at every threshold")
    ctx.extra_cov["piecewise_call_sites"] = n
    ctx.floor("CS", 8)


def _generator_exact(ctx, m):
    """G0 (expected count zero): the functions that generate and evaluate schedules do no rounding - an intercept
    that is not the exact left limit of its piece is a jump at the threshold (and possibly a downward one)."""
    ctx.rule("G0", "no function of piecewise_functions.py rounds (round / around / rint / ceil / floor / trunc / astype(int)): generated intercepts are the exact left limits, so the schedule is continuous at every threshold")
    n = 0
    for name, fd in m.functions.items():
        n += 1
        for c in ast.walk(fd):
            if isinstance(c, ast.Call):
                f = ast.unparse(c.func)
                last = f.split(".")[-1]
                bad = last in ("round", "around", "rint", "ceil", "floor", "trunc", "fix", "round_") or (last == "astype" and c.args and ast.unparse(c.args[0]) in ("int", "numpy.int64", "np.int64"))
                if bad:
                    ctx.ob("G0", ok=False, distinct=(name, c.lineno))
                    ctx.violation("G0", f"{name}|{ast.unparse(c)[:60]}", m.loc(c) + f" {name}", f"`{ast.unparse(c)[:80]}` rounds inside the schedule machinery: the stored intercepts no longer equal the left limits of their pieces, the schedule jumps (up or down) by the rounding error at interior thresholds")
    ctx.ob("G0", ok=True, distinct="functions scanned", n=max(n, 1))
    ctx.floor("G0", 5)
