"""C13 - time-unit variants of a column differ exactly by the fixed factors (proof on rationals).

Q1 each converter a_to_b folds to c*value with c = N[a]/N[b] exactly (N: periods per year
   y:1, m:12, w:365.25/7, d:365.25); compositions / round trips follow in Q.
Q2 table key <-> function <-> creation site agree (source unit first, argument renamed to source).
Q3 on the static DAG of every interval: explicit members of one unit family are literal conversions
   of one another; with all derived nodes added the graph is acyclic.
Q4 the name pattern is assembled from both config tables, unit before group suffix."""
from __future__ import annotations

import ast
import datetime
import itertools
from fractions import Fraction

from staticlib.common import AnalysisError
from staticlib.ratfold import NotFoldable, fold_function
from staticlib.session import get_session
from staticlib.srcmodel import find_function, walk_own

N = {"y": Fraction(1), "m": Fraction(12), "w": Fraction("365.25") / 7, "d": Fraction("365.25")}


def check(ctx):
    s = get_session(ctx.root)
    repo = s.repo
    tc = repo.module("time_conversion.py")
    ctx.trusted_base = ["python ast", "fractions.Fraction", "unit table of GEP-4 / property text: 12 months, 365.25/7 weeks, 365.25 days per year"]
    ctx.assumptions += ["decimal literals denote their source value (365.25 = 1461/4)", "floating-point error of a round trip is not decided"]
    units = repo.time_units
    if set(units) != set(N):
        raise AnalysisError(f"SUPPORTED_TIME_UNITS {units} differ from the documented unit table {sorted(N)}; the oracle needs a re-read")
    ctx.rule("Q1", "converter a_to_b(value) == (N[a]/N[b]) * value exactly; hence every round trip and every composition a->b->c == a->c over the rationals")
    ctx.rule("Q2", "_time_conversion_functions['a_to_b'] is a_to_b; the creation site looks up f'{source unit}_to_{missing unit}', names the new node base+missing unit+group suffix, feeds it the source column and applies the converter to it")
    ctx.rule("Q3", "per interval: explicit (non-derived) members of one unit family are literal conversions of one another with the exact factor; the graph with all derived nodes is acyclic")
    ctx.rule("Q4", "the name pattern is built from SUPPORTED_TIME_UNITS and SUPPORTED_GROUPINGS with the unit before the group suffix, and matched with fullmatch")
    consts = tc.assigns
    coef = {}
    for a, b in itertools.permutations(units, 2):
        name = f"{a}_to_{b}"
        fd = tc.functions.get(name)
        if fd is None:
            ctx.ob("Q1", ok=False, distinct=name)
            ctx.violation("Q1", f"{name}|missing", tc.loc(tc.tree), f"converter {name} does not exist")
            continue
        try:
            m = fold_function(fd, consts, funcs=tc.functions)
        except NotFoldable as e:
            raise AnalysisError(f"converter {name} is not a foldable arithmetic expression ({e}); Q1 needs a re-read") from e
        want = N[a] / N[b]
        ok = m.k == 1 and m.c == want
        ctx.ob("Q1", ok=ok, distinct=name)
        coef[name] = m
        ctx.sample({"converter": name, "folds_to": f"{m.c} * value^{m.k}", "expected": str(want)})
        if not ok:
            ctx.violation("Q1", f"{name}|{m.c}|{m.k}", tc.loc(fd) + f" {name}", f"{name}(value) folds to {m.c} * value^{m.k} = {float(m.c):.8g}*value, documented factor is {want} = {float(want):.8g}")
    # round trips and compositions (consequences, checked explicitly as obligations)
    for a, b in itertools.permutations(units, 2):
        x, y = coef.get(f"{a}_to_{b}"), coef.get(f"{b}_to_{a}")
        if x and y:
            ok = x.c * y.c == 1
            ctx.ob("Q1", ok=ok, distinct=("rt", a, b))
            if not ok:
                ctx.violation("Q1", f"roundtrip|{a}|{b}", tc.loc(tc.functions[f'{a}_to_{b}']), f"{a}->{b}->{a} multiplies by {x.c * y.c} != 1")
    for a, b, c in itertools.permutations(units, 3):
        x, y, z = coef.get(f"{a}_to_{b}"), coef.get(f"{b}_to_{c}"), coef.get(f"{a}_to_{c}")
        if x and y and z:
            ok = x.c * y.c == z.c
            ctx.ob("Q1", ok=ok, distinct=("comp", a, b, c))
            if not ok:
                ctx.violation("Q1", f"composition|{a}|{b}|{c}", tc.loc(tc.functions[f'{a}_to_{c}']), f"{a}->{b}->{c} != {a}->{c}")
    table(ctx, tc, units)
    conversion_precedence(ctx, tc)
    pattern(ctx, repo, tc)
    families(ctx, s)
    creation_guard(ctx, tc)
    phases(ctx, repo)
    from .c11 import _spec_problems

    ctx.rule("Q6", "an explicit aggregation spec whose name carries a time unit aggregates a source of the same unit (otherwise the value is off by the unit factor and the derived variant of that name is suppressed)")
    grp_, pid_, origin_, _ = repo.agg_specs
    nspec = 0
    for group, table_ in ((True, grp_), (False, pid_)):
        for k, sp in table_.items():
            nspec += 1
            for pr in _spec_problems(repo, k, sp, group=group):
                if "is named as a per-" in pr:
                    ctx.ob("Q6", ok=False, distinct=k)
                    ctx.violation("Q6", f"{k}|unit", origin_.get((group, k), k), f"aggregate {k} {pr}")
    ctx.ob("Q6", ok=True, distinct="specs", n=max(nspec, 1))
    ctx.floor("Q1", 12 + 12 + 24)
    ctx.floor("Q2", 12)


def resolve_table(tc):
    """{key: converter function name} of _time_conversion_functions, for the idioms: dict display of names;
    {f.__name__: f for f in <tuple/list of names>}"""
    tab = tc.assigns.get("_time_conversion_functions")
    if isinstance(tab, ast.Dict) and all(isinstance(k, ast.Constant) for k in tab.keys):
        return {k.value: (v.id if isinstance(v, ast.Name) else ast.unparse(v)) for k, v in zip(tab.keys, tab.values)}, tab
    if isinstance(tab, ast.DictComp) and len(tab.generators) == 1 and not tab.generators[0].ifs and isinstance(tab.generators[0].target, ast.Name):
        var = tab.generators[0].target.id
        it = tab.generators[0].iter
        if isinstance(it, ast.Name) and it.id in tc.assigns:
            it = tc.assigns[it.id]
        if ast.unparse(tab.key) == f"{var}.__name__" and ast.unparse(tab.value) == var and isinstance(it, (ast.Tuple, ast.List)) and all(isinstance(e, ast.Name) for e in it.elts):
            return {e.id: e.id for e in it.elts}, tab
    raise AnalysisError("_time_conversion_functions is built in a way Q2 does not know (neither a dict display nor {f.__name__: f for f in (...)}); re-read needed")


def table(ctx, tc, units):
    mapping, tab = resolve_table(tc)
    for k, v in mapping.items():
        ok = v == k and v in tc.functions
        ctx.ob("Q2", ok=ok, distinct=k)
        if not ok:
            ctx.violation("Q2", f"table|{k}|{v}", tc.loc(tab), f"table entry {k!r} maps to {v}, not to the converter of that name")
    for a, b in itertools.permutations(units, 2):
        if f"{a}_to_{b}" not in mapping:
            ctx.ob("Q2", ok=False, distinct=f"{a}_to_{b}")
            ctx.violation("Q2", f"table|{a}_to_{b}|absent", tc.loc(tab), f"table has no entry {a}_to_{b}")
    # ---- creation site: where the table is indexed with an f-string (possibly inside a small helper)
    site = None
    for fn in tc.functions.values():
        for n in ast.walk(fn):
            if isinstance(n, ast.Subscript) and isinstance(n.value, ast.Name) and n.value.id == "_time_conversion_functions" and isinstance(n.slice, ast.JoinedStr):
                site = (fn, n)
    if site is None:
        raise AnalysisError("creation site indexing _time_conversion_functions with an f-string not found")
    sfn, sub = site
    parts = [v.value if isinstance(v, ast.Constant) else ("{" + ast.unparse(v.value) + "}") for v in sub.slice.values]
    creators = [f for f in tc.functions.values() if any(isinstance(n, ast.Call) and ".group(" in ast.unparse(n) and "time_unit" in ast.unparse(n) for n in ast.walk(f))]
    if len(creators) != 1:
        raise AnalysisError("creation function of time conversions (the one reading match.group('time_unit')) not recognised")
    fn = creators[0]
    conv_expr = sub  # expression that yields the converter inside the creation function

    def _calls(f, name):
        return [n for n in ast.walk(f) if isinstance(n, ast.Call) and isinstance(n.func, ast.Name) and n.func.id == name]

    splitter = None
    if sfn is not fn and not _calls(fn, sfn.name) and _calls(sfn, fn.name):
        # the name is taken apart by a helper that returns (base name, unit, group suffix); the creation function calls it
        splitter, fn = fn, sfn
    if sfn is not fn:
        hparams = [a.arg for a in sfn.args.args]
        calls = [n for n in ast.walk(fn) if isinstance(n, ast.Call) and isinstance(n.func, ast.Name) and n.func.id == sfn.name]
        if len(calls) != 1:
            raise AnalysisError(f"helper {sfn.name} is not called exactly once from the creation function")
        c = calls[0]
        bound = {p: ast.unparse(a) for p, a in zip(hparams, c.args)}
        bound.update({kw.arg: ast.unparse(kw.value) for kw in c.keywords})
        parts = ["{" + bound.get(p[1:-1], p[1:-1]) + "}" if p.startswith("{") else p for p in parts]
        conv_expr = c
    src_unit = base = agg = None
    found = {}
    raw_groups = set()  # variables holding match.group(...) as is (None when the group is absent)

    def _group_in(e):
        t = ast.unparse(e)
        hits = [g for g in ("time_unit", "base_name", "aggregation") if f".group('{g}')" in t]
        return hits[0] if len(hits) == 1 else None

    split_groups, split_vars = None, set()
    if splitter is not None:
        rets = [r for r in walk_own(splitter) if isinstance(r, ast.Return) and isinstance(r.value, ast.Tuple)]
        if len(rets) == 1:
            split_groups = [_group_in(e) for e in rets[0].value.elts]
    for n in walk_own(fn):
        if isinstance(n, ast.Assign) and isinstance(n.targets[0], ast.Name):
            g = _group_in(n.value)
            if g:
                found[g] = n.targets[0].id
                if isinstance(n.value, ast.Call):
                    raw_groups.add(n.targets[0].id)
            if splitter is not None and isinstance(n.value, ast.Call) and isinstance(n.value.func, ast.Name) and n.value.func.id == splitter.name:
                split_vars.add(n.targets[0].id)
    for n in walk_own(fn):
        if isinstance(n, ast.Assign) and isinstance(n.targets[0], ast.Tuple) and all(isinstance(e, ast.Name) for e in n.targets[0].elts):
            tg = [e.id for e in n.targets[0].elts]
            v = n.value
            if isinstance(v, ast.Call) and isinstance(v.func, ast.Attribute) and v.func.attr == "group" and len(v.args) == len(tg) and all(isinstance(a, ast.Constant) for a in v.args):
                # base, unit, agg = match.group('base_name', 'time_unit', 'aggregation')
                found.update({a.value: t_ for a, t_ in zip(v.args, tg)})
                raw_groups.update(tg)
            elif split_groups and len(split_groups) == len(tg) and (
                (isinstance(v, ast.Name) and v.id in split_vars) or (isinstance(v, ast.Call) and isinstance(v.func, ast.Name) and v.func.id == splitter.name)
            ):
                found.update({g: t_ for g, t_ in zip(split_groups, tg) if g})
    src_unit, base, agg = found.get("time_unit"), found.get("base_name"), found.get("aggregation")
    loops = [n for n in walk_own(fn) if isinstance(n, ast.For) and conv_expr in list(ast.walk(n)) and isinstance(n.target, ast.Name)]
    comp = None
    if not loops:
        # comprehension form: {new_name: factory(...) for unit, new_name in names.items()} / {f"...": factory(...) for unit in units}
        comps = [n for n in walk_own(fn) if isinstance(n, ast.DictComp) and len(n.generators) == 1 and conv_expr in list(ast.walk(n.value))]
        comp = comps[0] if len(comps) == 1 else None
    if None in (src_unit, base, agg) or (len(loops) != 1 and comp is None):
        raise AnalysisError("creation site of time conversions: source/missing unit variables not recognised")
    name_param = fn.args.args[0].arg

    def _is_factory(c):
        return isinstance(c, ast.Call) and isinstance(c.func, ast.Name) and c.func.id in tc.functions and c.func.id != sfn.name

    if comp is None:
        loop = loops[0]
        miss_unit = loop.target.id
        nn = [n for n in ast.walk(loop) if isinstance(n, ast.Assign) and isinstance(n.value, ast.JoinedStr) and isinstance(n.targets[0], ast.Name)]
        if len(nn) != 1:
            raise AnalysisError("creation site: name of the derived node not recognised")
        nn_loc, nn_expr, name_var = nn[0], nn[0].value, nn[0].targets[0].id
        fac = [n for n in ast.walk(loop) if isinstance(n, ast.Assign) and isinstance(n.targets[0], ast.Subscript) and _is_factory(n.value)]
        if len(fac) != 1:
            raise AnalysisError("creation site: factory call not recognised")
        fac_loc, fac_call, fac_key = fac[0], fac[0].value, ast.unparse(fac[0].targets[0].slice)
    else:
        g = comp.generators[0]
        defs_ = {}
        for n in walk_own(fn):
            if isinstance(n, ast.Assign) and len(n.targets) == 1 and isinstance(n.targets[0], ast.Name):
                defs_.setdefault(n.targets[0].id, []).append(n.value)
        it_ = g.iter
        if (
            isinstance(g.target, ast.Tuple) and len(g.target.elts) == 2 and all(isinstance(e, ast.Name) for e in g.target.elts)
            and isinstance(it_, ast.Call) and isinstance(it_.func, ast.Attribute) and it_.func.attr == "items" and isinstance(it_.func.value, ast.Name)
            and len(defs_.get(it_.func.value.id, [])) == 1 and isinstance(defs_[it_.func.value.id][0], ast.DictComp)
        ):
            d = defs_[it_.func.value.id][0]
            dg = d.generators[0]
            if not (len(d.generators) == 1 and isinstance(dg.target, ast.Name) and isinstance(d.key, ast.Name) and d.key.id == dg.target.id and isinstance(d.value, ast.JoinedStr)):
                raise AnalysisError("creation site: table of derived names not recognised")
            miss_unit, name_var = g.target.elts[0].id, g.target.elts[1].id

            class _Ren(ast.NodeTransformer):
                def visit_Name(self, n):
                    return ast.copy_location(ast.Name(id=miss_unit, ctx=n.ctx), n) if n.id == dg.target.id else n

            nn_loc, nn_expr = d, _Ren().visit(ast.parse(ast.unparse(d.value), mode="eval").body)
        elif isinstance(g.target, ast.Name) and isinstance(comp.key, ast.JoinedStr):
            miss_unit, name_var, nn_loc, nn_expr = g.target.id, None, comp, comp.key
        else:
            raise AnalysisError("creation site: comprehension over the missing units not recognised")
        if not _is_factory(comp.value):
            raise AnalysisError("creation site: factory call not recognised")
        fac_loc, fac_call, fac_key = comp, comp.value, ast.unparse(comp.key)
    ok = parts == ["{" + src_unit + "}", "_to_", "{" + miss_unit + "}"]
    ctx.ob("Q2", ok=ok, distinct="lookup-key")
    if not ok:
        ctx.violation("Q2", "creation|lookup-key|" + "".join(parts), tc.loc(sub), f"converter looked up as {''.join(parts)}; must be {{{src_unit}}}_to_{{{miss_unit}}} (source unit first)")
    # new name; a group that can be None (taken raw from match.group) must be written `{agg or ''}`
    def _part(v):
        if isinstance(v, ast.Constant):
            return v.value
        e = v.value
        if isinstance(e, ast.BoolOp) and isinstance(e.op, ast.Or) and len(e.values) == 2 and isinstance(e.values[1], ast.Constant) and e.values[1].value == "":
            return "{" + ast.unparse(e.values[0]) + "|or-empty}"
        return "{" + ast.unparse(e) + "}"

    nparts = [_part(v) for v in nn_expr.values]
    want_agg = "{" + agg + ("|or-empty}" if agg in raw_groups else "}")
    ok = nparts == ["{" + base + "}", "{" + miss_unit + "}", want_agg]
    ctx.ob("Q2", ok=ok, distinct="new-name")
    if not ok:
        ctx.violation("Q2", "creation|new-name|" + "".join(nparts), tc.loc(nn_loc), f"derived node is named {''.join(nparts)}; must be {{{base}}}{{{miss_unit}}}{{{agg}}} (an absent group suffix as the empty string)")
    # factory call: (source name, info, converter) stored under the new name
    allargs = list(fac_call.args) + [kw.value for kw in fac_call.keywords]
    ok = fac_key in (name_var, ast.unparse(nn_expr) if name_var is None else name_var) and allargs and ast.unparse(allargs[0]) == name_param and any(a is conv_expr or conv_expr in list(ast.walk(a)) for a in allargs)
    ctx.ob("Q2", ok=ok, distinct="factory-call")
    if not ok:
        ctx.violation("Q2", "creation|factory-call", tc.loc(fac_loc), f"`{ast.unparse(fac_loc)[:100]}` does not store converter(source column {name_param}) under the derived name")
    # the factory: inner function applies the converter to its only argument, argument renamed to the source name
    ff = tc.functions[fac_call.func.id]
    fparams = [a.arg for a in ff.args.args]
    inner = [n for n in ff.body if isinstance(n, ast.FunctionDef)]
    if len(inner) != 1 or len(fparams) < 3:
        raise AnalysisError("factory of derived time functions: inner function not recognised")
    inn = inner[0]
    iarg = [a.arg for a in inn.args.args]
    # which factory parameter receives the converter?
    conv_idx = next(i for i, a in enumerate(allargs) if a is conv_expr or conv_expr in list(ast.walk(a)))
    conv_param = fparams[conv_idx] if conv_idx < len(fparams) else None
    ccalls = [n for n in ast.walk(inn) if isinstance(n, ast.Call) and isinstance(n.func, ast.Name) and n.func.id == conv_param]
    ok = len(iarg) == 1 and len(ccalls) == 1 and [ast.unparse(a) for a in ccalls[0].args] == iarg and not ccalls[0].keywords
    rets = [n for n in ast.walk(inn) if isinstance(n, ast.Return)]
    ok = ok and len(rets) == 1 and (rets[0].value is ccalls[0] or (isinstance(rets[0].value, ast.Name) and any(isinstance(x, ast.Assign) and x.value is ccalls[0] and ast.unparse(x.targets[0]) == rets[0].value.id for x in ast.walk(inn)))) if ccalls else False
    ctx.ob("Q2", ok=ok, distinct="factory-body")
    if not ok:
        ctx.violation("Q2", "factory|body", tc.loc(inn), f"derived function returns `{ast.unparse(rets[0].value) if rets else '?'}`, expected {conv_param}({iarg[0] if iarg else 'x'})")
    ren = [d for d in inn.decorator_list if isinstance(d, ast.Call) and "rename_arguments" in ast.unparse(d.func)]
    ok = False
    if ren:
        for kw in ren[0].keywords:
            if kw.arg == "mapper" and isinstance(kw.value, ast.Dict) and len(kw.value.keys) == 1:
                ok = isinstance(kw.value.keys[0], ast.Constant) and kw.value.keys[0].value == iarg[0] and ast.unparse(kw.value.values[0]) == fparams[0]
    ctx.ob("Q2", ok=ok, distinct="factory-rename")
    if not ok:
        ctx.violation("Q2", "factory|rename", tc.loc(inn), f"the derived function's argument is not renamed to the source column ({fparams[0]})")


def conversion_precedence(ctx, tc):
    """conversions derived from data columns take precedence over those derived from functions"""
    fd = find_function(tc, "create_time_conversion_functions", "primary anchor")
    params = [a.arg for a in fd.args.args]
    fparam, dparam = params[0], params[1]
    env = {}
    final = None

    def layer_of(it):
        names = {n.id for n in ast.walk(it) if isinstance(n, ast.Name)}
        if fparam in names:
            return "functions"
        if dparam in names:
            return "data"
        return None

    for st in fd.body:
        if isinstance(st, ast.Assign) and isinstance(st.targets[0], ast.Name):
            t, v = st.targets[0].id, st.value
            if isinstance(v, ast.Dict) and not v.keys:
                env[t] = []
            elif isinstance(v, ast.Dict) and all(k is None for k in v.keys):
                env[t] = [x for op in v.values for x in env.get(ast.unparse(op), ["?"])]
            elif isinstance(v, ast.DictComp):
                lay = None
                for g_ in v.generators:
                    lay = lay or layer_of(g_.iter)
                env[t] = [lay or "?"]
            elif isinstance(v, ast.BinOp) and isinstance(v.op, ast.BitOr):
                env[t] = env.get(ast.unparse(v.left), ["?"]) + env.get(ast.unparse(v.right), ["?"])
        elif isinstance(st, ast.For):
            lay = layer_of(st.iter)
            for n in ast.walk(st):
                if isinstance(n, ast.Call) and isinstance(n.func, ast.Attribute) and n.func.attr == "update" and isinstance(n.func.value, ast.Name) and n.func.value.id in env:
                    env[n.func.value.id] = env[n.func.value.id] + [lay or "?"]
                if isinstance(n, ast.Assign) and isinstance(n.targets[0], ast.Subscript) and isinstance(n.targets[0].value, ast.Name) and n.targets[0].value.id in env:
                    env[n.targets[0].value.id] = env[n.targets[0].value.id] + [lay or "?"]
        elif isinstance(st, ast.Return) and st.value is not None:
            if isinstance(st.value, ast.Name):
                final = env.get(st.value.id)
            elif isinstance(st.value, ast.Dict) and all(k is None for k in st.value.keys):
                final = [x for op in st.value.values for x in env.get(ast.unparse(op), ["?"])]
    if not final or "?" in final:
        raise AnalysisError("create_time_conversion_functions: assembly of the result not recognised; Q2 (precedence) needs a re-read")
    last = []
    for x in final:
        if x in last:
            last.remove(x)
        last.append(x)
    ok = last == ["functions", "data"]
    ctx.ob("Q2", ok=ok, distinct="data-over-functions")
    if not ok:
        ctx.violation("Q2", "precedence|" + "<".join(last), tc.loc(fd) + " create_time_conversion_functions", f"derived time-unit nodes are merged in the order {' < '.join(last)} (later wins); a conversion of a supplied data column must take precedence over one derived from a function, otherwise supplying an input in another unit is partly ignored")


def pattern(ctx, repo, tc):
    calls = [n for n in ast.walk(tc.tree) if isinstance(n, ast.Call) and ast.unparse(n.func) == "re.compile" and n.args and isinstance(n.args[0], (ast.JoinedStr, ast.Name))]
    call = None
    la = dict(tc.assigns)
    for f in tc.functions.values():
        for n in walk_own(f):
            if isinstance(n, ast.Assign) and isinstance(n.targets[0], ast.Name):
                la.setdefault(n.targets[0].id, n.value)
    for c in calls:
        a0 = c.args[0]
        if isinstance(a0, ast.Name) and isinstance(la.get(a0.id), ast.JoinedStr):
            a0 = la[a0.id]
        if isinstance(a0, ast.JoinedStr):
            call, js = c, a0
    if call is None:
        raise AnalysisError("name pattern (re.compile of an f-string) not found in time_conversion.py")
    parts = [v.value if isinstance(v, ast.Constant) else "{" + ast.unparse(v.value) + "}" for v in js.values]
    consts = [p for p in parts if not p.startswith("{")]
    ok = consts == ["(?P<base_name>.*_)(?P<time_unit>[", "])(?P<aggregation>", ")?"]
    ctx.ob("Q4", ok=ok, distinct="pattern-shape")
    if not ok:
        raise AnalysisError(f"name pattern changed shape: {''.join(parts)} - the static DAG model (dagmodel.Dag.time_re) needs a re-read")
    vars_ = [p[1:-1] for p in parts if p.startswith("{")]

    def derives(name, table):
        seen = set()
        stack = [name]
        while stack:
            x = stack.pop()
            if x in seen:
                continue
            seen.add(x)
            if x == table:
                return True
            v = la.get(x)
            if v is not None:
                stack += [m.id for m in ast.walk(v) if isinstance(m, ast.Name)]
        return False

    def expr_derives(txt, table):
        try:
            e = ast.parse(txt, mode="eval")
        except SyntaxError:
            return False
        return any(derives(m.id, table) for m in ast.walk(e) if isinstance(m, ast.Name))

    ok = len(vars_) == 2 and expr_derives(vars_[0], "SUPPORTED_TIME_UNITS") and expr_derives(vars_[1], "SUPPORTED_GROUPINGS")
    ctx.ob("Q4", ok=ok, distinct="pattern-tables")
    if not ok:
        ctx.violation("Q4", "pattern|tables", tc.loc(call), f"pattern variables {vars_} are not derived from SUPPORTED_TIME_UNITS / SUPPORTED_GROUPINGS")
    pv = None
    for n in ast.walk(tc.tree):
        if isinstance(n, ast.Assign) and n.value is call and isinstance(n.targets[0], ast.Name):
            pv = n.targets[0].id
    uses = [n for n in ast.walk(tc.tree) if isinstance(n, ast.Call) and isinstance(n.func, ast.Attribute) and isinstance(n.func.value, ast.Name) and n.func.value.id == pv]
    ok = bool(uses) and all(u.func.attr == "fullmatch" for u in uses)
    ctx.ob("Q4", ok=ok, distinct="fullmatch")
    if not ok:
        ctx.violation("Q4", "pattern|fullmatch", tc.loc(call), "the name pattern is not applied with fullmatch (a suffix/prefix match would mis-classify names)")


def families(ctx, s):
    repo = s.repo
    start = datetime.date(1980, 1, 1)
    dates = [f for f, _ in s.em.intervals(start)]
    checked = set()
    for d in dates:
        dag = s.dag(d)
        fam = {}
        for name in list(dag.all) + list(dag.data):
            m = dag.time_re.fullmatch(name)
            if not m:
                continue
            node = dag.all.get(name)
            explicit = node is None or node.kind != "time"
            fam.setdefault((m.group("base_name"), m.group("aggregation") or ""), {})[m.group("time_unit")] = (name, node, explicit)
        for key, mem in fam.items():
            ex = {u: v for u, v in mem.items() if v[2]}
            if len(ex) <= 1:
                ctx.ob("Q3", ok=True, distinct=key)
                continue
            # aggregates of explicit members are fine if their sources are related; relate through rules only
            for (u1, a), (u2, b) in itertools.combinations(sorted(ex.items()), 2):
                tag = (a[0], b[0])
                rel = _literal_conversion(a, b, u1, u2) or _literal_conversion(b, a, u2, u1)
                if rel is None:
                    rel = _same_sources(dag, a, b, u1, u2)
                ok = rel is True
                if ok:
                    # a literal conversion is exact only if neither side is rounded on its own grid afterwards
                    rk = [(x[1].rule.rounding_key if x[1] is not None and x[1].rule is not None else None) for x in (a, b)]
                    if rk[0] != rk[1] or (rk[0] is not None):
                        params, _, _ = s.em.params(d)
                        specs = []
                        for x, k in zip((a, b), rk):
                            grp = params.get(k) if k else None
                            specs.append((grp or {}).get("rounding", {}).get(x[0]) if isinstance(grp, dict) else None)
                        if any(sp is not None for sp in specs) or rk[0] != rk[1]:
                            rel = f"{a[0]} is rounded with {specs[0] or rk[0]}, {b[0]} with {specs[1] or rk[1]}: after rounding the two no longer differ by the unit factor"
                            ok = False
                if tag not in checked:
                    checked.add(tag)
                ctx.ob("Q3", ok=ok, distinct=tag)
                if not ok:
                    where = (a[1].rule.where if a[1] is not None and a[1].rule else (b[1].rule.where if b[1] is not None and b[1].rule else a[0]))
                    ctx.violation("Q3", f"family|{a[0]}|{b[0]}|{rel}", where, f"at {d} both {a[0]} and {b[0]} exist independently (not derived from one another){': ' + rel if isinstance(rel, str) else ''}; their ratio is not pinned to the unit factor")
        if ctx.tier == "thorough" or d == dates[0] or d == dates[-1]:
            order, cycle = dag.reach(list(dag.nodes))
            ctx.ob("Q3", ok=cycle is None, distinct=("acyclic", str(d)))
            if cycle:
                ctx.violation("Q3", "cycle|" + " -> ".join(cycle), str(d), f"with all derived nodes the graph at {d} has the cycle {' -> '.join(cycle)}")
    ctx.extra_cov["intervals"] = len(dates)
    ctx.extra_cov["explicit_pairs"] = sorted(map(str, checked))[:20]


def _literal_conversion(a, b, ua, ub):
    """a is a rule `return c * b_name` with c == N[ub]/N[ua]?  True / str reason / None (not of that shape)"""
    name_a, node_a, _ = a
    name_b = b[0]
    if node_a is None or node_a.kind != "rule":
        return None
    r = node_a.rule
    if r.data_args != [name_b]:
        return None
    from staticlib.ratfold import fold_function as ff

    try:
        m = ff(_single_arg_view(r.node, name_b), {})
    except NotFoldable:
        return None
    want = N[ub] / N[ua]
    if m.k == 1 and m.c == want:
        return True
    return f"{name_a} = {m.c} * {name_b}^{m.k}, unit factor is {want}"


def _single_arg_view(fd, keep):
    import copy

    fd2 = copy.deepcopy(fd)
    fd2.args.args = [a for a in fd2.args.args if a.arg == keep]
    return fd2


def _same_sources(dag, a, b, u1, u2):
    """both members are aggregates (or time-converted aggregates) of members of one family"""
    na, nb = a[1], b[1]
    if na is not None and nb is not None and na.kind == nb.kind and na.kind in ("grp_agg", "pid_agg"):
        sa, sb = na.spec.get("source_col"), nb.spec.get("source_col")
        ma, mb = dag.time_re.fullmatch(sa or ""), dag.time_re.fullmatch(sb or "")
        if ma and mb and ma.group("base_name") == mb.group("base_name") and na.spec.get("aggr") == nb.spec.get("aggr") == "sum":
            return True
    return "independent definitions"


def creation_guard(ctx, tc):
    """Q5: whether a unit variant is derived depends on names only - the function's name matching the unit pattern,
    the new name not being one of its own arguments / already present.  A condition on any other property of the
    function (its annotations, its module, ...) leaves some columns without their y/m/w/d variants."""
    from staticlib.guards import Dominance

    ctx.rule("Q5", "a time-unit variant is created for every function whose name matches the unit pattern: the creating statement is guarded only by the name match and by name-membership tests, not by other properties of the function object")
    fn = find_function(tc, "_create_time_conversion_functions", "primary anchor")
    params = [a.arg for a in fn.args.args]
    # the creating calls themselves (stored by subscript assignment or as the value of a dict comprehension):
    # the conditions dominating a call include enclosing ifs, guard clauses and comprehension filters
    stores = [c for c in ast.walk(fn) if isinstance(c, ast.Call) and isinstance(c.func, ast.Name) and c.func.id == "_create_function_for_time_unit"]
    if not stores:
        raise AnalysisError("_create_time_conversion_functions: the statement creating a derived function was not found; Q5 needs a re-read")
    # names derived from the function object (second parameter), except through its signature (argument names)
    fobj = params[1] if len(params) > 1 else "func"
    derived = {fobj}
    sig_derived = set()
    for _ in range(3):
        for a in ast.walk(fn):
            if isinstance(a, ast.Assign) and len(a.targets) == 1 and isinstance(a.targets[0], ast.Name):
                names = {x.id for x in ast.walk(a.value) if isinstance(x, ast.Name)}
                if names & derived:
                    if "signature" in ast.unparse(a.value) or "parameters" in ast.unparse(a.value) or (names & sig_derived and not (names & (derived - sig_derived))):
                        sig_derived.add(a.targets[0].id)
                    derived.add(a.targets[0].id)
    dom = Dominance(fn)
    for st in stores:
        bad = []
        for t, pol in dom.of(st):
            names = {x.id for x in ast.walk(t) if isinstance(x, ast.Name)}
            other = (names & derived) - sig_derived
            if other and not (names == {fobj} and isinstance(t, ast.Name)):
                bad.append(t)
        ctx.ob("Q5", ok=not bad, distinct=st.lineno)
        for t in bad:
            ctx.violation("Q5", f"creation-guard|{ast.unparse(t)[:60]}", tc.loc(t) + " _create_time_conversion_functions", f"derived unit variants are created only if `{ast.unparse(t)[:80]}`: functions for which this property of the function object fails get no y/m/w/d variants although their names carry a time unit")
    ctx.floor("Q5", 1)


def phases(ctx, repo):
    """PH: order and inputs of the derivation phases - pointer aggregates from the rules; unit variants from rules and
    pointer aggregates; group aggregates from unit variants, rules and pointer aggregates (all as *functions*, the
    data columns separately).  (This is also the wiring the static DAG model assumes.)"""
    ctx.rule("PH", "_create_derived_functions hands the unit variants to the group-aggregation step as functions (so that an existing variant is not shadowed by an automatic sum) and the caller's data columns, unchanged, as data")
    fl = repo.module("functions_loader.py")
    fn = find_function(fl, "_create_derived_functions", "primary anchor")
    la = {}
    for a in walk_own(fn):
        if isinstance(a, ast.Assign) and len(a.targets) == 1 and isinstance(a.targets[0], ast.Name):
            la[a.targets[0].id] = a.value

    def operands(e, depth=0):
        """names merged into one mapping/list: {**a, **b}, a | b, [*a, *b], or a plain name"""
        if isinstance(e, ast.Name):
            v = la.get(e.id)
            if v is not None and depth < 3 and not isinstance(v, ast.Call):
                r = operands(v, depth + 1)
                if r is not None:
                    return r
            return {e.id}
        if isinstance(e, ast.Dict) and all(k is None for k in e.keys):
            out = set()
            for v in e.values:
                r = operands(v, depth)
                if r is None:
                    return None
                out |= r
            return out
        if isinstance(e, ast.BinOp) and isinstance(e.op, ast.BitOr):
            a, b = operands(e.left, depth), operands(e.right, depth)
            return None if a is None or b is None else a | b
        if isinstance(e, (ast.List, ast.Tuple, ast.Set)) and all(isinstance(x, ast.Starred) for x in e.elts):
            out = set()
            for x in e.elts:
                r = operands(x.value, depth)
                if r is None:
                    return None
                out |= r
            return out
        return None

    def producer(name):
        v = la.get(name)
        if isinstance(v, ast.Call):
            return ast.unparse(v.func)
        return None

    calls = {ast.unparse(c.func): c for c in ast.walk(fn) if isinstance(c, ast.Call) and ast.unparse(c.func) in ("_create_aggregate_by_group_functions", "create_time_conversion_functions", "_create_aggregate_by_p_id_functions")}
    if len(calls) != 3:
        raise AnalysisError("_create_derived_functions no longer calls the three derivation steps; PH needs a re-read")
    pparams = [a.arg for a in fn.args.args]
    dparam = next((p for p in pparams if "data" in p), None)
    roles = {}
    for nm in la:
        pr = producer(nm)
        if pr in calls:
            roles[nm] = pr

    def role_set(names):
        return {roles.get(n, "rules" if n in pparams else n) for n in names}

    checks = [
        ("create_time_conversion_functions", {"rules", "_create_aggregate_by_p_id_functions"}),
        ("_create_aggregate_by_group_functions", {"rules", "_create_aggregate_by_p_id_functions", "create_time_conversion_functions"}),
    ]
    for cname, want in checks:
        c = calls[cname]
        args = list(c.args) + [kw.value for kw in c.keywords]
        f_ops = operands(args[0]) if args else None
        if f_ops is None:
            raise AnalysisError(f"{cname}: first argument is not a merge of function dictionaries; PH needs a re-read")
        got = role_set(f_ops)
        ok_f = got == want
        d_arg = next((a for a in args[1:] if operands(a) is not None and dparam in (operands(a) or set())), None)
        d_ops = operands(d_arg) if d_arg is not None else None
        ok_d = d_ops == {dparam}
        ctx.ob("PH", ok=ok_f and ok_d, distinct=cname)
        if not ok_f:
            ctx.violation("PH", f"{cname}|functions|{'+'.join(sorted(got))}", fl.loc(c) + " _create_derived_functions", f"{cname} receives as functions {sorted(got)}, expected {sorted(want)}: " + ("unit variants that exist already are not seen as functions, an automatic group sum of the same name shadows them" if "create_time_conversion_functions" in want - got else "derived columns enter a step that must not see them"))
        if not ok_d:
            ctx.violation("PH", f"{cname}|data|{'+'.join(sorted(role_set(d_ops or set())))}", fl.loc(c) + " _create_derived_functions", f"{cname} receives as data columns {sorted(role_set(d_ops or set()))} instead of the caller's data columns only: derived functions are mistaken for supplied data")
    ctx.floor("PH", 2)
