"""C11 - group and person-pointer aggregates equal their mathematical definition (partial).

S-dispatch  every spec kind k is wired to grouped_k / k_by_p_id with arguments in the callee's role
            order; every backend dispatcher calls <name>_jax / <name>_numpy imported under that
            name from the matching backend module (42 sibling instances).
SPEC        built-in specs are valid at every interval (kind implemented, source present, group
            suffix, integer pointer column, no key defined twice).
PREC        final spec dictionaries are assembled automatic < built-in < user (later wins).
RT          the result-type rule folded on the (type x kind) grid equals the documented table."""
from __future__ import annotations

import ast
import datetime

from staticlib.absint import Conc, Interp
from staticlib.common import AnalysisError
from staticlib.session import get_session
from staticlib.srcmodel import find_function, walk_own

from .c08 import implemented_agg_kinds

KINDS = ["count", "sum", "mean", "max", "min", "any", "all"]
ROLE = {"column": "col", "source_col": "col", "group_id": "gid", "p_id_to_aggregate_by": "ptr", "p_id_to_store_by": "pid"}


def check(ctx):
    s = get_session(ctx.root)
    repo = s.repo
    ctx.assumptions += ["that numpy_groupies.aggregate(...)[group_id] is the sum/mean/... over the members is third-party semantics and not decided"]
    dispatch(ctx, repo)
    backends(ctx, repo)
    specs(ctx, s)
    precedence(ctx, repo)
    result_type(ctx, repo)
    kernel_functions(ctx, repo)
    from ._wholecol import kernel_hygiene, whole_column_functions
    from .c05 import aggregates_built_for_supplied_names

    aggregates_built_for_supplied_names(ctx, repo)
    ctx.rule("W10", "a kernel never stores into one of its argument arrays")
    ctx.rule("W11", "a result buffer is not allocated with the dtype of a caller-supplied fill value and then filled with a column's values")
    for mod_, fd_, kind_ in whole_column_functions(repo):
        if kind_ not in ("aggregation", "join"):
            continue
        fs_ = [f for f in kernel_hygiene(mod_, fd_, kind_) if f[0] in ("W10", "W11")]
        for rid_ in ("W10", "W11"):
            ctx.ob(rid_, ok=not [f for f in fs_ if f[0] == rid_], distinct=(mod_.rel, fd_.name))
        for rid_, key_, ln_, msg_ in fs_:
            ctx.violation(rid_, f"{mod_.rel}:{fd_.name}|{key_}", f"src/_gettsim/{mod_.rel}:{ln_} {fd_.name}", msg_)
    from .c01 import index_spaces

    index_spaces(ctx, repo, "IX")


def _is_kernel(name):
    return name.startswith("grouped_") or name.endswith("_by_p_id")


def _resolve_kind(fd, k):
    """partial evaluation of an aggregate factory for spec kind `k`: follows the if / match statements whose
    subject is agg_specs['aggr'] (directly or through a local alias) and returns
    (inner function definitions on the taken path, {local name: kernel bound to it}, raised?)"""
    aliases, binds, inners = set(), {}, []
    state = {"raised": False}

    def is_aggr(e):
        if isinstance(e, ast.Name):
            return e.id in aliases
        return isinstance(e, ast.Subscript) and isinstance(e.slice, ast.Constant) and e.slice.value == "aggr"

    def test_val(t):
        if isinstance(t, ast.Compare) and len(t.ops) == 1:
            l, r, op = t.left, t.comparators[0], t.ops[0]
            if is_aggr(r) and not is_aggr(l):
                l, r = r, l
            if is_aggr(l):
                if isinstance(r, ast.Constant) and isinstance(op, (ast.Eq, ast.NotEq)):
                    return (r.value == k) == isinstance(op, ast.Eq)
                if isinstance(r, (ast.Tuple, ast.List, ast.Set)) and all(isinstance(x, ast.Constant) for x in r.elts) and isinstance(op, (ast.In, ast.NotIn)):
                    return (k in [x.value for x in r.elts]) == isinstance(op, ast.In)
            return None
        if isinstance(t, ast.UnaryOp) and isinstance(t.op, ast.Not):
            v = test_val(t.operand)
            return None if v is None else not v
        if isinstance(t, ast.BoolOp):
            vs = [test_val(v) for v in t.values]
            if isinstance(t.op, ast.And):
                return False if False in vs else (True if all(v is True for v in vs) else None)
            return True if True in vs else (False if all(v is False for v in vs) else None)
        return None

    def pat_matches(p):
        if isinstance(p, ast.MatchValue) and isinstance(p.value, ast.Constant):
            return p.value.value == k
        if isinstance(p, ast.MatchOr):
            return any(pat_matches(x) for x in p.patterns)
        if isinstance(p, ast.MatchAs) and p.pattern is None:
            return True
        return None

    def run(stmts, definite=True):
        for st in stmts:
            if state["raised"]:
                return
            if isinstance(st, ast.Assign) and len(st.targets) == 1 and isinstance(st.targets[0], ast.Name):
                nm, v = st.targets[0].id, st.value
                if is_aggr(v):
                    aliases.add(nm)
                elif isinstance(v, ast.Name) and _is_kernel(v.id):
                    binds[nm] = v.id
                elif isinstance(v, ast.Name) and v.id in binds:
                    binds[nm] = binds[v.id]
                elif isinstance(v, ast.Subscript) and isinstance(v.value, ast.Dict) and is_aggr(v.slice):
                    for kk, vv in zip(v.value.keys, v.value.values):
                        if isinstance(kk, ast.Constant) and kk.value == k and isinstance(vv, ast.Name):
                            binds[nm] = vv.id
                elif isinstance(v, ast.Subscript) and isinstance(v.value, ast.Name) and is_aggr(v.slice) and v.value.id in tables:
                    if k in tables[v.value.id]:
                        binds[nm] = tables[v.value.id][k]
                elif isinstance(v, ast.Dict) and v.keys and all(isinstance(kk, ast.Constant) for kk in v.keys) and all(isinstance(vv, ast.Name) and _is_kernel(vv.id) for vv in v.values):
                    tables[nm] = {kk.value: vv.id for kk, vv in zip(v.keys, v.values)}
            elif isinstance(st, ast.FunctionDef):
                inners.append(st)
            elif isinstance(st, ast.If):
                v = test_val(st.test)
                if v is None:
                    run(st.body, False)
                    run(st.orelse, False)
                else:
                    run(st.body if v else st.orelse, definite)
            elif isinstance(st, ast.Match) and is_aggr(st.subject):
                for c in st.cases:
                    m = pat_matches(c.pattern)
                    if m and c.guard is None:
                        run(c.body, definite)
                        break
            elif isinstance(st, ast.Raise):
                if definite:
                    state["raised"] = True
                return
            elif isinstance(st, (ast.With, ast.Try)):
                run(st.body, definite)

    tables = {}
    run(fd.body)
    return inners, binds, state["raised"]


def dispatch(ctx, repo):
    ctx.rule("S-dispatch", "in both aggregate factories the branch for kind k defines a function that returns grouped_k(...) / k_by_p_id(...) applied to its own parameters in the callee's role order, and the renaming maps each role to the spec field / id column of that role")
    fl = repo.module("functions_loader.py")
    ag = repo.module("aggregation.py")
    for facname, pat in (("_create_one_aggregate_by_group_func", "grouped_{k}"), ("_create_one_aggregate_by_p_id_func", "{k}_by_p_id")):
        fd = find_function(fl, facname, "primary anchor")
        br = {}
        for k in KINDS:
            inners, binds, raised = _resolve_kind(fd, k)
            if len(inners) == 1:
                br[k] = (binds, inners[0])
            elif len(inners) > 1:
                raise AnalysisError(f"{facname}, kind {k!r}: {len(inners)} inner functions on the path selected by the kind; S-dispatch needs a re-read")
        missing = [k for k in KINDS if k not in br]
        if len(br) < 5:
            raise AnalysisError(f"{facname}: only {len(br)} kind branches recognised; S-dispatch needs a re-read")
        for k in missing:
            ctx.ob("S-dispatch", ok=False, distinct=(facname, k))
            ctx.violation("S-dispatch", f"{facname}|{k}|no-branch", fl.loc(fd), f"{facname} has no branch for aggregation kind {k!r}")
        for k, (binds, inner) in sorted(br.items()):
            want = pat.format(k=k)
            # the unique call of an aggregation kernel inside the inner function (returned directly or via a local);
            # a name bound to a kernel by the dispatch (`agg = grouped_sum`) counts as that kernel
            kcalls = [n for n in ast.walk(inner) if isinstance(n, ast.Call) and isinstance(n.func, ast.Name) and (_is_kernel(n.func.id) or n.func.id in binds)]
            if len(kcalls) != 1:
                raise AnalysisError(f"{facname}, kind {k!r}: inner function does not contain exactly one kernel call; S-dispatch needs a re-read")
            ok = False
            msg = ""
            if True:
                call = kcalls[0]
                callee = binds.get(call.func.id, call.func.id)
                iparams = [a.arg for a in inner.args.args]
                cargs = [ast.unparse(a) for a in call.args] + [f"{kw.arg}={ast.unparse(kw.value)}" for kw in call.keywords]
                if callee != want:
                    msg = f"calls {callee} instead of {want}"
                elif callee not in ag.functions:
                    msg = f"{callee} is not defined in aggregation.py"
                else:
                    cparams = [a.arg for a in ag.functions[callee].args.args]
                    # positional call: i-th argument must have the role of the callee's i-th parameter
                    if call.keywords:
                        bound = {kw.arg: ast.unparse(kw.value) for kw in call.keywords}
                        roles_ok = all(ROLE.get(p) == ROLE.get(v) for p, v in bound.items()) and set(bound) == set(cparams)
                    else:
                        roles_ok = len(cargs) == len(cparams) and all(ROLE.get(a) is not None and ROLE.get(a) == ROLE.get(p) for a, p in zip(cargs, cparams))
                    if not roles_ok:
                        msg = f"{callee}({', '.join(cargs)}) does not match the callee's parameters ({', '.join(cparams)}) role by role"
                    elif set(cargs if not call.keywords else bound.values()) != set(iparams):
                        msg = f"does not pass exactly its own parameters {iparams}"
                    else:
                        ok = True
            ctx.ob("S-dispatch", ok=ok, distinct=(facname, k))
            if not ok:
                ctx.violation("S-dispatch", f"{facname}|{k}|{msg}", fl.loc(inner), f"{facname}, kind {k!r}: {msg}")
            else:
                ctx.sample({"factory": facname, "kind": k, "calls": want}) if k in ("sum", "max") else None
        # mapper: role -> spec field / id column
        for n in ast.walk(fd):
            if isinstance(n, ast.Dict) and n.keys and all(isinstance(x, ast.Constant) and x.value in ROLE for x in n.keys if x is not None) and all(x is not None for x in n.keys):
                for kk, vv in zip(n.keys, n.values):
                    role = ROLE[kk.value]
                    vt = ast.unparse(vv)
                    good = {
                        "col": vt in ("agg_specs['source_col']",),
                        "gid": vt in ("group_id",),
                        "ptr": vt in ("agg_specs['p_id_to_aggregate_by']",),
                        "pid": vt in ("'p_id'",),
                    }[role]
                    ctx.ob("S-dispatch", ok=good, distinct=(facname, "mapper", kk.value, vt))
                    if not good:
                        ctx.violation("S-dispatch", f"{facname}|mapper|{kk.value}|{vt}", fl.loc(kk), f"{facname}: argument {kk.value!r} (role {role}) is renamed to {vt}")
    ctx.floor("S-dispatch", 14 + 6)


def backends(ctx, repo):
    ctx.rule("S-backend", "each dispatcher f of aggregation.py returns f_jax(args) under USE_JAX and f_numpy(args) otherwise, with its own parameters in order; f_jax / f_numpy are imported as `f` from aggregation_jax / aggregation_numpy")
    ag = repo.module("aggregation.py")
    n = 0
    for name, fd in ag.functions.items():
        if not (name.startswith("grouped_") or name.endswith("_by_p_id")):
            continue
        n += 1
        params = [a.arg for a in fd.args.args]
        ifs = [x for x in fd.body if isinstance(x, ast.If)]
        ok = False
        msg = "body is not `if USE_JAX: return f_jax(...) else: return f_numpy(...)`"
        body_ = [x for x in fd.body if not (isinstance(x, ast.Expr) and isinstance(x.value, ast.Constant))]
        other = None
        if len(ifs) == 1 and ast.unparse(ifs[0].test) == "USE_JAX" and len(ifs[0].body) == 1:
            if len(ifs[0].orelse) == 1:
                other = ifs[0].orelse[0]
            elif not ifs[0].orelse and len(body_) == 2 and body_[0] is ifs[0] and isinstance(body_[1], ast.Return):
                other = body_[1]  # `if USE_JAX: return f_jax(...)` followed by `return f_numpy(...)`
        if other is not None:
            problems = []
            for branch, suffix, modname in ((ifs[0].body[0], "_jax", "_gettsim.aggregation_jax"), (other, "_numpy", "_gettsim.aggregation_numpy")):
                if not (isinstance(branch, ast.Return) and isinstance(branch.value, ast.Call) and isinstance(branch.value.func, ast.Name)):
                    problems.append("branch is not a return of a call")
                    continue
                c = branch.value
                if c.func.id != name + suffix:
                    problems.append(f"calls {c.func.id} instead of {name + suffix}")
                imp = ag.imports.get(c.func.id)
                if imp != (modname, name):
                    problems.append(f"{c.func.id} is imported as {imp}, expected {name} from {modname}")
                args = [ast.unparse(a) for a in c.args]
                if args != params or c.keywords:
                    problems.append(f"forwards ({', '.join(args)}) instead of ({', '.join(params)})")
            ok = not problems
            msg = "; ".join(problems)
        ctx.ob("S-backend", ok=ok, distinct=name, n=2)
        if not ok:
            ctx.violation("S-backend", f"{name}|{msg}", ag.loc(fd) + f" {name}", f"dispatcher {name}: {msg}")
    # the numpy backend defines every function under that name with the same arity
    npb = repo.module("aggregation_numpy.py")
    for name, fd in ag.functions.items():
        if name.startswith("grouped_") or name.endswith("_by_p_id"):
            tgt = npb.functions.get(name)
            ok = tgt is not None and [a.arg for a in tgt.args.args] == [a.arg for a in fd.args.args]
            ctx.ob("S-backend", ok=ok, distinct=(name, "numpy-signature"))
            if not ok:
                ctx.violation("S-backend", f"{name}|numpy-signature", npb.loc(tgt) if tgt else npb.loc(npb.tree), f"aggregation_numpy.{name} is missing or has other parameters than the dispatcher")
    if n < 14:
        raise AnalysisError(f"only {n} backend dispatchers found; floor is 14")


def specs(ctx, s):
    repo = s.repo
    ctx.rule("SPEC", "built-in specs: `aggr` is one of the seven kinds and implemented for its factory; source_col present unless count; the key carries a group suffix (group specs); the pointer column is an int input or rule; no key is defined in two dictionaries")
    grp, pid, origin, problems = repo.agg_specs
    impl = implemented_agg_kinds(repo)
    for k, a, b in problems:
        ctx.ob("SPEC", ok=False, distinct=("dup", k))
        ctx.violation("SPEC", f"duplicate|{k}", f"{b}", f"aggregation key {k} is defined in {a} and again in {b} (the loader rejects this at every call)")
    for k, sp in grp.items():
        probs = _spec_problems(repo, k, sp, group=True)
        ctx.ob("SPEC", ok=not probs, distinct=("grp", k))
        for pr in probs:
            ctx.violation("SPEC", f"grp|{k}|{pr}", origin.get((True, k), k), f"group aggregate {k}: {pr}")
    start = datetime.date(1980, 1, 1)
    dates = [f for f, _ in s.em.intervals(start)]
    for k, sp in pid.items():
        probs = _spec_problems(repo, k, sp, group=False)
        aggr = sp.get("aggr")
        f = impl.get(f"{aggr}_by_p_id")
        if aggr in KINDS and (f is None or not f["implemented"]):
            probs.append(f"kind {aggr!r} is not implemented for pointer aggregates (bare NotImplementedError)")
        ctx.ob("SPEC", ok=not probs, distinct=("pid", k))
        for pr in probs:
            ctx.violation("SPEC", f"pid|{k}|{pr}", origin.get((False, k), k), f"pointer aggregate {k}: {pr}")
        ptr = sp.get("p_id_to_aggregate_by")
        for d in dates:
            dag = s.dag(d)
            if k not in dag.nodes:
                continue
            pk = s.producer_kind(dag, ptr)
            ok = pk == {"int"}
            ctx.ob("SPEC", ok=ok, distinct=("ptr", k, ptr))
            if not ok:
                ctx.violation("SPEC", f"pid|{k}|pointer {ptr}|{pk}", origin.get((False, k), k), f"at {d} pointer column {ptr} of {k} is {'not available' if pk is None else 'produced as ' + str(sorted(pk))}; pointers must be integer person ids")
                break
    ctx.floor("SPEC", 100)


def _spec_problems(repo, k, sp, group):
    probs = []
    if not isinstance(sp, dict):
        return ["spec is not a mapping"]
    aggr = sp.get("aggr")
    if aggr not in KINDS:
        probs.append(f"aggr {aggr!r} is not one of {KINDS}")
    if aggr != "count" and "source_col" not in sp:
        probs.append("source_col missing")
    if group and repo.group_suffix(k) is None:
        probs.append("key has no group suffix")
    if not group and "p_id_to_aggregate_by" not in sp:
        probs.append("p_id_to_aggregate_by missing")
    unknown = set(sp) - {"aggr", "source_col", "p_id_to_aggregate_by"}
    if unknown:
        probs.append(f"unknown spec keys {sorted(unknown)}")
    # an aggregate named with a time unit keeps the unit of its source (sums / max / ... do not convert units);
    # an explicitly specified `x_y` with a monthly source also blocks the derivation of the correct 12-fold variant
    src = sp.get("source_col")
    if isinstance(src, str) and aggr in ("sum", "mean", "max", "min"):
        import re as _re

        units = "|".join(_re.escape(u) for u in repo.time_units)
        grp_sfx = "|".join(_re.escape(g) for g in repo.groupings)
        pat = _re.compile(rf".*_(?P<u>{units})(_(?:{grp_sfx}))?$")
        mk, ms = pat.match(k), pat.match(src)
        if mk and ms and mk.group("u") != ms.group("u"):
            probs.append(f"is named as a per-{mk.group('u')} amount but aggregates the per-{ms.group('u')} column {src}: the value is off by the unit factor, and the explicit entry keeps the correctly converted variant from being derived")
    return probs


def precedence(ctx, repo):
    ctx.rule("PREC", "the spec dictionary from which group aggregates are created is assembled automatic < built-in < user, the one for pointer aggregates built-in < user (later operand wins)")
    fl = repo.module("functions_loader.py")
    for facname, want in (("_create_aggregate_by_group_functions", ["auto", "builtin", "user"]), ("_create_aggregate_by_p_id_functions", ["builtin", "user"])):
        fd = find_function(fl, facname, "primary anchor")
        params = [a.arg for a in fd.args.args]
        userp = [p for p in params if "spec" in p]
        if len(userp) != 1:
            raise AnalysisError(f"{facname}: user-spec parameter not recognised")
        env = {userp[0]: ["user"]}
        final = None
        unknown = None
        for st in fd.body:
            if isinstance(st, ast.Assign) and isinstance(st.targets[0], ast.Name):
                v = st.value
                t = st.targets[0].id
                if isinstance(v, ast.Call) and isinstance(v.func, ast.Name) and v.func.id == "load_aggregation_dict":
                    env[t] = ["builtin"]
                elif isinstance(v, ast.DictComp) and "'aggr': 'sum'" in ast.unparse(v):
                    env[t] = ["auto"]
                elif isinstance(v, ast.Dict) and v.keys and all(k is None for k in v.keys):
                    layers = []
                    for op in v.values:
                        if isinstance(op, ast.Name) and op.id in env:
                            layers += env[op.id]
                        elif isinstance(op, ast.Call) and isinstance(op.func, ast.Name) and op.func.id == "load_aggregation_dict":
                            layers += ["builtin"]
                        elif isinstance(op, ast.DictComp) and "'aggr': 'sum'" in ast.unparse(op):
                            layers += ["auto"]
                        else:
                            unknown = ast.unparse(op)
                    env[t] = layers
                elif isinstance(v, ast.BinOp) and isinstance(v.op, ast.BitOr) and all(isinstance(x, ast.Name) and x.id in env for x in (v.left, v.right)):
                    env[t] = env[v.left.id] + env[v.right.id]
                elif isinstance(v, ast.DictComp) and any(isinstance(c, ast.Call) and isinstance(c.func, ast.Name) and c.func.id.startswith("_create_one_aggregate") for c in ast.walk(v)):
                    it = v.generators[0].iter
                    src = it.func.value.id if isinstance(it, ast.Call) and isinstance(it.func, ast.Attribute) and isinstance(it.func.value, ast.Name) else None
                    final = env.get(src)
            elif isinstance(st, ast.Expr) and isinstance(st.value, ast.Call) and isinstance(st.value.func, ast.Attribute) and st.value.func.attr == "update" and isinstance(st.value.func.value, ast.Name):
                t = st.value.func.value.id
                a = st.value.args[0] if st.value.args else None
                if t in env and isinstance(a, ast.Name) and a.id in env:
                    env[t] = env[t] + env[a.id]
        if final is None or unknown:
            raise AnalysisError(f"{facname}: assembly of the spec dictionary not recognised ({unknown or 'final dictionary not found'}); PREC needs a re-read")
        # order of last occurrences
        last = []
        for x in final:
            if x in last:
                last.remove(x)
            last.append(x)
        ok = last == want
        ctx.ob("PREC", ok=ok, distinct=facname, n=len(want))
        ctx.sample({"factory": facname, "layers_in_order_of_precedence": last})
        if not ok:
            ctx.violation("PREC", f"{facname}|{'<'.join(last)}", fl.loc(fd) + f" {facname}", f"{facname} assembles specs in the order {' < '.join(last)} (later wins); documented precedence is {' < '.join(want)}")


def result_type(ctx, repo):
    ctx.rule("RT", "_select_return_type(kind, source type): int with any/all -> bool, bool with sum -> int, otherwise the source type; count -> int")
    fl = repo.module("functions_loader.py")
    fd = find_function(fl, "_select_return_type", "primary anchor")
    params = [a.arg for a in fd.args.args]
    if len(params) != 2:
        raise AnalysisError("_select_return_type signature changed")
    for t in (int, float, bool):
        for k in KINDS[1:]:
            it = Interp(repo, fl)
            res, _ = it.run_function(fd, {params[0]: Conc(k), params[1]: Conc(t)})
            want = bool if (t is int and k in ("any", "all")) else int if (t is bool and k == "sum") else t
            got = res.v if isinstance(res, Conc) else None
            ok = got is want
            ctx.ob("RT", ok=ok, distinct=(t.__name__, k))
            if not ok:
                ctx.violation("RT", f"{t.__name__}|{k}|{getattr(got, '__name__', got)}", fl.loc(fd) + " _select_return_type", f"result type of {k}({t.__name__}) is {getattr(got, '__name__', got)}, documented: {want.__name__}")
    an = find_function(fl, "_annotations_for_aggregation", "primary anchor")
    txt = ast.unparse(an)
    ok = "annotations['return'] = int" in txt and "== 'count'" in txt
    ctx.ob("RT", ok=ok, distinct="count")
    if not ok:
        ctx.violation("RT", "count-type", fl.loc(an), "count aggregates are no longer annotated int")
    return_annotation_sites(ctx, repo, "RT")


def return_annotation_sites(ctx, repo, rid):
    """every branch of _annotations_for_aggregation that knows the source type sets the aggregate's type through
    the result-type rule (sibling agreement of the branches: rule-valued source, input-valued source)"""
    fl = repo.module("functions_loader.py")
    an = find_function(fl, "_annotations_for_aggregation", "primary anchor")
    la = {}
    for n in ast.walk(an):
        if isinstance(n, ast.Assign) and len(n.targets) == 1 and isinstance(n.targets[0], ast.Name):
            la[n.targets[0].id] = n.value
    sites = [n for n in ast.walk(an) if isinstance(n, ast.Assign) and len(n.targets) == 1 and isinstance(n.targets[0], ast.Subscript)
             and isinstance(n.targets[0].slice, ast.Constant) and n.targets[0].slice.value == "return"]
    if len(sites) < 2:
        raise AnalysisError("_annotations_for_aggregation: assignments of the 'return' annotation not found; RT needs a re-read")
    for st in sites:
        v = st.value
        if isinstance(v, ast.Name) and v.id in la:
            v = la[v.id]
        through_rule = isinstance(v, ast.Call) and isinstance(v.func, ast.Name) and v.func.id == "_select_return_type"
        is_count = isinstance(v, ast.Name) and v.id == "int"
        ok = through_rule or is_count
        ctx.ob(rid, ok=ok, distinct=("site", st.lineno))
        if not ok:
            ctx.violation(rid, f"annotation-site|{ast.unparse(st.value)[:60]}", fl.loc(st) + " _annotations_for_aggregation", f"`{ast.unparse(st)[:90]}` types the aggregate without the result-type rule: a sum over a boolean source is declared bool (a supplied count column is then rejected or cut to True/False), any/all over integers int")


def kernel_functions(ctx, repo):
    """S-kernel: the numpy kernel named grouped_<k> reduces with the numpy_groupies function of that name
    (count = sum of ones).  `any` via max and `all` via min agree with the definition only for non-negative
    columns; the definition quantifies over every admissible column (integers included)."""
    ctx.rule("S-kernel", "every numpy_groupies.aggregate call in grouped_<k> passes func='<k>' (grouped_count: 'sum' over ones)")
    an = repo.module("aggregation_numpy.py")
    n = 0
    for name, fd in an.functions.items():
        if not name.startswith("grouped_"):
            continue
        k = name[len("grouped_"):]
        calls = [c for c in ast.walk(fd) if isinstance(c, ast.Call) and ast.unparse(c.func).split(".")[-1] == "aggregate"]
        via_helper = []
        for c in ast.walk(fd):
            # a module helper that wraps aggregate(..., func=<its parameter>): the constant passed for that parameter counts
            if isinstance(c, ast.Call) and isinstance(c.func, ast.Name) and c.func.id in an.functions and c.func.id != name:
                h = an.functions[c.func.id]
                hp = [a.arg for a in h.args.posonlyargs + h.args.args + h.args.kwonlyargs]
                for hc in ast.walk(h):
                    if isinstance(hc, ast.Call) and ast.unparse(hc.func).split(".")[-1] == "aggregate":
                        f_ = next((kw.value for kw in hc.keywords if kw.arg == "func"), hc.args[2] if len(hc.args) > 2 else None)
                        if isinstance(f_, ast.Name) and f_.id in hp:
                            i_ = hp.index(f_.id)
                            passed = c.args[i_] if i_ < len(c.args) else next((kw.value for kw in c.keywords if kw.arg == f_.id), None)
                            via_helper.append((c, passed))
        if not calls and not via_helper:
            raise AnalysisError(f"{name}: no aggregate call found; S-kernel needs a re-read")
        for c, passed in via_helper:
            fv = passed.value if isinstance(passed, ast.Constant) else None
            want = "sum" if k == "count" else k
            ok = fv == want
            n += 1
            ctx.ob("S-kernel", ok=ok, distinct=(name, c.lineno))
            if not ok:
                ctx.violation("S-kernel", f"{name}|func={fv}", an.loc(c) + f" {name}", f"{name} reduces with func={fv!r} instead of {want!r} (through {c.func.id})")
        # hand-written scatter reductions (ufunc.at) need an identity element per dtype - zeros are not the identity of
        # max over dates or negative numbers; the kernels delegate every reduction to numpy_groupies
        allocs = {}
        for st in ast.walk(fd):
            if isinstance(st, ast.Assign) and len(st.targets) == 1 and isinstance(st.targets[0], ast.Name) and isinstance(st.value, ast.Call):
                allocs.setdefault(st.targets[0].id, []).append(st)
        IDENTITY = {"add": ("zeros", "zeros_like"), "logical_or": ("zeros", "zeros_like"), "multiply": ("ones", "ones_like"), "logical_and": ("ones", "ones_like")}
        for c in ast.walk(fd):
            if isinstance(c, ast.Call) and isinstance(c.func, ast.Attribute) and c.func.attr == "at" and isinstance(c.func.value, ast.Attribute) and c.args and isinstance(c.args[0], ast.Name):
                uf = c.func.value.attr
                prev = [st for st in allocs.get(c.args[0].id, []) if st.lineno < c.lineno]
                al = max(prev, key=lambda st: st.lineno).value if prev else None
                alname = ast.unparse(al.func).split(".")[-1] if al is not None else None
                if uf in IDENTITY:
                    good = alname in IDENTITY[uf]
                elif uf in ("maximum", "minimum", "fmax", "fmin"):
                    fill = al.args[1] if (al is not None and alname in ("full", "full_like") and len(al.args) > 1) else None
                    good = fill is not None and ("inf" in ast.unparse(fill) or "iinfo" in ast.unparse(fill) or "finfo" in ast.unparse(fill) or "min(" in ast.unparse(fill) or "max(" in ast.unparse(fill))
                else:
                    continue
                ctx.ob("S-kernel", ok=good, distinct=(name, c.lineno))
                if not good:
                    ctx.violation("S-kernel", f"{name}|{ast.unparse(c.func)}", an.loc(c) + f" {name}", f"{name} reduces by hand with `{ast.unparse(c.func)}` into a buffer created by `{ast.unparse(al)[:50] if al is not None else '?'}`, which is not the identity element of that reduction (zeros = 1970-01-01 for dates, 0 for numbers): the initial fill takes part in the {k}, so a group whose members all lie on the other side of it gets a value no member has")
        for c in calls:
            forced = [kw for kw in c.keywords if kw.arg == "dtype"]
            if forced:
                ctx.ob("S-kernel", ok=False, distinct=(name, c.lineno, "dtype"))
                ctx.violation("S-kernel", f"{name}|dtype forced", an.loc(c) + f" {name}", f"{name} forces the accumulator of the reduction to `{ast.unparse(forced[0].value)}`: numpy_groupies widens the result on its own, a forced narrow integer type wraps around silently (int8 40 + 40 + 60 = -116)")
            f = next((kw.value for kw in c.keywords if kw.arg == "func"), c.args[2] if len(c.args) > 2 else None)
            fv = f.value if isinstance(f, ast.Constant) else None
            want = "sum" if k == "count" else k
            ok = fv == want
            n += 1
            ctx.ob("S-kernel", ok=ok, distinct=(name, c.lineno))
            if not ok:
                ctx.violation("S-kernel", f"{name}|func={fv}", an.loc(c) + f" {name}", f"{name} reduces with func={fv!r} instead of {want!r}: for columns with negative integers `max`/`min` and `any`/`all` differ (a group {{-1, 0}} has any = True, max = 0)")
    ctx.floor("S-kernel", 7)
