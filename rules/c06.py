"""C06 - a reform changes only what depends on it (partial).
P-params: rules touch parameters only through `<group>_params` arguments and never write through
them (the same dict object is partialled into every rule of a group).  E-fresh: every object placed
in the environment is created by that set-up call - no memoised loader, no module-level cache, no
object returned from module-level state.  E1: simulating does not write into the parameter
dictionary or the function collection handed in.  users(g) is emitted as evidence."""
import ast
import collections

from staticlib.session import get_session

from . import _effects_rules as R
from ._purity import purity_findings

DENY_IMPORTS = ("_gettsim.policy_environment", "_gettsim.interface", "_gettsim.functions_loader", "yaml", "gettsim")


def check(ctx):
    s = get_session(ctx.root)
    repo = s.repo
    ctx.assumptions += ["bit-identity of untouched columns is not decided; only the channels through which a reform could leak are"]
    ctx.rule("P-params", "no rule stores into, deletes from or calls a mutator on a value derived from a `<group>_params` argument (aliases followed)")
    ctx.rule("P-import", "policy modules do not import the loader, the interface or yaml: parameters reach rules only as arguments")
    users = collections.defaultdict(set)
    for r in repo.rules:
        fs = [f for f in purity_findings(repo, r) if f[0] == "P-params"]
        ctx.ob("P-params", ok=not fs, distinct=r.qual)
        for rid, key, ln, msg in fs:
            ctx.violation("P-params", f"{r.qual}|{key}", f"src/_gettsim/{r.mod.rel}:{ln} {r.name}", msg)
        for a in r.argnames:
            if a.endswith("_params"):
                users[a[:-7]].add(r.dag_name)
        if r.rounding_key:
            users[r.rounding_key].add(r.dag_name)
    for m in repo.policy_modules:
        bad = []
        for n in ast.walk(m.tree):
            if isinstance(n, ast.ImportFrom) and n.module and n.module.startswith(DENY_IMPORTS):
                bad.append((n.lineno, n.module))
            if isinstance(n, ast.Import):
                for a in n.names:
                    if a.name.startswith(DENY_IMPORTS):
                        bad.append((n.lineno, a.name))
        ctx.ob("P-import", ok=not bad, distinct=m.rel)
        for ln, what in bad:
            ctx.violation("P-import", f"{m.rel}|{what}", f"src/_gettsim/{m.rel}:{ln}", f"policy module imports {what}: a rule could read parameters behind the dependency graph's back")
    R.rule_E1(ctx, repo, entries=["interface.compute_taxes_and_transfers"], only_params={"params", "functions", "aggregate_by_group_specs", "aggregate_by_p_id_specs"})
    R.rule_E2(ctx, repo)
    R.rule_E3(ctx, repo)
    ctx.rule("E-fresh", "what set_up_policy_environment and the parameter loader return is created in that call: no part of it comes from module-level state")
    e = R.effects(repo)
    for q in ["policy_environment._load_parameter_group_from_yaml", "policy_environment._parse_piecewise_parameters", "policy_environment.set_up_policy_environment", "policy_environment.load_functions_for_date"]:
        f = e.entry(q)
        g = sorted(t[1] for t in (f.ret_prov | f.ret_cont) if t[0] == "G" and not t[1].startswith("config.PATHS"))
        ctx.ob("E-fresh", ok=not g, distinct=q)
        for x in g:
            ctx.violation("E-fresh", f"{q}|{x}", R.loc(repo, f, f.node.lineno), f"{q} returns (part of) the module-level object {x}: environments of different calls share it")
    ctx.floor("P-params", 350)
    ctx.extra_cov["users_of_group"] = {g: len(v) for g, v in sorted(users.items())}
    ctx.sample({"users(kindergeld)": sorted(users.get("kindergeld", []))[:12]})
