"""C20 - malformed input data are rejected, and type coercion is lossless (partial).

F1 must-call: the validators and the type conversion are called on every path before anything is
   computed.  F2 each validator can raise under a condition on its argument.  S-fk every pointer
   column dereferenced by a grouping is in the validated foreign-key table.  F3 every accepted
   narrowing conversion is dominated by its losslessness test.  F4 conversions are announced."""
from __future__ import annotations

import ast

from staticlib.common import AnalysisError
from staticlib.session import get_session
from staticlib.srcmodel import find_function, walk_own

VALIDATORS = ["_fail_if_group_variables_not_constant_within_groups", "_fail_if_pid_is_non_unique", "_fail_if_foreign_keys_are_invalid"]
PROPERTY_POINTERS = ["p_id_ehepartner", "p_id_einstandspartner", "p_id_elternteil_1", "p_id_elternteil_2"]


class Must:
    """syntax-directed 'definitely calls X before completing normally' over one module"""

    def __init__(self, mod):
        self.mod = mod
        self.memo = {}

    def fn_calls(self, fname, target, stack=()):
        key = (fname, target)
        if key in self.memo:
            return self.memo[key]
        if fname == target:
            return True
        fd = self.mod.functions.get(fname)
        if fd is None or fname in stack:
            return False
        r = self.block(fd.body, target, (*stack, fname)) is True
        self.memo[key] = r
        return r

    def expr_calls(self, e, target, stack):
        """a call certainly evaluated when e is evaluated (not under IfExp / BoolOp rhs / lambda / comprehension)"""
        if e is None:
            return False
        if isinstance(e, ast.Call):
            if isinstance(e.func, ast.Name) and self.fn_calls(e.func.id, target, stack):
                return True
            return any(self.expr_calls(a, target, stack) for a in e.args) or any(self.expr_calls(k.value, target, stack) for k in e.keywords) or self.expr_calls(e.func, target, stack)
        if isinstance(e, (ast.IfExp,)):
            return self.expr_calls(e.test, target, stack)
        if isinstance(e, ast.BoolOp):
            return self.expr_calls(e.values[0], target, stack)
        if isinstance(e, (ast.Lambda, ast.ListComp, ast.DictComp, ast.SetComp, ast.GeneratorExp)):
            return False
        return any(self.expr_calls(c, target, stack) for c in ast.iter_child_nodes(e) if isinstance(c, ast.expr))

    def block(self, stmts, target, stack=()):
        """True: every normal completion has called target; False: some path completes/returns without;
        'term': the block never completes normally and never returns a value without the call (raises)"""
        for s in stmts:
            r = self.stmt(s, target, stack)
            if r is True:
                return True
            if r == "term":
                return "term"
            if r == "ret":
                return False
        return False

    def stmt(self, s, target, stack):
        if isinstance(s, (ast.Expr, ast.Assign, ast.AugAssign, ast.AnnAssign)):
            v = s.value
            return True if self.expr_calls(v, target, stack) else None
        if isinstance(s, ast.Return):
            return True if self.expr_calls(s.value, target, stack) else "ret"
        if isinstance(s, ast.Raise):
            return "term"
        if isinstance(s, ast.If):
            if self.expr_calls(s.test, target, stack):
                return True
            a = self.block(s.body, target, stack)
            b = self.block(s.orelse, target, stack) if s.orelse else False
            if a == "term" and b == "term":
                return "term"
            if (a is True or a == "term") and (b is True or b == "term"):
                return True
            # a branch that returns without the call?
            if self._returns(s.body) and a is not True or (s.orelse and self._returns(s.orelse) and b is not True):
                return "ret"
            return None
        if isinstance(s, (ast.With,)):
            r = self.block(s.body, target, stack)
            return r if r in (True, "term") else None
        if isinstance(s, ast.Try):
            r = self.block(s.body, target, stack)
            f = self.block(s.finalbody, target, stack) if s.finalbody else False
            if f is True:
                return True
            return True if (r is True and not s.handlers) else None
        if isinstance(s, (ast.For, ast.While)):
            return None
        return None

    def _returns(self, stmts):
        return any(isinstance(n, ast.Return) for st in stmts for n in ast.walk(st))


def check(ctx):
    s = get_session(ctx.root)
    repo = s.repo
    itf = repo.module("interface.py")
    ctx.assumptions += ["numeric losslessness of the tests themselves (int64 -> float64 beyond 2^53) and the order-dependent joint-assessment check are not decided"]
    must_call(ctx, repo, itf)
    validators(ctx, repo, itf)
    foreign_keys(ctx, repo, itf)
    narrowing(ctx, repo)
    announced(ctx, repo, itf)
    exact_comparisons(ctx, repo, itf)
    joint_assessment(ctx, repo)


def must_call(ctx, repo, itf):
    ctx.rule("F1", "compute_taxes_and_transfers validates `data` before using it: every path through the data-processing step calls the three validators (the DataFrame path also the duplicate-column check); type conversion and the missing-root-node check precede the call of the concatenated DAG function")
    m = Must(itf)
    cte = find_function(itf, "compute_taxes_and_transfers", "primary anchor")
    # first statement that reads `data`
    first = None
    for i, st in enumerate(cte.body):
        if any(isinstance(n, ast.Name) and n.id == "data" and isinstance(n.ctx, ast.Load) for n in ast.walk(st)):
            first = (i, st)
            break
    if first is None:
        raise AnalysisError("compute_taxes_and_transfers no longer reads `data`")
    for v in VALIDATORS:
        ok = m.stmt(first[1], v, ()) is True
        ctx.ob("F1", ok=ok, distinct=("first-use", v))
        if not ok:
            ctx.violation("F1", f"first-use|{v}", itf.loc(first[1]), f"the first statement that touches `data` (`{ast.unparse(first[1])[:70]}`) does not run {v} on every path: malformed data reach the computation unchecked")
    # the data-processing function: the callee of that first statement
    callee = None
    for n in ast.walk(first[1]):
        if isinstance(n, ast.Call) and isinstance(n.func, ast.Name) and n.func.id in itf.functions:
            callee = itf.functions[n.func.id]
            break
    if callee is not None:
        # DataFrame branch: the branch whose test mentions DataFrame must call the duplicate-column check
        dfb = [n for n in walk_own(callee) if isinstance(n, ast.If) and "DataFrame" in ast.unparse(n.test)]
        ok = bool(dfb) and m.block(dfb[0].body, "_fail_if_duplicates_in_columns") is True
        ctx.ob("F1", ok=ok, distinct="duplicates")
        if not ok:
            ctx.violation("F1", "dataframe-duplicates", itf.loc(dfb[0] if dfb else callee), "the DataFrame branch of the data-processing step does not call _fail_if_duplicates_in_columns: duplicate column names are silently collapsed by dict(data)")
        # unsupported containers are rejected
        ok = any(isinstance(n, ast.Raise) for n in walk_own(callee))
        ctx.ob("F1", ok=ok, distinct="unsupported-container")
        if not ok:
            ctx.violation("F1", "unsupported-container", itf.loc(callee), "the data-processing step no longer rejects unsupported containers")
    # conversion and root-node check before the DAG function is called
    dag_call = None
    conc_var = None
    for i, st in enumerate(cte.body):
        if isinstance(st, ast.Assign) and isinstance(st.value, ast.Call) and "concatenate_functions" in ast.unparse(st.value.func):
            conc_var = st.targets[0].id
        if conc_var and any(isinstance(n, ast.Call) and isinstance(n.func, ast.Name) and n.func.id == conc_var for n in ast.walk(st)):
            dag_call = i
    if dag_call is None:
        raise AnalysisError("call of the concatenated DAG function not found in compute_taxes_and_transfers")
    for v in ("_convert_data_to_correct_types", "_fail_if_root_nodes_are_missing"):
        idx = [i for i, st in enumerate(cte.body) if m.stmt(st, v, ()) is True]
        ok = bool(idx) and idx[0] < dag_call
        ctx.ob("F1", ok=ok, distinct=("before-dag", v))
        if not ok:
            ctx.violation("F1", f"before-dag|{v}", itf.loc(cte.body[dag_call]), f"{v} is not called on every path before the DAG function runs")
    ctx.floor("F1", 6)


TOLERANT = ("isclose", "allclose", "approx", "assert_almost_equal", "round", "around", "rint")


def exact_comparisons(ctx, repo, itf, rid="F5"):
    ctx.rule(rid, "validators and the type converter compare exactly: no tolerance-based or rounding comparison (isclose / allclose / round) decides whether input is accepted")
    gt = repo.module("gettsim_typing.py")
    targets = [(itf, n) for n in [*VALIDATORS, "_fail_if_duplicates_in_columns"]] + [(gt, "convert_series_to_internal_type"), (gt, "check_series_has_expected_type")]
    for mod, name in targets:
        fd = mod.functions.get(name)
        if fd is None:
            continue
        bad = [n for n in ast.walk(fd) if isinstance(n, ast.Call) and ((isinstance(n.func, ast.Attribute) and n.func.attr in TOLERANT) or (isinstance(n.func, ast.Name) and n.func.id in TOLERANT))]
        ctx.ob(rid, ok=not bad, distinct=name)
        for n in bad:
            ctx.violation(rid, f"{name}|{ast.unparse(n.func)}", mod.loc(n) + f" {name}", f"`{ast.unparse(n)[:80]}` accepts input that differs from what it is checked against by a tolerance: values that are not constant within a group / not integral are let through and changed")


def validators(ctx, repo, itf):
    ctx.rule("F2", "each validator raises under a condition computed from its argument")
    for v in [*VALIDATORS, "_fail_if_duplicates_in_columns", "_fail_if_root_nodes_are_missing"]:
        fd = find_function(itf, v, "primary anchor (imported by the test-suite)")
        params = {a.arg for a in fd.args.args}
        derived = set(params)
        for _ in range(3):
            for n in walk_own(fd):
                if isinstance(n, ast.Assign) and any(isinstance(x, ast.Name) and x.id in derived for x in ast.walk(n.value)):
                    for t in n.targets:
                        for x in ast.walk(t):
                            if isinstance(x, ast.Name):
                                derived.add(x.id)
                if isinstance(n, ast.For) and any(isinstance(x, ast.Name) and x.id in derived for x in ast.walk(n.iter)):
                    for x in ast.walk(n.target):
                        if isinstance(x, ast.Name):
                            derived.add(x.id)
        ok = False
        for n in walk_own(fd):
            if isinstance(n, ast.If) and any(isinstance(x, ast.Raise) for b in (n.body, n.orelse) for st in b for x in ast.walk(st)):
                if any(isinstance(x, ast.Name) and x.id in derived for x in ast.walk(n.test)):
                    ok = True
        ctx.ob("F2", ok=ok, distinct=v)
        if not ok:
            ctx.violation("F2", f"{v}|never-raises", itf.loc(fd) + f" {v}", f"{v} contains no `raise` under a condition on its argument: the malformed input it is named after is accepted")
    # the pid validator covers both absence and duplicates
    fd = itf.functions["_fail_if_pid_is_non_unique"]
    txt = ast.unparse(fd)
    ok = ("not in data" in txt or "not in" in txt) and ("is_unique" in txt or "duplicated" in txt) and sum(isinstance(n, ast.Raise) for n in ast.walk(fd)) >= 2
    ctx.ob("F2", ok=ok, distinct="pid-two-checks")
    if not ok:
        ctx.violation("F2", "_fail_if_pid_is_non_unique|two-checks", itf.loc(fd), "the p_id validator no longer rejects both a missing and a non-unique p_id")
    fd = itf.functions["_fail_if_foreign_keys_are_invalid"]
    loops = [n for n in walk_own(fd) if isinstance(n, ast.For)]
    fk_locals = {"FOREIGN_KEYS"}
    for n in walk_own(fd):
        if isinstance(n, ast.Assign) and isinstance(n.targets[0], ast.Name) and any(isinstance(x, ast.Name) and x.id in fk_locals for x in ast.walk(n.value)):
            fk_locals.add(n.targets[0].id)
    ok = bool(loops) and all(any(isinstance(x, ast.Name) and x.id in fk_locals for x in ast.walk(lp.iter)) for lp in loops) and sum(isinstance(n, ast.Raise) for n in ast.walk(fd)) >= 2
    ctx.ob("F2", ok=ok, distinct="fk-two-checks")
    if not ok:
        ctx.violation("F2", "_fail_if_foreign_keys_are_invalid|two-checks", itf.loc(fd), "the foreign-key validator no longer iterates over FOREIGN_KEYS with (at least) two rejections: pointers to a missing person and pointers to oneself")
    # F6: an accumulator overwritten in a loop keeps only the last iteration
    for v in [*VALIDATORS, "_fail_if_duplicates_in_columns"]:
        vf = itf.functions[v]
        body = vf.body
        for i, st in enumerate(body):
            if not isinstance(st, ast.For):
                continue
            before = {t.id for b in body[:i] for n in ast.walk(b) if isinstance(n, ast.Assign) for t in n.targets if isinstance(t, ast.Name)}
            after = {x.id for b in body[i + 1:] for x in ast.walk(b) if isinstance(x, ast.Name) and isinstance(x.ctx, ast.Load)}
            for n in ast.walk(st):
                if isinstance(n, ast.Assign) and isinstance(n.targets[0], ast.Name):
                    nm = n.targets[0].id
                    if nm in before and nm in after and not any(isinstance(x, ast.Name) and x.id == nm for x in ast.walk(n.value)):
                        # overwritten without reading its previous value, and not consumed inside the loop before the next overwrite
                        used_in_loop = any(isinstance(x, ast.Name) and x.id == nm and isinstance(x.ctx, ast.Load) for x in ast.walk(st))
                        ctx.ob("F2", ok=used_in_loop, distinct=(v, nm))
                        if not used_in_loop:
                            ctx.violation("F2", f"{v}|overwritten-accumulator|{nm}", itf.loc(n) + f" {v}", f"`{ast.unparse(n)[:70]}` overwrites `{nm}` in every iteration although it is initialised before the loop and only read after it: only the last column is actually checked")
    # -1 (no pointer) is the only value admitted besides existing p_ids
    sets = [n for n in ast.walk(fd) if isinstance(n, ast.Set)]
    ok = any(len(x.elts) == 1 and ast.unparse(x.elts[0]) == "-1" for x in sets)
    ctx.ob("F2", ok=ok, distinct="fk-sentinel")
    if not ok:
        ctx.violation("F2", "_fail_if_foreign_keys_are_invalid|sentinel", itf.loc(fd), "the set of admissible pointer values is no longer `existing p_ids plus -1`")


def foreign_keys(ctx, repo, itf):
    ctx.rule("S-fk", "every p_id_* argument of a grouping function and every pointer named in the property is in FOREIGN_KEYS; every FOREIGN_KEYS entry is an int input variable")
    fk = repo.foreign_keys
    it = repo.input_types
    for name, (fname, fd) in repo.grouping_funcs.items():
        for a in fd.args.args:
            if a.arg.startswith("p_id_"):
                ok = a.arg in fk
                ctx.ob("S-fk", ok=ok, distinct=(fname, a.arg))
                if not ok:
                    ctx.violation("S-fk", f"{fname}|{a.arg}", f"src/_gettsim/groupings.py:{fd.lineno} {fname}", f"{fname} dereferences pointer column {a.arg} without a check, but {a.arg} is not in FOREIGN_KEYS: a pointer to a missing person is not rejected")
    for p in PROPERTY_POINTERS:
        ok = p in fk
        ctx.ob("S-fk", ok=ok, distinct=("property", p))
        if not ok:
            ctx.violation("S-fk", f"property|{p}", "src/_gettsim/config.py FOREIGN_KEYS", f"{p} is not validated as a foreign key")
    for k in fk:
        ok = it.get(k) == "int"
        ctx.ob("S-fk", ok=ok, distinct=("type", k))
        if not ok:
            ctx.violation("S-fk", f"type|{k}", "src/_gettsim/config.py FOREIGN_KEYS", f"foreign key {k} is not an int input variable ({it.get(k)})")
    ctx.floor("S-fk", 10)


def narrowing(ctx, repo):
    ctx.rule("F3", "in convert_series_to_internal_type: float -> int happens only under an equality test between the series and its integer cast; -> bool only under a test that all values are 0/1; object and bool -> float raise; every except re-raises")
    gt = repo.module("gettsim_typing.py")
    fd = find_function(gt, "convert_series_to_internal_type", "primary anchor")
    parents = {}
    for n in ast.walk(fd):
        for c in ast.iter_child_nodes(n):
            parents[c] = n

    def enclosing_ifs(n):
        out = []
        while n in parents:
            p = parents[n]
            if isinstance(p, ast.If):
                out.append((p, "body" if any(n is x or n in list(ast.walk(x)) for x in p.body) else "orelse"))
            n = p
        return out

    nconv = 0
    for n in ast.walk(fd):
        if isinstance(n, ast.Call) and isinstance(n.func, ast.Attribute) and n.func.attr == "astype" and n.args:
            t = ast.unparse(n.args[0])
            par = parents.get(n)
            if not isinstance(par, ast.Assign):
                continue  # a cast inside a test, not a conversion of the result
            chain = enclosing_ifs(par)
            tests = [(ast.unparse(i.test), br) for i, br in chain]
            under_float = any("is_float_dtype" in tt and br == "body" for tt, br in tests)
            series = ast.unparse(n.func.value)

            def data_tests(tests_):
                """enclosing tests (true branch) that look at the values of the series, not only at its dtype"""
                pure_dtype = ("is_float_dtype", "is_integer_dtype", "is_bool_dtype", "is_object_dtype", "is_datetime64_any_dtype")
                return [tt for tt, br in tests_ if br == "body" and series in tt and not any(tt in (f"{f}({series})", f"not {f}({series})") for f in pure_dtype)]

            if t in ("int", "np.int64", "numpy.int64", "'int64'"):
                nconv += 1
                if under_float:
                    dts = data_tests(tests)
                    recognised = [tt for tt in dts if (f"{series}.astype(" in tt and ("array_equal" in tt or "==" in tt or "equals" in tt)) or "% 1" in tt or "is_integer" in tt or "mod(" in tt]
                    if not dts:
                        ctx.ob("F3", ok=False, distinct="float->int")
                        ctx.violation("F3", "float->int|unguarded", gt.loc(par), f"`{ast.unparse(par)}` converts a float series to int without being dominated by any test on its values: decimals are truncated silently")
                    elif not recognised:
                        raise AnalysisError(f"float->int conversion is guarded by `{dts[0][:80]}`, an idiom F3 does not know; re-read needed")
                    else:
                        ctx.ob("F3", ok=True, distinct="float->int")
                else:
                    ctx.ob("F3", ok=True, distinct="other->int")
            elif t == "bool":
                nconv += 1
                dts = data_tests(tests)
                recognised = [tt for tt in dts if _mentions_only_0_1(tt)]
                if not dts:
                    ctx.ob("F3", ok=False, distinct=("->bool", par.lineno))
                    ctx.violation("F3", "->bool|unguarded", gt.loc(par), f"`{ast.unparse(par)}` converts to bool without being dominated by a test that all values are 0 or 1")
                elif not recognised:
                    raise AnalysisError(f"->bool conversion is guarded by `{dts[0][:80]}`, an idiom F3 does not know; re-read needed")
                else:
                    ctx.ob("F3", ok=True, distinct=("->bool", par.lineno))
            elif t == "float":
                nconv += 1
                ok = any("is_bool_dtype" in tt and br == "orelse" for tt, br in tests)
                ctx.ob("F3", ok=ok, distinct="->float")
                if not ok:
                    ctx.violation("F3", "bool->float|accepted", gt.loc(par), "conversion to float is no longer guarded against boolean input (True/False would become 1.0/0.0)")
    if nconv < 4:
        raise AnalysisError(f"convert_series_to_internal_type: only {nconv} conversions recognised; F3 needs a re-read")
    # object dtype raises first
    first_if = [n for n in fd.body if isinstance(n, ast.If)]
    ok = bool(first_if) and "is_object_dtype" in ast.unparse(first_if[0].test) and any(isinstance(x, ast.Raise) for x in first_if[0].body)
    ctx.ob("F3", ok=ok, distinct="object")
    if not ok:
        ctx.violation("F3", "object|accepted", gt.loc(fd), "object-dtype input is no longer rejected up front")
    for h in [n for n in ast.walk(fd) if isinstance(n, ast.ExceptHandler)]:
        ok = any(isinstance(x, ast.Raise) for x in ast.walk(h))
        ctx.ob("F3", ok=ok, distinct=("except", h.lineno))
        if not ok:
            ctx.violation("F3", "except|swallowed", gt.loc(h), "an except clause swallows the conversion error instead of re-raising")
    # unsupported internal types raise
    ok = isinstance(fd.body[-1], ast.Return) and any(isinstance(n, ast.Raise) and "not yet supported" in ast.unparse(n) for n in ast.walk(fd))
    ctx.ob("F3", ok=ok, distinct="unsupported-type")
    if not ok:
        ctx.violation("F3", "unsupported-type|accepted", gt.loc(fd), "an unsupported internal type no longer raises")


def joint_assessment(ctx, repo):
    """F7: spouses with contradictory joint-assessment flags are rejected whichever of them comes first"""
    ctx.rule("F7", "in the tax-unit scan the contradiction test (flag of the person != flag of the already-seen spouse) is guarded only by 'spouse already seen', not by the value of either flag: the rejection is symmetric in the two spouses")
    g = repo.module("groupings.py")
    gf = repo.grouping_funcs.get("sn_id")
    if gf is None:
        raise AnalysisError("grouping sn_id vanished")
    fd = gf[1]
    flag_param = [a.arg for a in fd.args.args if "veranlagt" in a.arg]
    if len(flag_param) != 1:
        raise AnalysisError("sn_id: joint-assessment flag parameter not recognised")
    raises = [n for n in ast.walk(fd) if isinstance(n, ast.Raise)]
    if not raises:
        ctx.ob("F7", ok=False, distinct="raise")
        ctx.violation("F7", "sn_id|no-raise", g.loc(fd) + f" {gf[0]}", "the tax-unit scan no longer rejects spouses with contradictory joint-assessment flags")
        return
    # names derived from the flag column (current person's flag, stored spouse flag)
    derived = set(flag_param)
    for _ in range(3):
        for n in ast.walk(fd):
            if isinstance(n, ast.Assign) and any(isinstance(x, ast.Name) and x.id in derived for x in ast.walk(n.value)):
                for t in n.targets:
                    if isinstance(t, ast.Name):
                        derived.add(t.id)
                    elif isinstance(t, ast.Subscript) and isinstance(t.value, ast.Name):
                        derived.add(t.value.id)
    parents = {}
    for n in ast.walk(fd):
        for c in ast.iter_child_nodes(n):
            parents[c] = n
    for r in raises:
        guards = []
        n = r
        while n in parents:
            p = parents[n]
            if isinstance(p, ast.If):
                guards.append(p.test)
            n = p
        flagtests = [t for t in guards if any(isinstance(x, ast.Name) and x.id in derived for x in ast.walk(t))]
        # exactly one guard may look at the flags, and it must compare two flag values with != / ==
        ok = len(flagtests) == 1 and isinstance(flagtests[0], ast.Compare) and len(flagtests[0].ops) == 1 and isinstance(flagtests[0].ops[0], (ast.NotEq, ast.Eq, ast.IsNot, ast.Is)) and all(any(isinstance(x, ast.Name) and x.id in derived for x in ast.walk(side)) for side in (flagtests[0].left, flagtests[0].comparators[0]))
        ctx.ob("F7", ok=ok, distinct=r.lineno)
        if not ok:
            extra = [ast.unparse(t) for t in flagtests]
            ctx.violation("F7", "sn_id|asymmetric-guard", g.loc(r) + f" {gf[0]}", f"the contradiction is raised only under {extra}: a couple is rejected or accepted depending on which spouse is listed first / which of them carries the flag")


def _mentions_only_0_1(test_text):
    """the test compares against the literals 0 and 1 (and no other number)"""
    try:
        t = ast.parse(test_text, mode="eval")
    except SyntaxError:
        return False
    nums = {c.value for c in ast.walk(t) if isinstance(c, ast.Constant) and isinstance(c.value, (int, float)) and not isinstance(c.value, bool)}
    # `len([...]) == 0` contributes a 0; accept {0, 1}
    return {0, 1} <= {int(x) for x in nums if float(x).is_integer()} and all(float(x) in (0.0, 1.0) for x in nums)


def announced(ctx, repo, itf):
    ctx.rule("F4", "in _convert_data_to_correct_types every recorded conversion is announced by warnings.warn (or an error is raised); a failed conversion is recorded as an error")
    fd = find_function(itf, "_convert_data_to_correct_types", "primary anchor")
    lists = {}
    for n in walk_own(fd):
        if isinstance(n, ast.Assign) and isinstance(n.targets[0], ast.Name) and isinstance(n.value, ast.List):
            lists[n.targets[0].id] = len(n.value.elts)
    appended = {}
    for n in ast.walk(fd):
        if isinstance(n, ast.Call) and isinstance(n.func, ast.Attribute) and n.func.attr == "append" and isinstance(n.func.value, ast.Name) and n.func.value.id in lists:
            appended[n.func.value.id] = n
    conv = [k for k, n in appended.items() if not any(isinstance(p, ast.ExceptHandler) and n in list(ast.walk(p)) for p in ast.walk(fd))]
    errs = [k for k, n in appended.items() if any(isinstance(p, ast.ExceptHandler) and n in list(ast.walk(p)) for p in ast.walk(fd))]
    if len(conv) != 1 or len(errs) != 1:
        raise AnalysisError("_convert_data_to_correct_types: the two collector lists (conversions, errors) not recognised; F4 needs a re-read")
    cv, er = conv[0], errs[0]

    def threshold_ok(test, var):
        # `len(var) > c` must be true as soon as one entry was appended
        if isinstance(test, ast.Compare) and len(test.ops) == 1 and ast.unparse(test.left) == f"len({var})" and isinstance(test.comparators[0], ast.Constant):
            c = test.comparators[0].value
            n1 = lists[var] + 1
            return {ast.Gt: n1 > c, ast.GtE: n1 >= c, ast.NotEq: n1 != c}.get(type(test.ops[0]), False)
        return False

    tail = [n for n in fd.body if isinstance(n, ast.If)]
    ok_raise = ok_warn = False
    for t in tail:
        node = t
        while isinstance(node, ast.If):
            if threshold_ok(node.test, er) and any(isinstance(x, ast.Raise) for x in node.body):
                ok_raise = True
            if threshold_ok(node.test, cv) and any(isinstance(x, ast.Call) and ast.unparse(x.func) == "warnings.warn" for st in node.body for x in ast.walk(st)):
                ok_warn = True
            node = node.orelse[0] if len(node.orelse) == 1 else None
    ctx.ob("F4", ok=ok_warn, distinct="warn")
    if not ok_warn:
        ctx.violation("F4", "conversion-not-announced", itf.loc(fd), f"a successful automatic conversion (recorded in {cv}) does not reach warnings.warn on every path: types are coerced silently")
    ctx.ob("F4", ok=ok_raise, distinct="raise")
    if not ok_raise:
        ctx.violation("F4", "conversion-error-not-raised", itf.loc(fd), f"a failed conversion (recorded in {er}) does not reach a raise")
    # the converted series replaces the column and the conversion is recorded in the same block
    rec = appended[cv]
    blk = None
    for n in ast.walk(fd):
        if isinstance(n, ast.Try) and rec in list(ast.walk(n)):
            blk = n
    ok = blk is not None and any(isinstance(x, ast.Call) and isinstance(x.func, ast.Name) and x.func.id == "convert_series_to_internal_type" for st in blk.body for x in ast.walk(st)) and any(isinstance(h.type, ast.Name) and h.type.id == "ValueError" for h in blk.handlers)
    ctx.ob("F4", ok=ok, distinct="record")
    if not ok:
        ctx.violation("F4", "conversion-not-recorded", itf.loc(fd), "conversion and its recording are no longer in one try block catching ValueError")
    # check_series_has_expected_type gates conversion: conversion only when the type does not match
    gates = [n for n in ast.walk(fd) if isinstance(n, ast.If) and "check_series_has_expected_type" in ast.unparse(n.test) and rec in list(ast.walk(n))]
    ok = bool(gates) and isinstance(gates[0].test, ast.BoolOp) and any(isinstance(v, ast.UnaryOp) and isinstance(v.op, ast.Not) for v in gates[0].test.values)
    ctx.ob("F4", ok=ok, distinct="gate")
    if not ok:
        ctx.violation("F4", "conversion-gate", itf.loc(fd), "conversion is no longer applied exactly to the columns whose dtype differs from the documented type")
