"""C20 - malformed input data are rejected, and type coercion is lossless (partial).

F1 must-call: the validators and the type conversion are called on every path before anything is
   computed.  F2 each validator can raise under a condition on its argument.  S-fk every pointer
   column dereferenced by a grouping is in the validated foreign-key table.  F3 every accepted
   narrowing conversion is dominated by its losslessness test.  F4 conversions are announced."""
from __future__ import annotations

import ast

from staticlib.common import AnalysisError
from staticlib.session import get_session
from staticlib.srcmodel import find_function, walk_own
from staticlib.guards import Dominance

VALIDATORS = ["_fail_if_group_variables_not_constant_within_groups", "_fail_if_pid_is_non_unique", "_fail_if_foreign_keys_are_invalid"]
PROPERTY_POINTERS = ["p_id_ehepartner", "p_id_einstandspartner", "p_id_elternteil_1", "p_id_elternteil_2"]


class Must:
    """syntax-directed 'definitely calls X before completing normally' over one module"""

    def __init__(self, mod):
        self.mod = mod
        self.memo = {}

    def fn_calls(self, fname, target, stack=()):
        key = (fname, target)
        if key in self.memo:
            return self.memo[key]
        if fname == target:
            return True
        fd = self.mod.functions.get(fname)
        if fd is None or fname in stack:
            return False
        r = self.block(fd.body, target, (*stack, fname)) is True
        self.memo[key] = r
        return r

    def expr_calls(self, e, target, stack):
        """a call certainly evaluated when e is evaluated (not under IfExp / BoolOp rhs / lambda / comprehension)"""
        if e is None:
            return False
        if isinstance(e, ast.Call):
            if isinstance(e.func, ast.Name) and self.fn_calls(e.func.id, target, stack):
                return True
            return any(self.expr_calls(a, target, stack) for a in e.args) or any(self.expr_calls(k.value, target, stack) for k in e.keywords) or self.expr_calls(e.func, target, stack)
        if isinstance(e, (ast.IfExp,)):
            return self.expr_calls(e.test, target, stack)
        if isinstance(e, ast.BoolOp):
            return self.expr_calls(e.values[0], target, stack)
        if isinstance(e, (ast.Lambda, ast.ListComp, ast.DictComp, ast.SetComp, ast.GeneratorExp)):
            return False
        return any(self.expr_calls(c, target, stack) for c in ast.iter_child_nodes(e) if isinstance(c, ast.expr))

    def block(self, stmts, target, stack=()):
        """True: every normal completion has called target; False: some path completes/returns without;
        'term': the block never completes normally and never returns a value without the call (raises)"""
        for s in stmts:
            r = self.stmt(s, target, stack)
            if r is True:
                return True
            if r == "term":
                return "term"
            if r == "ret":
                return False
        return False

    def stmt(self, s, target, stack):
        if isinstance(s, (ast.Expr, ast.Assign, ast.AugAssign, ast.AnnAssign)):
            v = s.value
            return True if self.expr_calls(v, target, stack) else None
        if isinstance(s, ast.Return):
            return True if self.expr_calls(s.value, target, stack) else "ret"
        if isinstance(s, ast.Raise):
            return "term"
        if isinstance(s, ast.If):
            if self.expr_calls(s.test, target, stack):
                return True
            a = self.block(s.body, target, stack)
            b = self.block(s.orelse, target, stack) if s.orelse else False
            if a == "term" and b == "term":
                return "term"
            if (a is True or a == "term") and (b is True or b == "term"):
                return True
            # a branch that returns without the call?
            if self._returns(s.body) and a is not True or (s.orelse and self._returns(s.orelse) and b is not True):
                return "ret"
            return None
        if isinstance(s, (ast.With,)):
            r = self.block(s.body, target, stack)
            return r if r in (True, "term") else None
        if isinstance(s, ast.Try):
            r = self.block(s.body, target, stack)
            f = self.block(s.finalbody, target, stack) if s.finalbody else False
            if f is True:
                return True
            return True if (r is True and not s.handlers) else None
        if isinstance(s, (ast.For, ast.While)):
            return None
        return None

    def _returns(self, stmts):
        return any(isinstance(n, ast.Return) for st in stmts for n in ast.walk(st))


def check(ctx):
    s = get_session(ctx.root)
    repo = s.repo
    itf = repo.module("interface.py")
    ctx.assumptions += ["numeric losslessness of the tests themselves (int64 -> float64 beyond 2^53) and the order-dependent joint-assessment check are not decided"]
    must_call(ctx, repo, itf)
    validators(ctx, repo, itf)
    foreign_keys(ctx, repo, itf)
    exact_comparisons(ctx, repo, itf)
    joint_assessment(ctx, repo)
    announced(ctx, repo, itf)
    narrowing(ctx, repo)
    from ._typing import input_type_gate

    input_type_gate(ctx, repo, "F6")
    group_suffix_test(ctx, itf, "F8")


def group_suffix_test(ctx, itf, rid):
    """the group a column belongs to is read from its name by the suffix `_<level>` - with the underscore: `_wthh`
    also ends with `hh`"""
    ctx.rule(rid, "the within-group constancy check matches a column to a grouping level by the suffix `_<level>` including the underscore (a `_wthh` column is not an `_hh` column)")
    fd = find_function(itf, "_fail_if_group_variables_not_constant_within_groups", "anchor")
    from staticlib.guards import scope_functions

    n = 0
    for f_ in scope_functions(itf, fd):
        for c in ast.walk(f_):
            if isinstance(c, ast.Call) and isinstance(c.func, ast.Attribute) and c.func.attr in ("endswith", "removesuffix") and c.args:
                a = c.args[0]
                n += 1
                good = (isinstance(a, ast.JoinedStr) and a.values and isinstance(a.values[0], ast.Constant) and str(a.values[0].value).startswith("_")) or \
                       (isinstance(a, ast.Constant) and isinstance(a.value, str) and a.value.startswith("_")) or \
                       (isinstance(a, ast.BinOp) and isinstance(a.op, ast.Add) and isinstance(a.left, ast.Constant) and str(a.left.value).startswith("_"))
                if isinstance(a, ast.Name):
                    # a local holding the suffix: its definition must start with the underscore
                    defs = [x.value for x in ast.walk(f_) if isinstance(x, ast.Assign) and len(x.targets) == 1 and isinstance(x.targets[0], ast.Name) and x.targets[0].id == a.id]
                    good = bool(defs) and all((isinstance(dv, ast.JoinedStr) and dv.values and isinstance(dv.values[0], ast.Constant) and str(dv.values[0].value).startswith("_")) or (isinstance(dv, ast.Constant) and str(dv.value).startswith("_")) for dv in defs)
                ctx.ob(rid, ok=good, distinct=(f_.name, c.lineno))
                if not good:
                    ctx.violation(rid, f"{f_.name}|{ast.unparse(c)[:50]}", itf.loc(c) + f" {f_.name}", f"`{ast.unparse(c)[:60]}` matches the grouping level without the separating underscore: every `_wthh` column is also treated as an `_hh` column and rejected when it (legitimately) differs between the part-households of one household")
    if n == 0:
        raise AnalysisError("the within-group check no longer reads the level from a name suffix; F8 needs a re-read")


def must_call(ctx, repo, itf):
    ctx.rule("F1", "compute_taxes_and_transfers validates `data` before using it: every path through the data-processing step calls the three validators (the DataFrame path also the duplicate-column check); type conversion and the missing-root-node check precede the call of the concatenated DAG function")
    m = Must(itf)
    cte = find_function(itf, "compute_taxes_and_transfers", "primary anchor")
    # first statement that reads `data`
    first = None
    for i, st in enumerate(cte.body):
        if any(isinstance(n, ast.Name) and n.id == "data" and isinstance(n.ctx, ast.Load) for n in ast.walk(st)):
            first = (i, st)
            break
    if first is None:
        raise AnalysisError("compute_taxes_and_transfers no longer reads `data`")
    for v in VALIDATORS:
        ok = m.stmt(first[1], v, ()) is True
        ctx.ob("F1", ok=ok, distinct=("first-use", v))
        if not ok:
            ctx.violation("F1", f"first-use|{v}", itf.loc(first[1]), f"the first statement that touches `data` (`{ast.unparse(first[1])[:70]}`) does not run {v} on every path: malformed data reach the computation unchecked")
    # the data-processing function: the callee of that first statement
    callee = None
    for n in ast.walk(first[1]):
        if isinstance(n, ast.Call) and isinstance(n.func, ast.Name) and n.func.id in itf.functions:
            callee = itf.functions[n.func.id]
            break
    if callee is not None:
        from staticlib.guards import scope_functions

        scope = scope_functions(itf, callee)
        # DataFrame branch (in the step or a helper of it): must call the duplicate-column check
        dfb = [n for f_ in scope for n in walk_own(f_) if isinstance(n, ast.If) and "DataFrame" in ast.unparse(n.test) and "isinstance" in ast.unparse(n.test)]
        ok = bool(dfb) and all(m.block(b.body, "_fail_if_duplicates_in_columns") is True for b in dfb)
        ctx.ob("F1", ok=ok, distinct="duplicates")
        if not ok:
            ctx.violation("F1", "dataframe-duplicates", itf.loc(dfb[0] if dfb else callee), "the DataFrame branch of the data-processing step does not call _fail_if_duplicates_in_columns: duplicate column names are silently collapsed by dict(data)")
        # unsupported containers are rejected
        ok = any(isinstance(n, ast.Raise) for f_ in scope if not f_.name.startswith("_fail_if") for n in walk_own(f_))
        ctx.ob("F1", ok=ok, distinct="unsupported-container")
        if not ok:
            ctx.violation("F1", "unsupported-container", itf.loc(callee), "the data-processing step no longer rejects unsupported containers")
    # conversion and root-node check before the DAG function is called
    dag_call = None
    conc_var = None
    for i, st in enumerate(cte.body):
        if isinstance(st, ast.Assign) and isinstance(st.value, ast.Call) and "concatenate_functions" in ast.unparse(st.value.func):
            conc_var = st.targets[0].id
        if conc_var and any(isinstance(n, ast.Call) and isinstance(n.func, ast.Name) and n.func.id == conc_var for n in ast.walk(st)):
            dag_call = i
    if dag_call is None:
        raise AnalysisError("call of the concatenated DAG function not found in compute_taxes_and_transfers")
    for v in ("_convert_data_to_correct_types", "_fail_if_root_nodes_are_missing"):
        idx = [i for i, st in enumerate(cte.body) if m.stmt(st, v, ()) is True]
        ok = bool(idx) and idx[0] < dag_call
        ctx.ob("F1", ok=ok, distinct=("before-dag", v))
        if not ok:
            ctx.violation("F1", f"before-dag|{v}", itf.loc(cte.body[dag_call]), f"{v} is not called on every path before the DAG function runs")
    ctx.floor("F1", 6)


NAN_DROPPING = ("nunique", "value_counts", "count")
TOLERANT = ("isclose", "allclose", "approx", "assert_almost_equal", "round", "around", "rint")


def exact_comparisons(ctx, repo, itf, rid="F5"):
    ctx.rule(rid, "validators and the type converter compare exactly: no tolerance-based or rounding comparison (isclose / allclose / round) decides whether input is accepted")
    gt = repo.module("gettsim_typing.py")
    targets = [(itf, n) for n in [*VALIDATORS, "_fail_if_duplicates_in_columns"]] + [(gt, "convert_series_to_internal_type"), (gt, "check_series_has_expected_type")]
    for mod, name in targets:
        fd = mod.functions.get(name)
        if fd is None:
            continue
        bad = [n for n in ast.walk(fd) if isinstance(n, ast.Call) and ((isinstance(n.func, ast.Attribute) and n.func.attr in TOLERANT) or (isinstance(n.func, ast.Name) and n.func.id in TOLERANT))]
        # statistics that silently skip missing values decide nothing about a column that has them
        nanblind = [n for n in ast.walk(fd) if isinstance(n, ast.Call) and isinstance(n.func, ast.Attribute) and (
            (n.func.attr in NAN_DROPPING and not any(kw.arg == "dropna" and isinstance(kw.value, ast.Constant) and kw.value.value is False for kw in n.keywords))
            or n.func.attr == "dropna")]
        ctx.ob(rid, ok=not bad and not nanblind, distinct=name)
        for n in bad:
            ctx.violation(rid, f"{name}|{ast.unparse(n.func)}", mod.loc(n) + f" {name}", f"`{ast.unparse(n)[:80]}` accepts input that differs from what it is checked against by a tolerance: values that are not constant within a group / not integral are let through and changed")
        for n in nanblind:
            ctx.violation(rid, f"{name}|{ast.unparse(n.func)}", mod.loc(n) + f" {name}", f"`{ast.unparse(n)[:80]}` leaves missing values out of the comparison: a group holding a value for one member and NaN for another passes the check although the column is not constant within the group")


def validators(ctx, repo, itf):
    ctx.rule("F2", "each validator raises under a condition computed from its argument")
    for v in [*VALIDATORS, "_fail_if_duplicates_in_columns", "_fail_if_root_nodes_are_missing"]:
        fd = find_function(itf, v, "primary anchor (imported by the test-suite)")
        params = {a.arg for a in fd.args.args}
        derived = set(params)
        for _ in range(3):
            for n in walk_own(fd):
                if isinstance(n, ast.Assign) and any(isinstance(x, ast.Name) and x.id in derived for x in ast.walk(n.value)):
                    for t in n.targets:
                        for x in ast.walk(t):
                            if isinstance(x, ast.Name):
                                derived.add(x.id)
                if isinstance(n, ast.For) and any(isinstance(x, ast.Name) and x.id in derived for x in ast.walk(n.iter)):
                    for x in ast.walk(n.target):
                        if isinstance(x, ast.Name):
                            derived.add(x.id)
        ok = False
        dom = Dominance(fd)
        for n in walk_own(fd):
            if isinstance(n, ast.Raise):
                # dominating conditions include guard clauses (`if fine: continue/return` before the raise)
                for test, _pol in dom.of(n):
                    if any(isinstance(x, ast.Name) and x.id in derived for x in ast.walk(test)):
                        ok = True
        ctx.ob("F2", ok=ok, distinct=v)
        if not ok:
            ctx.violation("F2", f"{v}|never-raises", itf.loc(fd) + f" {v}", f"{v} contains no `raise` under a condition on its argument: the malformed input it is named after is accepted")
    # the pid validator covers both absence and duplicates
    fd = itf.functions["_fail_if_pid_is_non_unique"]
    txt = ast.unparse(fd)
    ok = ("not in data" in txt or "not in" in txt) and ("is_unique" in txt or "duplicated" in txt) and sum(isinstance(n, ast.Raise) for n in ast.walk(fd)) >= 2
    ctx.ob("F2", ok=ok, distinct="pid-two-checks")
    if not ok:
        ctx.violation("F2", "_fail_if_pid_is_non_unique|two-checks", itf.loc(fd), "the p_id validator no longer rejects both a missing and a non-unique p_id")
    fd = itf.functions["_fail_if_foreign_keys_are_invalid"]
    loops = [n for n in walk_own(fd) if isinstance(n, ast.For)]
    fk_locals = {"FOREIGN_KEYS"}
    for n in walk_own(fd):
        if isinstance(n, ast.Assign) and isinstance(n.targets[0], ast.Name) and any(isinstance(x, ast.Name) and x.id in fk_locals for x in ast.walk(n.value)):
            fk_locals.add(n.targets[0].id)
    ok = bool(loops) and all(any(isinstance(x, ast.Name) and x.id in fk_locals for x in ast.walk(lp.iter)) for lp in loops) and sum(isinstance(n, ast.Raise) for n in ast.walk(fd)) >= 2
    ctx.ob("F2", ok=ok, distinct="fk-two-checks")
    if not ok:
        ctx.violation("F2", "_fail_if_foreign_keys_are_invalid|two-checks", itf.loc(fd), "the foreign-key validator no longer iterates over FOREIGN_KEYS with (at least) two rejections: pointers to a missing person and pointers to oneself")
    # F6: an accumulator overwritten in a loop keeps only the last iteration
    for v in [*VALIDATORS, "_fail_if_duplicates_in_columns"]:
        vf = itf.functions[v]
        body = vf.body
        for i, st in enumerate(body):
            if not isinstance(st, ast.For):
                continue
            before = {t.id for b in body[:i] for n in ast.walk(b) if isinstance(n, ast.Assign) for t in n.targets if isinstance(t, ast.Name)}
            after = {x.id for b in body[i + 1:] for x in ast.walk(b) if isinstance(x, ast.Name) and isinstance(x.ctx, ast.Load)}
            for n in ast.walk(st):
                if isinstance(n, ast.Assign) and isinstance(n.targets[0], ast.Name):
                    nm = n.targets[0].id
                    if nm in before and nm in after and not any(isinstance(x, ast.Name) and x.id == nm for x in ast.walk(n.value)):
                        # overwritten without reading its previous value, and not consumed inside the loop before the next overwrite
                        used_in_loop = any(isinstance(x, ast.Name) and x.id == nm and isinstance(x.ctx, ast.Load) for x in ast.walk(st))
                        ctx.ob("F2", ok=used_in_loop, distinct=(v, nm))
                        if not used_in_loop:
                            ctx.violation("F2", f"{v}|overwritten-accumulator|{nm}", itf.loc(n) + f" {v}", f"`{ast.unparse(n)[:70]}` overwrites `{nm}` in every iteration although it is initialised before the loop and only read after it: only the last column is actually checked")
    # -1 (no pointer) is the only value admitted besides existing p_ids
    sets = [n for n in ast.walk(fd) if isinstance(n, ast.Set)]
    ok = any(len(x.elts) == 1 and ast.unparse(x.elts[0]) == "-1" for x in sets)
    ctx.ob("F2", ok=ok, distinct="fk-sentinel")
    if not ok:
        ctx.violation("F2", "_fail_if_foreign_keys_are_invalid|sentinel", itf.loc(fd), "the set of admissible pointer values is no longer `existing p_ids plus -1`")


def foreign_keys(ctx, repo, itf):
    ctx.rule("S-fk", "every p_id_* argument of a grouping function and every pointer named in the property is in FOREIGN_KEYS; every FOREIGN_KEYS entry is an int input variable")
    fk = repo.foreign_keys
    it = repo.input_types
    for name, (fname, fd) in repo.grouping_funcs.items():
        for a in fd.args.args:
            if a.arg.startswith("p_id_"):
                ok = a.arg in fk
                ctx.ob("S-fk", ok=ok, distinct=(fname, a.arg))
                if not ok:
                    ctx.violation("S-fk", f"{fname}|{a.arg}", f"src/_gettsim/groupings.py:{fd.lineno} {fname}", f"{fname} dereferences pointer column {a.arg} without a check, but {a.arg} is not in FOREIGN_KEYS: a pointer to a missing person is not rejected")
    for p in PROPERTY_POINTERS:
        ok = p in fk
        ctx.ob("S-fk", ok=ok, distinct=("property", p))
        if not ok:
            ctx.violation("S-fk", f"property|{p}", "src/_gettsim/config.py FOREIGN_KEYS", f"{p} is not validated as a foreign key")
    for k in fk:
        ok = it.get(k) == "int"
        ctx.ob("S-fk", ok=ok, distinct=("type", k))
        if not ok:
            ctx.violation("S-fk", f"type|{k}", "src/_gettsim/config.py FOREIGN_KEYS", f"foreign key {k} is not an int input variable ({it.get(k)})")
    ctx.floor("S-fk", 10)


def narrowing(ctx, repo):
    ctx.rule("F3", "in the type converter (incl. its helpers): float -> int happens only under an equality test between the series and its integer cast; -> bool only under a test that all values are 0/1; bool -> float and object input raise; every except re-raises; unsupported target types raise")
    import itertools

    from staticlib.guards import Dominance, atoms_and_eval, scope_functions

    gt = repo.module("gettsim_typing.py")
    main = find_function(gt, "convert_series_to_internal_type", "primary anchor")
    scope = scope_functions(gt, main)
    doms = {f.name: Dominance(f) for f in scope}
    # conditions at the (single) call site of each helper, expressed in the caller
    callsite = {main.name: []}
    for f in scope:
        for n in ast.walk(f):
            if isinstance(n, ast.Call) and isinstance(n.func, ast.Name) and n.func.id in doms and n.func.id != f.name:
                callsite.setdefault(n.func.id, callsite.get(f.name, []) + doms[f.name].of(n))

    def atom_for(series):
        def atom(node):
            t = ast.unparse(node)
            if isinstance(node, ast.UnaryOp) and isinstance(node.op, ast.Not) and isinstance(node.operand, ast.ListComp):
                # `not [v for v in s.unique() if v not in (0, 1)]` is `len([...]) == 0`
                lt = f"len({ast.unparse(node.operand)})"
                if series in lt and _mentions_only_0_1(lt + " == 0") and " in " in lt and "not " in lt:
                    return "ZERO_ONE"
            if isinstance(node, ast.Call) and isinstance(node.func, ast.Name) and node.func.id in gt.functions and node.func.id != main.name and len(node.args) == 1 and not node.keywords:
                # a predicate helper of one argument: read its body as one expression over the argument
                from staticlib.ordersem import NotExpressible, function_as_expression
                h = gt.functions[node.func.id]
                if len(h.args.args) == 1:
                    try:
                        he = function_as_expression(h)
                    except NotExpressible:
                        he = None
                    if he is not None:
                        par_ = h.args.args[0].arg
                        class _S(ast.NodeTransformer):
                            def visit_Name(self, n):
                                return ast.copy_location(ast.parse(ast.unparse(node.args[0]), mode="eval").body, n) if n.id == par_ else n
                        he = ast.fix_missing_locations(_S().visit(he))
                        he = ast.parse(ast.unparse(he), mode="eval").body
                        inner = atom(he)
                        if inner is not None:
                            return inner
            if isinstance(node, ast.Call):
                fn_ = ast.unparse(node.func)
                args = [ast.unparse(a) for a in node.args]
                if fn_.endswith(("array_equal", "array_equiv")) and len(args) == 2 and any(a.startswith(f"{series}.astype(") for a in args) and series in args:
                    return "INTEGRAL"
                if fn_.endswith(".equals") and args and args[0].startswith(f"{series}.astype("):
                    return "INTEGRAL"
                for k, nm in (("is_float_dtype", "IS_FLOAT"), ("is_bool_dtype", "IS_BOOL"), ("is_integer_dtype", "IS_INT"), ("is_object_dtype", "IS_OBJECT"), ("is_datetime64_any_dtype", "IS_DATE")):
                    if fn_ == k and len(args) == 1:
                        return nm
                if fn_.endswith(".all") and not args and f"{series}.astype(" in t and "==" in t:
                    return "INTEGRAL"
                if fn_.endswith(".all") and "isin(" in t and _mentions_only_0_1(t):
                    return "ZERO_ONE"
            if isinstance(node, ast.Compare) and len(node.ops) == 1 and isinstance(node.ops[0], ast.Eq):
                l, r = ast.unparse(node.left), ast.unparse(node.comparators[0])
                if l.startswith("len(") and r == "0" and series in l and _mentions_only_0_1(l + " == 0") and " in " in l and "not " in l:
                    return "ZERO_ONE"
                if "internal_type" in (l, r):
                    return "TYPE_" + (r if l == "internal_type" else l)
            return None
        return atom

    nconv = 0
    for f in scope:
        dom = doms[f.name]
        for n in ast.walk(f):
            if not (isinstance(n, ast.Call) and isinstance(n.func, ast.Attribute) and n.func.attr == "astype" and n.args):
                continue
            par = dom.parent.get(n)
            if not isinstance(par, (ast.Assign, ast.Return)):
                continue  # a cast inside a test, not a conversion of the result
            series = ast.unparse(n.func.value)
            t = ast.unparse(n.args[0])
            conds = callsite.get(f.name, []) + dom.of(par)
            names, conj = atoms_and_eval(conds, atom_for(series))
            opaque_value_tests = [x for x in names if x.startswith("opaque:") and series in x and any(k in x for k in ("astype", "%", "mod", "is_integer", "unique", "isin", "round", "trunc", "floor")) and not any(k in x for k in TOLERANT)]

            def violated(pred):
                for vals in itertools.product([False, True], repeat=len(names)):
                    env = dict(zip(names, vals))
                    if conj(env) and pred(env):
                        return True
                return False

            if t in ("int", "np.int64", "numpy.int64", "'int64'", "'int'"):
                nconv += 1
                bad = violated(lambda e: e.get("IS_FLOAT", "IS_FLOAT" not in names) and not e.get("INTEGRAL", False))
                if bad and opaque_value_tests:
                    raise AnalysisError(f"float->int conversion is guarded by `{opaque_value_tests[0][7:90]}`, an idiom F3 does not know; re-read needed")
                ctx.ob("F3", ok=not bad, distinct=("->int", f.name, par.lineno))
                if bad:
                    ctx.violation("F3", "float->int|unguarded", gt.loc(par) + f" {f.name}", f"`{ast.unparse(par)[:70]}` can convert a float series to int without the test that the cast leaves every value unchanged: decimals are truncated silently")
            elif t == "bool":
                nconv += 1
                bad = violated(lambda e: not e.get("ZERO_ONE", False))
                if bad and opaque_value_tests:
                    raise AnalysisError(f"->bool conversion is guarded by `{opaque_value_tests[0][7:90]}`, an idiom F3 does not know; re-read needed")
                ctx.ob("F3", ok=not bad, distinct=("->bool", f.name, par.lineno))
                if bad:
                    ctx.violation("F3", "->bool|unguarded", gt.loc(par) + f" {f.name}", f"`{ast.unparse(par)[:70]}` can convert to bool without the test that all values are 0 or 1")
            elif t == "float":
                nconv += 1
                bad = violated(lambda e: e.get("IS_BOOL", "IS_BOOL" not in names))
                ctx.ob("F3", ok=not bad, distinct=("->float", f.name))
                if bad:
                    ctx.violation("F3", "bool->float|accepted", gt.loc(par) + f" {f.name}", "conversion to float is no longer guarded against boolean input (True/False would become 1.0/0.0)")
            else:
                continue
            # object dtype is rejected before any conversion
            if t in ("int", "np.int64", "numpy.int64", "bool", "float"):
                badobj = "IS_OBJECT" not in names or violated(lambda e: e.get("IS_OBJECT", False))
                ctx.ob("F3", ok=not badobj, distinct=("object", f.name, par.lineno))
                if badobj:
                    ctx.violation("F3", "object|accepted", gt.loc(par) + f" {f.name}", "object-dtype input can reach a conversion instead of being rejected up front")
    if nconv < 4:
        raise AnalysisError(f"type converter: only {nconv} conversions recognised; F3 needs a re-read")
    for f in scope:
        for h in [n for n in ast.walk(f) if isinstance(n, ast.ExceptHandler)]:
            ok = any(isinstance(x, ast.Raise) for x in ast.walk(h))
            ctx.ob("F3", ok=ok, distinct=("except", f.name, h.lineno))
            if not ok:
                ctx.violation("F3", "except|swallowed", gt.loc(h) + f" {f.name}", "an except clause swallows the conversion error instead of re-raising")
    # unsupported internal types raise: a raise dominated by the negation of every `internal_type == X` test
    dom = doms[main.name]
    ok = False
    for r in [n for n in ast.walk(main) if isinstance(n, ast.Raise)]:
        names, conj = atoms_and_eval(dom.of(r), atom_for("out"))
        types = [x for x in names if x.startswith("TYPE_")]
        if len(types) >= 3 and conj({x: False for x in names}) and not any(conj({**{x: False for x in names}, tname: True}) for tname in types):
            ok = True
    ctx.ob("F3", ok=ok, distinct="unsupported-type")
    if not ok:
        ctx.violation("F3", "unsupported-type|accepted", gt.loc(main), "an unsupported internal type no longer raises")


def joint_assessment(ctx, repo):
    """F7: spouses with contradictory joint-assessment flags are rejected whichever of them comes first"""
    ctx.rule("F7", "in the tax-unit scan the contradiction test (flag of the person != flag of the already-seen spouse) is guarded only by 'spouse already seen', not by the value of either flag: the rejection is symmetric in the two spouses")
    from staticlib.guards import Dominance

    g = repo.module("groupings.py")
    gf = repo.grouping_funcs.get("sn_id")
    if gf is None:
        raise AnalysisError("grouping sn_id vanished")
    fd = gf[1]
    flag_param = [a.arg for a in fd.args.args if "veranlagt" in a.arg]
    if len(flag_param) != 1:
        raise AnalysisError("sn_id: joint-assessment flag parameter not recognised")

    def derived_names(f, seeds):
        d = set(seeds)
        for _ in range(4):
            for n in ast.walk(f):
                if isinstance(n, ast.Assign) and any(isinstance(x, ast.Name) and x.id in d for x in ast.walk(n.value)):
                    for t in n.targets:
                        for tt in (t.elts if isinstance(t, (ast.Tuple, ast.List)) else [t]):
                            if isinstance(tt, ast.Name):
                                d.add(tt.id)
                            elif isinstance(tt, ast.Subscript) and isinstance(tt.value, ast.Name):
                                d.add(tt.value.id)
        return d

    derived = derived_names(fd, flag_param)
    dom = Dominance(fd)
    counts, defs = {}, {}
    for n in ast.walk(fd):
        if isinstance(n, ast.Assign) and len(n.targets) == 1 and isinstance(n.targets[0], ast.Name):
            counts[n.targets[0].id] = counts.get(n.targets[0].id, 0) + 1
            defs[n.targets[0].id] = n.value
    bool_locals = {k: v for k, v in defs.items() if isinstance(v, (ast.BoolOp, ast.Compare))}

    class Inline(ast.NodeTransformer):
        def visit_Name(self, n):
            if n.id in bool_locals and isinstance(n.ctx, ast.Load):
                return ast.parse(ast.unparse(bool_locals[n.id]), mode="eval").body
            return n

    def inl(t):
        return Inline().visit(ast.parse(ast.unparse(t), mode="eval").body)
    # raise sites: a raise in the scan itself, or a call of a module-level helper that raises
    sites = []  # (node in fd, guards inside helper [tests over helper params], flag-derived helper params)
    for n in ast.walk(fd):
        if isinstance(n, ast.Raise):
            sites.append((n, [], set()))
        if isinstance(n, ast.Call) and isinstance(n.func, ast.Name) and n.func.id in g.functions and n.func.id != fd.name:
            h = g.functions[n.func.id]
            hr = [x for x in ast.walk(h) if isinstance(x, ast.Raise)]
            if hr:
                hparams = [a.arg for a in h.args.args]
                bound = dict(zip(hparams, n.args))
                bound.update({kw.arg: kw.value for kw in n.keywords})
                hflags = {p_ for p_, a in bound.items() if any(isinstance(x, ast.Name) and x.id in derived for x in ast.walk(a))}
                hd = Dominance(h)
                for r in hr:
                    sites.append((n, [(t, pol, derived_names(h, hflags)) for t, pol in hd.of(r)], hflags))
    if not sites:
        ctx.ob("F7", ok=False, distinct="raise")
        ctx.violation("F7", "sn_id|no-raise", g.loc(fd) + f" {gf[0]}", "the tax-unit scan no longer rejects spouses with contradictory joint-assessment flags")
        return
    for node, inner, hflags in sites:
        flagtests = [inl(t) for t, pol in dom.of(node) if any(isinstance(x, ast.Name) and x.id in derived for x in ast.walk(t))]
        # a guard that merely caches `spouse already seen` in a local is not a flag test
        flagtests = [t for t in flagtests if not _only_seen_test(fd, t, derived)]
        inner_flag = [t for t, pol, hd_ in inner if any(isinstance(x, ast.Name) and x.id in hd_ for x in ast.walk(t))]
        allf = flagtests + inner_flag
        cmp_ok = len(allf) == 1 and isinstance(allf[0], ast.Compare) and len(allf[0].ops) == 1 and isinstance(allf[0].ops[0], (ast.NotEq, ast.Eq, ast.IsNot, ast.Is)) and all(isinstance(side, (ast.Name, ast.Subscript)) and not any(isinstance(x, ast.Constant) for x in ast.walk(side)) for side in (allf[0].left, allf[0].comparators[0]))
        ctx.ob("F7", ok=cmp_ok, distinct=getattr(node, "lineno", 0))
        if not cmp_ok:
            extra = [ast.unparse(t) for t in allf]
            ctx.violation("F7", "sn_id|asymmetric-guard", g.loc(node) + f" {gf[0]}", f"the contradiction is raised only under {extra}: a couple is rejected or accepted depending on which spouse is listed first / which of them carries the flag")


def _only_seen_test(fd, test, derived):
    """the test mentions a flag-derived container only through membership of the spouse (`spouse in seen_map`),
    or asks whether a look-up of the spouse found an entry (`entry is not None` with entry = seen_map.get(spouse))"""
    if isinstance(test, ast.Compare) and len(test.ops) == 1 and isinstance(test.ops[0], (ast.Is, ast.IsNot)) \
            and isinstance(test.comparators[0], ast.Constant) and test.comparators[0].value is None and isinstance(test.left, ast.Name):
        defs = [a.value for a in ast.walk(fd) if isinstance(a, ast.Assign) and len(a.targets) == 1 and isinstance(a.targets[0], ast.Name) and a.targets[0].id == test.left.id]
        if defs and all(any(isinstance(c, ast.Call) and isinstance(c.func, ast.Attribute) and c.func.attr == "get" for c in ast.walk(d)) for d in defs):
            return True
    for x in ast.walk(test):
        if isinstance(x, ast.Name) and x.id in derived:
            ok = False
            for c in ast.walk(test):
                if isinstance(c, ast.Compare) and any(isinstance(o, (ast.In, ast.NotIn)) for o in c.ops) and any(x is y for y in ast.walk(c.comparators[0])):
                    ok = True
            if not ok:
                return False
    return True


def _mentions_only_0_1(test_text):
    """the test compares against the literals 0 and 1 (and no other number)"""
    try:
        t = ast.parse(test_text, mode="eval")
    except SyntaxError:
        return False
    nums = {c.value for c in ast.walk(t) if isinstance(c, ast.Constant) and isinstance(c.value, (int, float)) and not isinstance(c.value, bool)}
    # `len([...]) == 0` contributes a 0; accept {0, 1}
    return {0, 1} <= {int(x) for x in nums if float(x).is_integer()} and all(float(x) in (0.0, 1.0) for x in nums)


def announced(ctx, repo, itf):
    ctx.rule("F4", "in _convert_data_to_correct_types every recorded conversion is announced by warnings.warn (unless an error is raised); a failed conversion is recorded and raised")
    from staticlib.guards import Dominance

    fd = find_function(itf, "_convert_data_to_correct_types", "primary anchor")
    dom = Dominance(fd)
    lists = {}
    for n in walk_own(fd):
        if isinstance(n, ast.Assign) and isinstance(n.targets[0], ast.Name) and isinstance(n.value, ast.List):
            lists[n.targets[0].id] = len(n.value.elts)
    appended = {}
    for n in ast.walk(fd):
        if isinstance(n, ast.Call) and isinstance(n.func, ast.Attribute) and n.func.attr == "append" and isinstance(n.func.value, ast.Name) and n.func.value.id in lists:
            appended[n.func.value.id] = n
    handlers = [h for h in ast.walk(fd) if isinstance(h, ast.ExceptHandler)]
    errs = [k for k, n in appended.items() if any(n in list(ast.walk(h)) for h in handlers)]
    conv = [k for k in appended if k not in errs]
    if len(conv) != 1 or len(errs) != 1:
        raise AnalysisError("_convert_data_to_correct_types: the two collector lists (conversions, errors) not recognised; F4 needs a re-read")
    cv, er = conv[0], errs[0]

    def holds(test, lens):
        """evaluate a test over the collector lists with the given lengths; None if it involves anything else"""
        class R(ast.NodeTransformer):
            def visit_Call(self, n):
                if isinstance(n.func, ast.Name) and n.func.id == "len" and len(n.args) == 1 and isinstance(n.args[0], ast.Name) and n.args[0].id in lens:
                    return ast.Constant(lens[n.args[0].id])
                return self.generic_visit(n)

            def visit_Name(self, n):
                if n.id in lens:
                    return ast.Constant(lens[n.id])  # truthiness of a list = its length
                return n

        e = R().visit(ast.parse(ast.unparse(test), mode="eval").body)
        ast.fix_missing_locations(e)
        if any(isinstance(x, (ast.Name, ast.Call, ast.Attribute, ast.Subscript)) for x in ast.walk(e)):
            return None
        try:
            return bool(eval(compile(ast.Expression(e), "<t>", "eval"), {"__builtins__": {}}))  # noqa: S307 - constant expression
        except Exception:  # noqa: BLE001
            return None

    def reached(node, lens):
        for t, pol in dom.of(node):
            if not any(isinstance(x, ast.Name) and x.id in lens for x in ast.walk(t)):
                continue  # conditions unrelated to the collectors (none expected after the loop)
            h = holds(t, lens)
            if h is None:
                raise AnalysisError(f"_convert_data_to_correct_types: test `{ast.unparse(t)[:60]}` on the collector lists not evaluable; F4 needs a re-read")
            if h != pol:
                return False
        return True

    loop_end = max((n.end_lineno for n in walk_own(fd) if isinstance(n, ast.For)), default=0)
    raises = [n for n in ast.walk(fd) if isinstance(n, ast.Raise) and n.lineno > loop_end]
    warns = [n for n in ast.walk(fd) if isinstance(n, ast.Call) and ast.unparse(n.func) == "warnings.warn" and n.lineno > loop_end]
    one_err = [{er: lists[er] + 1, cv: lists[cv]}, {er: lists[er] + 1, cv: lists[cv] + 1}]
    ok_raise = bool(raises) and all(any(reached(r, lens) for r in raises) for lens in one_err)
    ok_warn = bool(warns) and any(reached(w, {er: lists[er], cv: lists[cv] + 1}) for w in warns)
    ctx.ob("F4", ok=ok_warn, distinct="warn")
    if not ok_warn:
        ctx.violation("F4", "conversion-not-announced", itf.loc(fd), f"with one successful automatic conversion recorded in `{cv}` (and no error) no warnings.warn is reached: types are coerced silently")
    ctx.ob("F4", ok=ok_raise, distinct="raise")
    if not ok_raise:
        ctx.violation("F4", "conversion-error-not-raised", itf.loc(fd), f"with one failed conversion recorded in `{er}` no raise is reached")
    # the conversion is attempted in a try that catches ValueError, and recorded on success (try body or else)
    rec = appended[cv]
    blk = None
    for n in ast.walk(fd):
        if isinstance(n, ast.Try) and rec in list(ast.walk(n)):
            blk = n
    ok = blk is not None and any(isinstance(x, ast.Call) and isinstance(x.func, ast.Name) and x.func.id == "convert_series_to_internal_type" for st in blk.body for x in ast.walk(st)) and any(h.type is not None and "ValueError" in ast.unparse(h.type) for h in blk.handlers) and not any(rec in list(ast.walk(h)) for h in blk.handlers) and not any(rec in list(ast.walk(st)) for st in blk.finalbody)
    ctx.ob("F4", ok=ok, distinct="record")
    if not ok:
        ctx.violation("F4", "conversion-not-recorded", itf.loc(fd), "conversion and its recording are no longer tied together in one try block catching ValueError")
    # conversion is attempted exactly for columns with a known type that do not already have it
    call = next(x for st in (blk.body if blk else []) for x in ast.walk(st) if isinstance(x, ast.Call) and isinstance(x.func, ast.Name) and x.func.id == "convert_series_to_internal_type") if ok else None
    if call is not None:
        from staticlib.guards import atoms_and_eval

        def atom(node):
            if isinstance(node, ast.Call) and isinstance(node.func, ast.Name) and node.func.id == "check_series_has_expected_type":
                return "HAS_TYPE"
            if isinstance(node, ast.Name) and node.id == "internal_type":
                return "KNOWN"
            return None

        names, conj = atoms_and_eval(dom.of(call), atom)
        rel = [x for x in names if x in ("HAS_TYPE", "KNOWN")]
        good = set(rel) == {"HAS_TYPE", "KNOWN"}
        if good:
            import itertools

            for vals in itertools.product([False, True], repeat=len(names)):
                env = dict(zip(names, vals))
                if conj(env) != (env["KNOWN"] and not env["HAS_TYPE"]) and all(not k.startswith("opaque:") or not env[k] for k in names):
                    good = False
        ctx.ob("F4", ok=good, distinct="gate")
        if not good:
            ctx.violation("F4", "conversion-gate", itf.loc(call), "conversion is no longer applied exactly to the columns whose documented type is known and differs from their dtype")


