"""C14 - simulation is pure, deterministic and independent of process history (partial).
A result can depend on history only through state that outlives a call; which objects a function
may write, and whether they are fresh, caller-owned or module-level, is decided from the source."""
from staticlib.session import get_session

from . import _effects_rules as R
from ._purity import purity_findings


def check(ctx):
    repo = get_session(ctx.root).repo
    ctx.assumptions += [
        "calls the engine cannot resolve (pandas, numpy, dags, yaml) are assumed to return fresh objects and not to write their arguments; they are counted in the evidence",
        "equality of results with a fresh process is not decided, only the absence of state through which it could fail",
    ]
    R.rule_E1(ctx, repo)
    R.rule_E2(ctx, repo)
    R.rule_E3(ctx, repo)
    R.rule_E4(ctx, repo)
    R.rule_nondet(ctx, repo)
    ctx.rule("P", "policy rules are effect-free and deterministic: no store into arguments, parameters or module-level bindings, no global/nonlocal, no I/O, clock or RNG")
    for r in repo.rules:
        fs = list(purity_findings(repo, r))
        ctx.ob("P", ok=not fs, distinct=r.qual)
        for rid, key, ln, msg in fs:
            ctx.violation("P", f"{r.qual}|{key}", f"src/_gettsim/{r.mod.rel}:{ln} {r.name}", msg)
    ctx.floor("P", 350)
    e = R.effects(repo)
    ctx.extra_cov["functions_summarised"] = len(e.funcs)
    ctx.extra_cov["fixpoint_rounds"] = e.rounds
    ctx.extra_cov["unresolved_calls"] = sum(len(f.unknown) for f in e.funcs.values())
