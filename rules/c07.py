"""C07 - the policy environment for a date is exactly the law in force that day (partial).

R1-R3 registry: one implementation per column name and day, regardless of import order.
O1-O4 order domain: activity test, parameter selector, rounding selector and registration conflict
      test are *exactly* the inclusive predicates, for every weak ordering of the dates involved.
Y1 dated-entry integrity of all YAML files; Y2 resolution is total on every interval since 1980;
Y3 nothing changes inside an interval (first day vs last day) except the date stamp."""
from __future__ import annotations

import ast
import datetime
import re

from staticlib.common import AnalysisError
from staticlib.ordersem import Subst, equivalent_on_orderings, truth_table
from staticlib.probes import local_assigns
from staticlib.session import get_session
from staticlib.srcmodel import find_function, walk_own
from staticlib.yamlmodel import Missing

DATE_LIKE = re.compile(r"^\d{4}-\d{1,2}-\d{1,2}$")
DOC_KEYS = {"name", "description", "unit", "reference", "reference_period", "note", "type", "progressionsfaktor",
            "access_different_date", "reference period", "time"}


def _info_key(node):
    """f.__info__["start_date"] -> 'start_date'"""
    if isinstance(node, ast.Subscript) and isinstance(node.slice, ast.Constant) and isinstance(node.slice.value, str):
        if "__info__" in ast.unparse(node.value):
            return node.slice.value
    return None


def check(ctx):
    s = get_session(ctx.root)
    repo = s.repo
    ctx.assumptions += [
        "ISO date strings in decorators are compared as dates; an undecorated function is valid on every day",
        "YAML is parsed by PyYAML's safe loader; only keys that parse as datetime.date are dated entries (as in the loader)",
    ]
    registry(ctx, repo)
    order_domain(ctx, repo)
    yaml_integrity(ctx, s)
    resolution(ctx, s)


# ====================================================================== R
def registry(ctx, repo):
    ctx.rule("R1", "for every column name the validity intervals of all implementations (decorated or not, all modules) are pairwise disjoint")
    ctx.rule("R2", "no policy module defines the same function name twice (the later definition silently replaces the earlier one)")
    ctx.rule("R3", "decorator dates are ISO YYYY-MM-DD literals with start <= end")
    ctx.rule("R4", "successive implementations of one column are adjacent: no hole of up to a month between the end of one and the start of the next (a date typo leaves the column undefined on those days)")
    byname = {}
    for r in repo.rules:
        if r.bad_decorator:
            ctx.skip("R1", r.qual, f"decorator not understood: {r.bad_decorator}")
            continue
        ok = r.start is not None and re.fullmatch(r"\d{4}-\d{2}-\d{2}", r.start_s or "") and re.fullmatch(r"\d{4}-\d{2}-\d{2}", r.end_s or "") and r.start <= r.end
        ctx.ob("R3", ok=bool(ok), distinct=r.qual)
        if not ok:
            ctx.violation("R3", f"{r.qual}|{r.start_s}|{r.end_s}", r.where, f"validity interval [{r.start_s}, {r.end_s}] is not a pair of ISO dates with start <= end")
            continue
        nm = r.dag_name if r.decorated else r.name
        byname.setdefault(nm, []).append(r)
    for nm, rs in sorted(byname.items()):
        rs = sorted(rs, key=lambda r: (r.start, r.end))
        for i, a in enumerate(rs):
            for b in rs[i + 1:]:
                ov = max(a.start, b.start) <= min(a.end, b.end)
                ctx.ob("R1", ok=not ov, distinct=(nm, a.qual, b.qual))
                if ov:
                    ctx.violation(
                        "R1", f"{nm}|{a.qual}|{b.qual}", b.where,
                        f"column {nm!r} has two implementations valid on {max(a.start, b.start)}: {a.qual} [{a.start_s}..{a.end_s}] and {b.qual} [{b.start_s}..{b.end_s}] - which one is used depends on module load order",
                    )
        if len(rs) == 1:
            ctx.ob("R1", ok=True, distinct=(nm,))
        for a, b in zip(rs, rs[1:]):
            gap = (b.start - a.end).days - 1
            if gap <= 0:
                continue
            short = gap <= 31
            ctx.ob("R4", ok=not short, distinct=(nm, a.qual, b.qual))
            if short:
                ctx.violation("R4", f"{nm}|{a.qual}|{b.qual}|gap", b.where,
                              f"column {nm!r} has no implementation on the {gap} day(s) between {a.end_s} ({a.qual}) and {b.start_s} ({b.qual}): successive implementations are adjacent everywhere else, so on those days the column silently does not exist")
            else:
                ctx.info(f"column {nm}: no implementation between {a.end_s} and {b.start_s} ({gap} days)")
    for m in repo.policy_modules:
        ctx.ob("R2", ok=not m.dup_functions, distinct=m.rel)
        for name, l1, l2 in m.dup_functions:
            ctx.violation("R2", f"{m.rel}|{name}", f"src/_gettsim/{m.rel}:{l2} {name}", f"function {name} is defined twice in {m.rel} (lines {l1} and {l2})")
    ctx.floor("R1", 300)
    ctx.floor("R3", 350)


# ====================================================================== O
def order_domain(ctx, repo):
    pe = repo.module("policy_environment.py")
    ctx.rule("O1", "the activity test is start <= date <= end on all 13 weak orderings, and a dated function is selected iff it is active (truth table of the selection guard)")
    ctx.rule("O2", "the parameter selector keeps exactly the entries dated <= date and picks the latest")
    ctx.rule("O3", "the rounding-spec selector keeps exactly the entries dated <= date and picks the latest")
    ctx.rule("O4", "the registration conflict test is true exactly when two validity intervals overlap (75 weak orderings)")

    # ---- O1: activity predicate, found from load_functions_for_date through the call graph
    lf = find_function(pe, "load_functions_for_date", "primary anchor")
    from staticlib.guards import scope_functions as _scope_fns

    cands = _scope_fns(pe, lf)
    act_expr = act_fn = None
    for fn in cands:
        for n in ast.walk(fn):
            # the whole boolean expression of a return / a test, not a sub-expression of it
            tops = []
            if isinstance(n, ast.Return) and n.value is not None:
                tops.append(n.value)
            elif isinstance(n, (ast.If, ast.IfExp, ast.While)):
                tops.append(n.test)
            elif isinstance(n, ast.comprehension):
                tops += n.ifs
            elif isinstance(n, ast.Assign):
                tops.append(n.value)
            for t in tops:
                keys = {_info_key(x) for x in ast.walk(t)} - {None}
                if {"start_date", "end_date"} <= keys and isinstance(t, (ast.Compare, ast.BoolOp, ast.UnaryOp)):
                    if act_expr is None:
                        act_expr, act_fn = t, fn
    if act_expr is None:
        from staticlib.ordersem import NotExpressible, function_as_expression

        for fn in cands:
            try:
                e_ = function_as_expression(fn)
            except NotExpressible:
                continue
            keys = {_info_key(x) for x in ast.walk(e_)} - {None}
            if {"start_date", "end_date"} <= keys and isinstance(e_, (ast.Compare, ast.BoolOp, ast.UnaryOp)):
                act_expr, act_fn = e_, fn
                break
    if act_expr is None:
        from staticlib.guards import scope_functions as _scope

        read = {_info_key(x) for f_ in _scope(pe, lf) for x in ast.walk(f_)} - {None}
        if "start_date" in read and "end_date" not in read:
            ctx.ob("O1", ok=False, distinct="activity")
            ctx.violation("O1", "selection-ignores-end-date", pe.loc(lf) + " load_functions_for_date", "the selection of the implementations of a date reads `start_date` but never `end_date`: an implementation whose validity has ended (and that has no successor) stays in the environment of every later date")
            return
        raise AnalysisError("activity test over __info__['start_date'/'end_date'] not found from load_functions_for_date")
    params = [a.arg for a in act_fn.args.args]

    def m1(node):
        k = _info_key(node)
        if k == "start_date":
            return "S"
        if k == "end_date":
            return "E"
        if isinstance(node, ast.Name) and node.id in params and node.id in ("date", "d", "day", "policy_date"):
            return "D"
        if isinstance(node, ast.Name) and node.id in params and "date" in node.id:
            return "D"
        return None

    expr = Subst(m1).visit(ast.parse(ast.unparse(act_expr), mode="eval").body)
    try:
        n, cex = equivalent_on_orderings(expr, ["S", "D", "E"], lambda e: e["S"] <= e["D"] <= e["E"])
    except ValueError as e:
        raise AnalysisError(f"activity test `{ast.unparse(act_expr)}` is not a pure date predicate: {e}") from e
    ctx.ob("O1", ok=cex is None, distinct="activity", n=n)
    ctx.sample({"rule": "O1", "predicate": ast.unparse(act_expr), "orderings": n})
    if cex:
        env, got, want = cex
        ctx.violation("O1", "activity-predicate", pe.loc(act_expr), f"`{ast.unparse(act_expr)}` is {got} for ordering start={env['S']}, date={env['D']}, end={env['E']} (ranks) but inclusive bounds demand {want}")
    # selection guard: functions[...] = f stored iff (not time-dependent) or active
    from staticlib.guards import Dominance, atoms_and_eval, scope_functions

    dom = Dominance(lf)
    stores = [n for n in ast.walk(lf) if isinstance(n, ast.Assign) and isinstance(n.targets[0], ast.Subscript)]
    rets = [n for n in ast.walk(lf) if isinstance(n, ast.Return) and isinstance(n.value, ast.Name)]
    stores = [n for n in stores if rets and isinstance(n.targets[0].value, ast.Name) and n.targets[0].value.id == rets[0].value.id]
    if not stores:
        # comprehension form: `return {name(f): f for f in ... if <guard>}` (directly or via one local)
        comps = [n for n in ast.walk(lf) if isinstance(n, ast.DictComp)]
        allrets = [n for n in ast.walk(lf) if isinstance(n, ast.Return) and n.value is not None]
        comps = [c for c in comps if any(r.value is c for r in allrets) or any(isinstance(a, ast.Assign) and a.value is c and rets and isinstance(a.targets[0], ast.Name) and a.targets[0].id == rets[0].value.id for a in ast.walk(lf))]
        stores = [c.value for c in comps]
    if len(stores) != 1:
        raise AnalysisError("load_functions_for_date: the statement storing a selected function not found")
    store = stores[0]

    def atom(node):
        if isinstance(node, ast.Call) and isinstance(node.func, ast.Name) and node.func.id in pe.functions:
            fn_ = pe.functions[node.func.id]
            ks = {_info_key(x) for x in ast.walk(fn_)} - {None}
            return "A" if ({"start_date", "end_date"} <= ks or fn_ is act_fn) else "T"
        if ast.unparse(node) == ast.unparse(act_expr):
            return "A"
        return None

    from staticlib.ordersem import NotExpressible as _NE, function_as_expression as _fae

    def is_leaf(fn_):
        return "__info__" in ast.unparse(fn_)

    class _InlinePred(ast.NodeTransformer):
        depth = 0

        def visit_Call(self, c):
            self.generic_visit(c)
            if isinstance(c.func, ast.Name) and c.func.id in pe.functions and not is_leaf(pe.functions[c.func.id]) and self.depth < 4:
                h = pe.functions[c.func.id]
                try:
                    body = _fae(h)
                except _NE:
                    return c
                hp = [a.arg for a in h.args.posonlyargs + h.args.args + h.args.kwonlyargs]
                bound = dict(zip(hp, c.args))
                bound.update({kw.arg: kw.value for kw in c.keywords if kw.arg})

                class _Sub(ast.NodeTransformer):
                    def visit_Name(self, n_):
                        return bound.get(n_.id, n_) if isinstance(n_.ctx, ast.Load) else n_

                self.depth += 1
                r_ = self.visit(_Sub().visit(body))
                self.depth -= 1
                return r_
            return c

    conds_ = [(ast.fix_missing_locations(_InlinePred().visit(ast.parse(ast.unparse(t), mode="eval").body)), pol) for t, pol in dom.of(store)]
    names, conj = atoms_and_eval(conds_, atom)
    if not set(names) <= {"T", "A"}:
        raise AnalysisError(f"selection guard in load_functions_for_date involves more than the two tests: {names}")
    bad = []
    for t in (False, True):
        for a_ in (False, True):
            if conj({"T": t, "A": a_}) != ((not t) or a_):
                bad.append((t, a_))
    ctx.ob("O1", ok=not bad, distinct="selection", n=4)
    if bad:
        ctx.violation("O1", "selection-guard", pe.loc(store), f"a function with (time_dependent, active) = {bad[0]} is {'selected' if conj({'T': bad[0][0], 'A': bad[0][1]}) else 'dropped'}; expected: selected iff (not time_dependent) or active")

    # ---- O2 / O3 selectors
    facts = __import__("staticlib.session", fromlist=["x"]).get_session(ctx.root).em.facts
    _selector(ctx, pe, facts.loader, "O2")
    _selector(ctx, pe, facts.rounding_loader, "O3")

    # ---- O5 calendar arithmetic of the look-ups at other dates
    ctx.rule("O5", "the loader moves dates by calendar fields (same day one year earlier with 29 Feb -> 28 Feb; 1 January of the year; the day before an entry) - never by a fixed number of days standing for a year or month")
    loader = facts.loader
    scope = scope_functions(pe, loader)
    nested = [n for f_ in scope for n in ast.walk(f_) if isinstance(n, ast.FunctionDef)]
    scope_all = list({id(f_): f_ for f_ in [*scope, *nested]}.values())
    tds = [n for f_ in scope for n in ast.walk(f_) if isinstance(n, ast.Call) and ast.unparse(n.func).endswith("timedelta")]
    tds = list({id(n): n for n in tds}.values())
    for n in tds:
        days = None
        for kw in n.keywords:
            if kw.arg == "days":
                days = kw.value
        if days is None and n.args:
            days = n.args[0]
        weeks = any(kw.arg == "weeks" for kw in n.keywords)
        lit = days.value if isinstance(days, ast.Constant) else None
        ok = lit == 1 and not weeks
        ctx.ob("O5", ok=ok, distinct=ast.unparse(n))
        if not ok:
            ctx.violation("O5", f"timedelta|{ast.unparse(n)}", pe.loc(n), f"`{ast.unparse(n)}` shifts a date by a fixed number of days; a prior-year / start-of-year look-up computed this way is off by a day in and after leap years")
    src = "\n".join(ast.unparse(f_) for f_ in scope)
    for n in [x for f_ in scope for x in ast.walk(f_)]:
        if isinstance(n, ast.Call) and isinstance(n.func, ast.Attribute) and n.func.attr == "replace":
            kws = {kw.arg: (kw.value.value if isinstance(kw.value, ast.Constant) else None) for kw in n.keywords}
            if "month" in kws or "day" in kws and "year" not in kws:
                good = kws.get("month") == 1 and kws.get("day") == 1
                ctx.ob("O5", ok=good, distinct=ast.unparse(n))
                if not good:
                    ctx.violation("O5", f"replace|{ast.unparse(n)}", pe.loc(n), f"`{ast.unparse(n)}` is not 1 January of the year: the `jahresanfang` value is loaded at another date")
    ok = ".replace(year=" in src and ".replace(month=" in src
    ctx.ob("O5", ok=ok, distinct="replace")
    if not ok and not [n for n in tds if not (isinstance((n.keywords[0].value if n.keywords else (n.args[0] if n.args else None)), ast.Constant))]:
        if not any(f.rule == "O5" for f in ctx.findings):
            raise AnalysisError("loader: prior-year / start-of-year dates are no longer computed with date.replace; O5 needs a re-read")
    # the leap-day fallback (29 Feb -> 28 Feb) is present
    ok = "day=dt.day - 1" in src or "day=28" in src or "day - 1" in src
    ctx.ob("O5", ok=ok, distinct="leap-fallback")
    if not ok and ".replace(year=" in src:
        ctx.violation("O5", "leap-day-fallback", pe.loc(loader), "the prior-year look-up has no fallback for 29 February (date.replace raises ValueError there)")

    alias_shortcuts(ctx, pe, facts.loader)
    # ---- O6 which date each recursive look-up uses
    ctx.rule("O6", "recursive look-ups use the right date: `previous` -> the day before the entry in force; `group.param` -> the same date; `vorjahr` -> the same day one year earlier; `jahresanfang` -> 1 January of the same year")
    lname = loader.name
    date_name = loader.args.args[0].arg
    helpers_by_name = {f_.name: f_ for f_ in scope_all}

    def analyse_fn(f_):
        """recursive look-ups inside f_: (call, date kind, branch words)"""
        params_ = [a.arg for a in f_.args.args + f_.args.kwonlyargs]
        dparam = date_name if date_name in params_ else (params_[0] if params_ else None)
        la = {}
        for n in ast.walk(f_):
            if isinstance(n, ast.Assign) and len(n.targets) == 1 and isinstance(n.targets[0], ast.Name):
                la.setdefault(n.targets[0].id, []).append(n.value)
        parents = {}
        for n in ast.walk(f_):
            for c in ast.iter_child_nodes(n):
                parents[c] = n

        def branch_words(node):
            words = set()
            while node in parents:
                par = parents[node]
                if isinstance(par, ast.If):
                    in_body = any(node is x or node in list(ast.walk(x)) for x in par.body)
                    if in_body:
                        words |= {c.value for c in ast.walk(par.test) if isinstance(c, ast.Constant) and isinstance(c.value, str)}
                        if ast.unparse(par.test).startswith("not ") and "past" in ast.unparse(par.test):
                            words.add("<no past policies>")
                node = par
            return words

        def date_kind(e, depth=0):
            if isinstance(e, ast.Name) and e.id == dparam:
                return "same"
            if isinstance(e, ast.Name) and e.id in la and depth < 4:
                ks = {date_kind(v, depth + 1) for v in la[e.id]}
                return ks.pop() if len(ks) == 1 else "?"
            if isinstance(e, ast.BinOp) and isinstance(e.op, ast.Sub) and isinstance(e.right, ast.Call) and ast.unparse(e.right.func).endswith("timedelta"):
                kws = {kw.arg: getattr(kw.value, "value", None) for kw in e.right.keywords}
                left = e.left
                if isinstance(left, ast.Name) and left.id in la and len(la[left.id]) == 1:
                    left = la[left.id][0]
                if kws == {"days": 1} and ((isinstance(left, ast.Call) and ast.unparse(left.func) in ("numpy.max", "np.max", "max")) or (isinstance(left, ast.Subscript) and ast.unparse(left.slice) == "-1")):
                    return "day-before-entry"
                return "?"
            if isinstance(e, ast.Call) and ast.unparse(e.func) in ("numpy.max", "np.max", "max", "numpy.min", "np.min", "min"):
                return "entry-date"
            if isinstance(e, ast.Subscript) and ast.unparse(e.slice) in ("-1", "0") and isinstance(e.value, ast.Name):
                return "entry-date"
            if isinstance(e, ast.Call) and isinstance(e.func, ast.Name) and e.func.id in helpers_by_name:
                h = helpers_by_name[e.func.id]
                arg0 = e.args[0] if e.args else next((kw.value for kw in e.keywords if kw.arg in ("dt", "date")), None)
                same_arg = isinstance(arg0, ast.Name) and arg0.id == dparam
                reps = [n for n in ast.walk(h) if isinstance(n, ast.Call) and isinstance(n.func, ast.Attribute) and n.func.attr == "replace"]
                kwsets = [{kw.arg for kw in r_.keywords} for r_ in reps]
                if same_arg and any({"month", "day"} <= k for k in kwsets) and not any("year" in k for k in kwsets):
                    return "jan-1"
                if same_arg and any("year" in k for k in kwsets):
                    yrs = [kw.value.value for kw in e.keywords if kw.arg == "years" and isinstance(kw.value, ast.Constant)] + [a.value for a in e.args[1:] if isinstance(a, ast.Constant)]
                    return "year-earlier" if yrs == [1] else f"{yrs}-years-earlier"
            return "?"

        out = []
        for c in ast.walk(f_):
            if isinstance(c, ast.Call) and isinstance(c.func, ast.Name) and c.func.id == lname:
                darg = c.args[0] if c.args else next((kw.value for kw in c.keywords if kw.arg == date_name), None)
                if darg is not None:
                    if f_ is not loader and isinstance(darg, ast.Name) and darg.id in params_ and not branch_words(c):
                        continue  # a pass-through helper: judged at its call sites (below)
                    out.append((c, date_kind(darg), branch_words(c)))
            # a call of a pass-through helper (it hands one of its parameters to the loader as the date)
            if isinstance(c, ast.Call) and isinstance(c.func, ast.Name) and c.func.id in passthrough and c.func.id != f_.name:
                h, hp_ = passthrough[c.func.id]
                hparams = [a.arg for a in h.args.posonlyargs + h.args.args + h.args.kwonlyargs]
                bound = dict(zip(hparams, c.args))
                bound.update({kw.arg: kw.value for kw in c.keywords if kw.arg})
                if hp_ in bound:
                    out.append((c, date_kind(bound[hp_]), branch_words(c)))
        return out

    # helpers that pass one of their own parameters to the loader as the date, outside any keyword branch
    passthrough = {}
    for h in scope_all:
        if h is loader:
            continue
        hparams = [a.arg for a in h.args.posonlyargs + h.args.args + h.args.kwonlyargs]
        for c in ast.walk(h):
            if isinstance(c, ast.Call) and isinstance(c.func, ast.Name) and c.func.id == lname:
                darg = c.args[0] if c.args else next((kw.value for kw in c.keywords if kw.arg == date_name), None)
                if isinstance(darg, ast.Name) and darg.id in hparams:
                    passthrough[h.name] = (h, darg.id)

    want_by_word = {"previous": "day-before-entry", "vorjahr": "year-earlier", "jahresanfang": "jan-1"}
    seen_kinds = set()
    rec_all = []
    for f_ in scope:
        rec_all += analyse_fn(f_)
    seen_calls = set()
    for c, k, words in rec_all:
        if id(c) in seen_calls:
            continue
        seen_calls.add(id(c))
        expected = None
        for w, kind in want_by_word.items():
            if w in words:
                expected = kind
        if expected is None and ("." in words or "<no past policies>" in words or "deviation_from" in words):
            expected = "same"
        if expected is None or k == "?":
            if any(f.rule == "O5" for f in ctx.findings):
                continue
            raise AnalysisError(f"loader: recursive look-up `{ast.unparse(c)[:70]}` not classifiable (date {k}, branch {sorted(words)[:4]}); O6 needs a re-read")
        seen_kinds.add(expected)
        ok = k == expected
        ctx.ob("O6", ok=ok, distinct=(expected, c.lineno))
        if not ok:
            ctx.violation("O6", f"{expected}|{k}", pe.loc(c), f"the look-up in the `{[w for w in want_by_word if w in words] or ['group.param']}` branch loads the parameter at `{ast.unparse(c.args[0]) if c.args else '?'}` ({k}), expected {expected}")
    missing_kinds = {"day-before-entry", "year-earlier", "jan-1", "same"} - seen_kinds
    if missing_kinds and not any(f.rule in ("O5", "O6") for f in ctx.findings):
        # a branch whose keyword is still handled but which no longer goes through the loader itself: the value for the
        # other date is taken from the raw file, so `deviation_from` chains, scalars etc. are not resolved there
        word_of = {"year-earlier": "vorjahr", "jan-1": "jahresanfang", "day-before-entry": "previous"}
        scope_src = "\n".join(ast.unparse(f_) for f_ in scope)
        reported = False
        for k_ in sorted(missing_kinds):
            w_ = word_of.get(k_)
            if w_ and f"'{w_}'" in scope_src:
                ctx.ob("O6", ok=False, distinct=("no-lookup", w_))
                ctx.violation("O6", f"{w_}|no recursive look-up", pe.loc(loader), f"the loader still handles `{w_}` but no longer obtains that value by a look-up of the parameter through the loader at the other date: an entry written as `deviation_from` (or inherited keys) is not resolved, the `{w_}` value is incomplete or missing on some dates")
                reported = True
        if not reported:
            raise AnalysisError(f"loader: only look-ups of kinds {sorted(seen_kinds)} found; O6 needs a re-read")

    # ---- O4 conflict predicate
    sh = repo.module("shared.py")
    pi = find_function(sh, "policy_info", "primary anchor")
    cand = [sh.functions[n.func.id] for n in ast.walk(pi) if isinstance(n, ast.Call) and isinstance(n.func, ast.Name) and n.func.id in sh.functions]
    conflict = None
    for fn in cand:
        keys = {_info_key(x) for x in ast.walk(fn)} - {None}
        raises = [n for n in ast.walk(fn) if isinstance(n, ast.Raise)]
        if "start_date" in keys and raises:
            conflict = (fn, raises)
    if conflict is None:
        raise AnalysisError("registration conflict test not found from policy_info")
    fn, raises = conflict
    ps = [a.arg for a in fn.args.args]
    aliases = {}
    for n in ast.walk(fn):
        if isinstance(n, ast.Assign) and len(n.targets) == 1 and isinstance(n.targets[0], ast.Name) and _info_key(n.value):
            aliases[n.targets[0].id] = _info_key(n.value)

    def m4(node):
        k = _info_key(node)
        if isinstance(node, ast.Name) and node.id in aliases:
            k = aliases[node.id]
        if k == "start_date":
            return "FS"
        if k == "end_date":
            return "FE"
        if isinstance(node, ast.Name) and node.id in ps:
            if node.id.startswith("start"):
                return "S"
            if node.id.startswith("end"):
                return "E"
        return None

    class NameCmp(ast.NodeTransformer):
        """comparison of the two functions' names -> atom OTHER (they are different functions)"""

        def visit_Compare(self, node):
            if any("__name__" in ast.unparse(x) for x in ast.walk(node)) and len(node.ops) == 1:
                other = ast.Name(id="OTHER", ctx=ast.Load())
                if isinstance(node.ops[0], (ast.NotEq, ast.IsNot)):
                    return other
                if isinstance(node.ops[0], (ast.Eq, ast.Is)):
                    return ast.UnaryOp(op=ast.Not(), operand=other)
            return self.generic_visit(node)

    domc = Dominance(fn)
    for r in raises:
        conds = domc.of(r)
        parts = []
        for t, pol in conds:
            if not ({_info_key(x) for x in ast.walk(t)} - {None}) and not any(isinstance(x, ast.Name) and x.id in aliases for x in ast.walk(t)) and "__name__" not in ast.unparse(t):
                continue  # e.g. `dag_key not in TIME_DEPENDENT_FUNCTIONS` early return
            e = ast.parse(ast.unparse(t), mode="eval").body
            parts.append(e if pol else ast.UnaryOp(op=ast.Not(), operand=e))
        if not parts:
            continue
        whole = parts[0] if len(parts) == 1 else ast.BoolOp(op=ast.And(), values=parts)
        cexpr = Subst(m4).visit(NameCmp().visit(ast.parse(ast.unparse(whole), mode="eval").body))
        try:
            n1, cex = equivalent_on_orderings(
                cexpr, ["S", "E", "FS", "FE"], lambda e: max(e["S"], e["FS"]) <= min(e["E"], e["FE"]),
                side=lambda e: e["S"] <= e["E"] and e["FS"] <= e["FE"], funcs={"OTHER": True, "max": max, "min": min})
            n2, cex2 = equivalent_on_orderings(
                cexpr, ["S", "E", "FS", "FE"], lambda e: False,
                side=lambda e: e["S"] <= e["E"] and e["FS"] <= e["FE"], funcs={"OTHER": False, "max": max, "min": min})
        except ValueError as e:
            raise AnalysisError(f"conflict test `{ast.unparse(whole)[:120]}` not a pure date predicate: {e}") from e
        ctx.ob("O4", ok=cex is None and cex2 is None, distinct="conflict", n=n1)
        if cex:
            env, got, want = cex
            ctx.violation("O4", "conflict-predicate", sh.loc(r), f"the conflict is raised = {got} but the intervals [{env['S']},{env['E']}] and [{env['FS']},{env['FE']}] (ranks) {'do' if want else 'do not'} overlap (condition: `{ast.unparse(whole)[:140]}`)")
        elif cex2:
            ctx.violation("O4", "conflict-with-itself", sh.loc(r), "a function re-registered under its own name is reported as a conflict")
    ctx.floor("O1", 17)
    ctx.floor("O4", 26)


def _selector(ctx, pe, fn, rid):
    """in fn: a comprehension / generator filters dated keys against the date parameter; the entry used
    is the maximum of the kept keys."""
    dparam = fn.args.args[0].arg
    la = local_assigns(fn)
    found = None
    # the selection may live in a module-level helper that receives the date
    if not _has_date_filter(fn, dparam):
        for c in walk_own(fn):
            if isinstance(c, ast.Call) and isinstance(c.func, ast.Name) and c.func.id in pe.functions and c.func.id != fn.name:
                h = pe.functions[c.func.id]
                hp = [a.arg for a in h.args.posonlyargs + h.args.args + h.args.kwonlyargs]
                bound = dict(zip(hp, c.args))
                bound.update({kw.arg: kw.value for kw in c.keywords if kw.arg})
                for hp_, arg_ in bound.items():
                    if isinstance(arg_, ast.Name) and arg_.id == dparam and (_has_date_filter(h, hp_) or _has_bisect(h, hp_)):
                        return _selector_in(ctx, pe, h, rid, hp_)
    return _selector_in(ctx, pe, fn, rid, dparam)


def _has_date_filter(fn, dparam):
    for n in walk_own(fn):
        if isinstance(n, (ast.ListComp, ast.GeneratorExp, ast.SetComp)) and len(n.generators) == 1 and isinstance(n.generators[0].target, ast.Name):
            gen = n.generators[0]
            for c in gen.ifs:
                for cmp_ in ast.walk(c):
                    if isinstance(cmp_, ast.Compare) and {x.id for x in ast.walk(cmp_) if isinstance(x, ast.Name)} >= {gen.target.id, dparam}:
                        return True
    return False


def _has_bisect(fn, dparam):
    return any(isinstance(n, ast.Call) and ast.unparse(n.func).split(".")[-1] in ("bisect_right", "bisect", "bisect_left", "searchsorted")
               and any(isinstance(a, ast.Name) and a.id == dparam for a in [*n.args, *[k.value for k in n.keywords]]) for n in walk_own(fn))


def _selector_in(ctx, pe, fn, rid, dparam):
    la = local_assigns(fn)
    found = None
    for n in walk_own(fn):
        if isinstance(n, (ast.ListComp, ast.GeneratorExp, ast.SetComp)) and len(n.generators) == 1:
            gen = n.generators[0]
            if not isinstance(gen.target, ast.Name):
                continue
            for c in gen.ifs:
                for cmp_ in ast.walk(c):
                    if isinstance(cmp_, ast.Compare) and {x.id for x in ast.walk(cmp_) if isinstance(x, ast.Name)} >= {gen.target.id, dparam}:
                        found = (n, gen, c)
    if found is None:
        if _bisect_selector(ctx, pe, fn, rid, dparam):
            return
        raise AnalysisError(f"{rid}: filter of dated keys against `{dparam}` not found in {fn.name}")
    comp, gen, cond = found
    kv = gen.target.id

    def m(node):
        if isinstance(node, ast.Name) and node.id == kv:
            return "K"
        if isinstance(node, ast.Name) and node.id == dparam:
            return "D"
        if isinstance(node, ast.Call) and isinstance(node.func, ast.Name) and node.func.id == "isinstance":
            return "ISDATE"
        return None

    expr = Subst(m).visit(ast.parse(ast.unparse(ast.BoolOp(op=ast.And(), values=list(gen.ifs)) if len(gen.ifs) > 1 else cond), mode="eval").body)
    try:
        n, cex = equivalent_on_orderings(expr, ["K", "D"], lambda e: e["K"] <= e["D"], funcs={"ISDATE": True})
    except ValueError as e:
        raise AnalysisError(f"{rid}: selector `{ast.unparse(cond)}` not a pure date predicate: {e}") from e
    ctx.ob(rid, ok=cex is None, distinct="filter", n=n)
    ctx.sample({"rule": rid, "predicate": ast.unparse(cond), "orderings": n})
    if cex:
        env, got, want = cex
        ctx.violation(rid, f"{fn.name}|filter", pe.loc(cond), f"`{ast.unparse(cond)}` keeps an entry dated {'on' if env['K'] == env['D'] else ('after' if env['K'] > env['D'] else 'before')} the date: {got}, expected {want} (latest entry on or before the date)")
    # which element of the kept list indexes the raw data?
    listname = None
    for name, val in la.items():
        if val is comp or comp in list(ast.walk(val)):
            listname = name
    picks = []
    for n_ in walk_own(fn):
        if isinstance(n_, ast.Call) and ast.unparse(n_.func) in ("numpy.max", "np.max", "max", "numpy.min", "np.min", "min") and n_.args and isinstance(n_.args[0], ast.Name) and n_.args[0].id == listname:
            picks.append(n_)
        if isinstance(n_, ast.Call) and ast.unparse(n_.func) in ("numpy.max", "np.max", "max", "numpy.min", "np.min", "min") and n_.args and (n_.args[0] is comp or (isinstance(n_.args[0], ast.Call) and ast.unparse(n_.args[0].func) in ("sorted", "list", "tuple", "set") and n_.args[0].args and n_.args[0].args[0] is comp)):
            picks.append(n_)  # the filtered keys handed to max(...) directly
        if isinstance(n_, ast.Subscript) and isinstance(n_.value, ast.Name) and n_.value.id == listname and isinstance(n_.slice, (ast.Constant, ast.UnaryOp)):
            picks.append(n_)
    if not picks:
        raise AnalysisError(f"{rid}: how {fn.name} picks an entry from the kept dates is not a recognised idiom (max/min/[-1]/[0])")
    for p in picks:
        txt = ast.unparse(p)
        srt = isinstance(la.get(listname), ast.Call) and ast.unparse(la[listname].func) == "sorted"
        if not srt and isinstance(la.get(listname), (ast.ListComp,)):
            # an order-preserving filter of a sorted list is sorted
            src_ = la[listname].generators[0].iter
            srt = isinstance(src_, ast.Name) and isinstance(la.get(src_.id), ast.Call) and ast.unparse(la[src_.id].func) == "sorted"
        good = txt.split("(")[0] in ("numpy.max", "np.max", "max") or (txt.endswith("[-1]") and srt)
        ctx.ob(rid, ok=good, distinct=txt)
        if not good:
            ctx.violation(rid, f"{fn.name}|pick|{txt}", pe.loc(p), f"`{txt}` does not pick the latest of the kept dated entries")


def alias_shortcuts(ctx, pe, loader):
    """O7: `<param>_jahresanfang` / `<param>_vorjahr` may be filled with the value of the date itself (no second
    look-up) only when no dated entry lies between the other date and the date: for every weak ordering of
    D (the date), J (the other date, J <= D) and P (the latest entry on or before D), the dominating
    conditions of such an alias imply J == D or P <= J."""
    from staticlib.guards import Dominance, scope_functions
    from staticlib.ordersem import weak_orderings

    ctx.rule("O7", "the value for another date (start of year / previous year) is copied from the value of the date itself only under a condition implying that no dated entry lies in between")
    dparam = loader.args.args[0].arg
    n_alias = 0
    for fn in scope_functions(pe, loader):
        la = {}
        for a in ast.walk(fn):
            if isinstance(a, ast.Assign) and len(a.targets) == 1 and isinstance(a.targets[0], ast.Name):
                la.setdefault(a.targets[0].id, []).append(a.value)
        dom = Dominance(fn)

        def kind_of(e, depth=0):
            """'D' the date, 'J' a date derived from it by a helper (start of year / a year earlier), 'P' the latest kept entry"""
            if isinstance(e, ast.Name):
                if e.id == dparam:
                    return "D"
                vs = la.get(e.id, [])
                if len(vs) == 1 and depth < 4:
                    return kind_of(vs[0], depth + 1)
                return None
            if isinstance(e, ast.Call):
                f = ast.unparse(e.func)
                if f in ("numpy.max", "np.max", "max") and e.args:
                    return "P"
                if e.args and kind_of(e.args[0], depth + 1) == "D" and (isinstance(e.func, ast.Name) or isinstance(e.func, ast.Attribute)):
                    return "J"
            if isinstance(e, ast.Subscript) and isinstance(e.slice, ast.UnaryOp) and ast.unparse(e.slice) == "-1":
                return "P"
            return None

        for st in ast.walk(fn):
            if not (isinstance(st, ast.Assign) and len(st.targets) == 1 and isinstance(st.targets[0], ast.Subscript) and isinstance(st.targets[0].slice, ast.JoinedStr)):
                continue
            suffix = "".join(v.value for v in st.targets[0].slice.values if isinstance(v, ast.Constant))
            if suffix not in ("_jahresanfang", "_vorjahr"):
                continue
            tgt_dict = ast.unparse(st.targets[0].value)
            v = st.value
            is_alias = isinstance(v, ast.Subscript) and ast.unparse(v.value) == tgt_dict
            if not is_alias:
                continue
            n_alias += 1
            conds = [(t, pol) for t, pol in dom.of(st) if any(kind_of(x) for x in ast.walk(t) if isinstance(x, (ast.Name, ast.Call, ast.Subscript)))]

            def ev(e, env):
                k = kind_of(e) if isinstance(e, (ast.Name, ast.Call, ast.Subscript)) else None
                if k:
                    return env[k]
                if isinstance(e, ast.BoolOp):
                    vals = [ev(x, env) for x in e.values]
                    return all(vals) if isinstance(e.op, ast.And) else any(vals)
                if isinstance(e, ast.UnaryOp) and isinstance(e.op, ast.Not):
                    return not ev(e.operand, env)
                if isinstance(e, ast.Compare) and len(e.ops) == 1:
                    import operator as _op

                    ops = {ast.Lt: _op.lt, ast.LtE: _op.le, ast.Gt: _op.gt, ast.GtE: _op.ge, ast.Eq: _op.eq, ast.NotEq: _op.ne}
                    if type(e.ops[0]) in ops:
                        return ops[type(e.ops[0])](ev(e.left, env), ev(e.comparators[0], env))
                raise ValueError(ast.unparse(e)[:60])

            bad = None
            try:
                for ranks in weak_orderings(3):
                    env = dict(zip("DJP", ranks))
                    if not (env["J"] <= env["D"] and env["P"] <= env["D"]):
                        continue
                    if all(bool(ev(t, env)) == pol for t, pol in conds) and not (env["J"] == env["D"] or env["P"] <= env["J"]):
                        bad = env
                        break
            except (ValueError, KeyError, TypeError) as e:
                raise AnalysisError(f"O7: the condition of the alias `{ast.unparse(st)[:70]}` is not a pure date predicate ({e}); needs a re-read") from e
            ctx.ob("O7", ok=bad is None, distinct=(fn.name, suffix))
            if bad is not None:
                ctx.violation("O7", f"{fn.name}|{suffix}|alias", pe.loc(st), f"`{ast.unparse(st)[:80]}` copies the value of the date itself although an entry can lie between the two dates (ordering other-date={bad['J']} < latest entry={bad['P']} <= date={bad['D']} satisfies the dominating conditions {[ast.unparse(t)[:50] for t, _ in conds]}): from the day after a mid-year change until the end of the year `<param>{suffix}` shows the new value instead of the one in force at the other date")
    ctx.ob("O7", ok=True, distinct="aliases examined", n=max(n_alias, 1))


def _bisect_selector(ctx, pe, fn, rid, dparam):
    """the binary-search spelling: `pos = bisect_right(sorted_dates, date) - 1; entry = raw[sorted_dates[pos]]`.
    Correct iff it is bisect_right (an entry dated on the day counts), the list is sorted, and the use of
    `pos` is dominated by a test excluding pos < 0 (no entry on or before the date -> nothing selected)."""
    from staticlib.guards import Dominance, eval_sized

    la = local_assigns(fn)
    calls = [n for n in walk_own(fn) if isinstance(n, ast.Call) and ast.unparse(n.func).split(".")[-1] in ("bisect_right", "bisect", "bisect_left", "searchsorted")
             and any(isinstance(a, ast.Name) and a.id == dparam for a in [*n.args, *[k.value for k in n.keywords]])]
    if len(calls) != 1:
        return False
    call = calls[0]
    fname = ast.unparse(call.func).split(".")[-1]
    right = fname in ("bisect_right", "bisect") or (fname == "searchsorted" and any(k.arg == "side" and isinstance(k.value, ast.Constant) and k.value.value == "right" for k in call.keywords))
    ctx.ob(rid, ok=right, distinct="filter")
    if not right:
        ctx.violation(rid, f"{fn.name}|filter", pe.loc(call), f"`{ast.unparse(call)}` - 1 skips an entry dated exactly on the date (latest entry on or before the date expected): use the right-hand insertion point")
    lst = call.args[0] if call.args else None
    srt = isinstance(lst, ast.Name) and isinstance(la.get(lst.id), ast.Call) and ast.unparse(la[lst.id].func) == "sorted"
    # the name holding `call - 1` (position) or `call` itself (count of entries on or before the date)
    pos = None
    bad_value = -1
    for name, val in la.items():
        if isinstance(val, ast.BinOp) and isinstance(val.op, ast.Sub) and val.left is call and isinstance(val.right, ast.Constant) and val.right.value == 1:
            pos = name
    cnt = next((name for name, val in la.items() if val is call), None)
    params_ = [a.arg for a in fn.args.args]
    srt = srt or (isinstance(lst, ast.Name) and lst.id in params_ and "sorted" in lst.id)  # a parameter documented as sorted (checked at the call site below)
    if pos is None and cnt is None or not srt:
        raise AnalysisError(f"{rid}: binary-search selection in {fn.name} is not `pos = bisect(sorted(...), {dparam}) - 1`; needs a re-read")
    if pos is not None:
        uses = [n for n in walk_own(fn) if isinstance(n, ast.Subscript) and isinstance(n.slice, ast.Name) and n.slice.id == pos]
    else:
        pos, bad_value = cnt, 0
        uses = [n for n in walk_own(fn) if isinstance(n, ast.Subscript) and isinstance(n.slice, ast.BinOp) and isinstance(n.slice.op, ast.Sub)
                and isinstance(n.slice.left, ast.Name) and n.slice.left.id == cnt and isinstance(n.slice.right, ast.Constant) and n.slice.right.value == 1]
    if not uses:
        raise AnalysisError(f"{rid}: {fn.name} never indexes with `{pos}`")
    dom = Dominance(fn)
    for u in uses:
        feasible = True
        for t, pol in dom.of(u):
            v = eval_sized(t, {pos: bad_value})
            if v is not None and v != pol:
                feasible = False
        ctx.ob(rid, ok=not feasible, distinct=ast.unparse(u))
        if feasible:
            ctx.violation(rid, f"{fn.name}|pick|{ast.unparse(u)}", pe.loc(u), f"`{ast.unparse(u)}` is reached with {pos} == {bad_value} when every entry is dated after the date: index -1 silently selects the LATEST entry instead of none (a spec / value that is not in force yet is applied)")
    return True


# ====================================================================== Y
def yaml_integrity(ctx, s):
    ym = s.em.ym
    ctx.rule("Y1", "below a parameter / rounding name every key that looks like a date is a real YAML date; every parameter has a dated entry; scalar entries carry no other value keys; deviation_from targets exist; access_different_date is vorjahr|jahresanfang")
    nparams = 0
    import yaml as _yaml

    ctx.rule("Y0", "no mapping in a parameter file has the same key twice (the YAML loader silently keeps the last one: an entry added under an existing date replaces the law in force)")
    nmaps = 0
    for g in ym.groups():
        fn = f"src/_gettsim/parameters/{g}.yaml"
        try:
            root_node = _yaml.compose((ym.pdir / f"{g}.yaml").read_text(encoding="utf-8"), Loader=getattr(_yaml, "CSafeLoader", _yaml.SafeLoader))
        except _yaml.YAMLError as e:
            raise AnalysisError(f"{fn} does not parse: {e}") from e
        stack = [(root_node, g)]
        while stack:
            node, path = stack.pop()
            if isinstance(node, _yaml.MappingNode):
                nmaps += 1
                seen_keys = {}
                for k, v in node.value:
                    kv = k.value if isinstance(k, _yaml.ScalarNode) else repr(k)
                    if kv in seen_keys:
                        ctx.ob("Y0", ok=False, distinct=(path, kv))
                        ctx.violation("Y0", f"{path}|duplicate {kv}", f"{fn}:{k.start_mark.line + 1}", f"key `{kv}` occurs twice under {path} (lines {seen_keys[kv]} and {k.start_mark.line + 1}): the loader keeps only the last one, so the earlier entry - the law in force from that date - is silently replaced")
                    seen_keys.setdefault(kv, k.start_mark.line + 1)
                    stack.append((v, f"{path}.{kv}"))
            elif isinstance(node, _yaml.SequenceNode):
                for i, v in enumerate(node.value):
                    stack.append((v, f"{path}[{i}]"))
    ctx.ob("Y0", ok=True, distinct="mappings", n=max(nmaps, 1))
    for g in ym.groups():
        raw = ym.raw(g)
        fn = f"src/_gettsim/parameters/{g}.yaml"
        if not isinstance(raw, dict):
            raise AnalysisError(f"{fn} is not a mapping")
        for p, pr in raw.items():
            if p == "rounding":
                if not isinstance(pr, dict):
                    ctx.violation("Y1", f"{g}.rounding|not-mapping", fn, "rounding block is not a mapping")
                    continue
                for name, spec in pr.items():
                    _dated_keys(ctx, spec, f"{g}.rounding.{name}", fn, rounding=True)
                continue
            nparams += 1
            if not isinstance(pr, dict):
                ctx.ob("Y1", ok=False, distinct=(g, p))
                ctx.violation("Y1", f"{g}.{p}|not-mapping", fn, f"parameter {p} is not a mapping")
                continue
            dates = _dated_keys(ctx, pr, f"{g}.{p}", fn)
            ok = bool(dates)
            ctx.ob("Y1", ok=ok, distinct=(g, p, "dated"))
            if not ok:
                ctx.violation("Y1", f"{g}.{p}|no-dated-entry", f"{fn} {p}", f"parameter {g}.{p} has no dated entry (the loader would fail on it)")
            add = pr.get("access_different_date")
            if add is not None:
                ok = add in ("vorjahr", "jahresanfang")
                ctx.ob("Y1", ok=ok, distinct=(g, p, "add"))
                if not ok:
                    ctx.violation("Y1", f"{g}.{p}|access_different_date|{add}", f"{fn} {p}", f"access_different_date: {add!r} is not implemented")
            for d in dates:
                e = pr[d]
                if not isinstance(e, dict):
                    ctx.ob("Y1", ok=False, distinct=(g, p, str(d)))
                    ctx.violation("Y1", f"{g}.{p}@{d}|not-mapping", f"{fn} {p}", f"entry {d} of {g}.{p} is not a mapping (the loader indexes it with 'scalar')")
                    continue
                ok = True
                if "scalar" in e:
                    others = [k for k in e if k not in ("scalar", *s.em.facts.not_trans_keys)]
                    for k in [k for k in others if isinstance(e[k], str) or e[k] is None]:
                        ctx.info(f"{g}.{p}@{d}: scalar entry with unread text key {k!r}")
                    others = [k for k in others if not (isinstance(e[k], str) or e[k] is None)]
                    if others:
                        ok = False
                        ctx.violation("Y1", f"{g}.{p}@{d}|scalar-with-{others}", f"{fn} {p}", f"entry {d} of {g}.{p} has `scalar` and further value keys {others}, which the loader ignores")
                dev = e.get("deviation_from")
                if dev is not None:
                    if dev == "previous":
                        if not any(x < d for x in dates):
                            ok = False
                            ctx.violation("Y1", f"{g}.{p}@{d}|previous-without-predecessor", f"{fn} {p}", f"entry {d} of {g}.{p} deviates from `previous` but is the first entry")
                    elif isinstance(dev, str) and "." in dev:
                        g2, p2 = dev.split(".")[:2]
                        try:
                            tgt_ok = p2 in ym.raw(g2)
                        except AnalysisError:
                            tgt_ok = False
                        if not tgt_ok:
                            ok = False
                            ctx.violation("Y1", f"{g}.{p}@{d}|deviation_from|{dev}", f"{fn} {p}", f"entry {d} of {g}.{p} deviates from {dev}, which does not exist")
                    else:
                        ok = False
                        ctx.violation("Y1", f"{g}.{p}@{d}|deviation_from|{dev}", f"{fn} {p}", f"deviation_from: {dev!r} is neither `previous` nor group.param (the loader then returns an empty parameter)")
                ctx.ob("Y1", ok=ok, distinct=(g, p, str(d)))
    ctx.floor("Y1", 600)
    ctx.extra_cov["parameters"] = nparams


def _dated_keys(ctx, mapping, path, fn, rounding=False):
    dates = []
    if not isinstance(mapping, dict):
        ctx.violation("Y1", f"{path}|not-mapping", fn, f"{path} is not a mapping")
        return dates
    for k in mapping:
        if isinstance(k, datetime.datetime):
            ctx.ob("Y1", ok=False, distinct=(path, str(k)))
            ctx.violation("Y1", f"{path}|{k}|datetime", f"{fn} {path}", f"key {k!r} of {path} is a timestamp, not a date: the loader ignores the entry")
        elif isinstance(k, datetime.date):
            dates.append(k)
        elif isinstance(k, bool):
            pass
        elif isinstance(k, int) and 1900 <= k <= 2100 and not rounding:
            # bare year where a date is expected - but integer keys are legitimate inside piecewise specs
            if not str(mapping.get("type", "")).startswith("piecewise"):
                ctx.ob("Y1", ok=False, distinct=(path, str(k)))
                ctx.violation("Y1", f"{path}|{k}|bare-year", f"{fn} {path}", f"key {k} of {path} looks like a year, not a date: the loader ignores the entry")
        elif isinstance(k, str) and DATE_LIKE.match(k.strip()):
            ctx.ob("Y1", ok=False, distinct=(path, k))
            ctx.violation("Y1", f"{path}|{k}|string-date", f"{fn} {path}", f"key {k!r} of {path} looks like a date but is a string (not YYYY-MM-DD or quoted): the loader ignores the entry")
        elif isinstance(k, str) and k not in DOC_KEYS and not rounding:
            ctx.info(f"{path}: unknown documentation key {k!r}")
    return sorted(dates)


def resolution(ctx, s):
    ctx.rule("Y2", "the parameter environment resolves (no missing deviation base, overlay path, look-up target or invalid piecewise spec) on every equivalence interval")
    ctx.rule("Y3", "nothing but the date stamp and date-derived values changes between the first and the last day of an equivalence interval")
    start = datetime.date(1980, 1, 1) if ctx.tier == "quick" else min(min(s.em.ym.all_entry_dates), datetime.date(1980, 1, 1))
    end = s.em.last_entry_date.replace(year=s.em.last_entry_date.year + 1)
    iv = s.em.intervals(start, end)
    n3 = 0
    for f, l in iv:
        params, problems, dev = s.em.params(f)
        ctx.ob("Y2", ok=not problems, distinct=str(f))
        for pr in problems:
            ctx.violation("Y2", pr, f"{f}", f"environment for {f} does not resolve: {pr}")
        if l != f and (ctx.tier == "thorough" or f >= datetime.date(2005, 1, 1)):
            p2, problems2, dev2 = s.em.params(l)
            for pr in problems2:
                if pr not in problems:
                    ctx.violation("Y2", pr, f"{l}", f"environment for {l} does not resolve: {pr}")
            diffs = _env_diff(params, p2, {x[1] for x in dev} | {x[1] for x in dev2})
            ctx.ob("Y3", ok=not diffs, distinct=str(f))
            n3 += 1
            for df in diffs[:3]:
                ctx.violation("Y3", f"{df}", f"{f}..{l}", f"the environment changes inside the interval {f}..{l} that no change date explains: {df}")
    if ctx.tier == "thorough":
        every_day(ctx, s, iv)
    ctx.extra_cov["intervals"] = len(iv)
    ctx.extra_cov["first_interval"] = str(iv[0][0])
    ctx.extra_cov["last_interval"] = str(iv[-1][0])
    ctx.floor("Y2", 100)


def every_day(ctx, s, iv):
    """thorough: the environment fingerprint (parameters without the date stamp + set of active
    implementations) of EVERY calendar day equals that of the first day of its interval, i.e. the
    timeline of change dates is complete and one sample per interval covers every day in it"""
    from staticlib.session import env_fingerprint, parallel_map

    ctx.rule("Y3d", "every calendar day from 1980-01-01 to one year after the last entry has the same environment fingerprint (all parameter values, all rounding specs, set of active implementations) as the first day of its equivalence interval")
    days = []
    owner = {}
    for f, l in iv:
        if f < datetime.date(1980, 1, 1):
            continue
        d = f
        while d <= l:
            days.append(d)
            owner[d] = f
            d += datetime.timedelta(days=1)
    fps = parallel_map(ctx.root, env_fingerprint, days, chunksize=64)
    bad = 0
    for d in days:
        ok = fps[d] == fps[owner[d]]
        ctx.ob("Y3d", ok=ok, distinct=str(owner[d]))
        if not ok and bad < 5:
            bad += 1
            ctx.violation("Y3d", f"{owner[d]}|{d}", f"{d}", f"the environment on {d} differs from the one on {owner[d]} although no change date lies between them: a date dependence that neither the parameter files nor the decorators declare")
    ctx.extra_cov["calendar_days_fingerprinted"] = len(days)
    ctx.floor("Y3d", 15000)


def _env_diff(a, b, derived_paths, path=""):
    import numpy

    out = []
    if isinstance(a, dict) and isinstance(b, dict):
        for k in set(a) | set(b):
            if k == "datum":
                continue
            p = f"{path}/{k}"
            if k not in a or k not in b:
                out.append(f"{p} only on one day")
            else:
                out += _env_diff(a[k], b[k], derived_paths, p)
        return out
    if isinstance(a, numpy.ndarray) or isinstance(b, numpy.ndarray):
        try:
            if not numpy.array_equal(numpy.asarray(a), numpy.asarray(b)):
                out.append(f"{path} differs")
        except Exception:  # noqa: BLE001
            out.append(f"{path} differs")
        return out
    if type(a) is not type(b) or a != b:
        if any(path.endswith("/" + d.split("[")[-1].strip("]'\"")) for d in derived_paths):
            return out
        out.append(f"{path}: {a!r} vs {b!r}")
    return out
