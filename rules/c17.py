"""C17 - means-tested benefits are mutually exclusive as the priority rules say (partial).

Atom enumeration over the four paid-amount rules gives, per rule, the truth assignments of its
boolean arguments / data-dependent tests under which the result can be non-zero (NZ).
X1 same-unit pairs: NZ(A) and NZ(B) unsatisfiable on their shared atoms.
X2 flag chain ALG II vs Wohngeld: flags that zero ALG II  ⊇  flags in the part-household split
   = sources of the `*_wthh` any-aggregates that Wohngeld requires.
X3 every argument of the split other than hh_id is constant within a needs unit (level typing).
X4 Kinderzuschlag non-zero only under one of its two priority flags, which have the form
   income + kiz (+ wohngeld) >= need over the same need / income columns."""
from __future__ import annotations

import ast
import datetime
import itertools

from staticlib.common import AnalysisError
from staticlib.session import get_session

from ._atoms import enumerate_rule, find_rule, nz_projection
from .c15 import Levels

ALG, KIZ, WG, GS = "arbeitsl_geld_2_m_bg", "kinderzuschl_m_bg", "wohngeld_m_wthh", "grunds_im_alter_m_eg"
PAIRS = [(ALG, KIZ), (GS, ALG), (GS, WG)]


def check(ctx):
    s = get_session(ctx.root)
    repo = s.repo
    ctx.assumptions += [
        "the four paid-amount columns are the default targets named in the property; their boolean arguments are the priority flags",
        "Grundsicherung vs Kinderzuschlag share no atom (anz_rentner_hh > 0 vs all adults retired) and are not decided",
    ]
    ctx.rule("X1", "for (ALG II, Kinderzuschlag), (Grundsicherung, ALG II), (Grundsicherung, Wohngeld): the non-zero conditions are contradictory on the shared atoms")
    ctx.rule("X2", "flags that zero ALG II  ⊇  flags in the condition of the part-household split  =  sources of the any-aggregates over the part-household that Wohngeld requires")
    ctx.rule("X3", "all arguments of the part-household split other than hh_id are constant within a Bedarfsgemeinschaft")
    ctx.rule("X4", "Kinderzuschlag is non-zero only under kinderzuschl_vorrang or wohngeld_kinderzuschl_vorrang, and both have the form income + kiz (+ wohngeld) >= need over the same need/income columns")
    start = datetime.date(2015, 1, 1)
    dates = [f for f, _ in s.em.intervals(start)]
    if ctx.tier == "thorough":
        dates = sorted(set(dates) | {l for _, l in s.em.intervals(start)})
    seen_impl = set()
    for d in dates:
        dag = s.dag(d)
        rules = {}
        for nm in (ALG, KIZ, WG, GS):
            r = find_rule(s, dag, nm)
            if r is None:
                raise AnalysisError(f"paid-amount rule {nm} not found at {d}")
            rules[nm] = r
        sig = tuple(r.qual for r in rules.values()) + tuple(sorted((k, str(v)) for k, v in repo.agg_specs[0].items() if k.endswith("_wthh")))
        fresh = sig not in seen_impl
        seen_impl.add(sig)
        E = {nm: enumerate_rule(s, r, d) for nm, r in rules.items()}
        # ---- X1
        for a, b in PAIRS:
            (atoms_a, rows_a), (atoms_b, rows_b) = E[a], E[b]
            shared = [x for x in atoms_a if x in atoms_b]
            ia, nza = nz_projection(atoms_a, rows_a, shared)
            ib, nzb = nz_projection(atoms_b, rows_b, shared)
            both = nza & nzb if ia == ib else None
            ok = bool(shared) and both is not None and not both
            ctx.ob("X1", ok=ok, distinct=(a, b, rules[a].qual, rules[b].qual))
            if not ok:
                wit = dict(zip(shared, sorted(both)[0])) if both else {}
                ctx.violation("X1", f"{rules[a].qual}|{rules[b].qual}|{sorted(wit.items())}", rules[a].where,
                              f"at {d} both {a} and {b} can be non-zero " + (f"when {wit}" if shared else "- they share no atom any more") + f" (shared atoms {shared})")
            elif fresh:
                ctx.sample({"pair": [a, b], "shared_atoms": shared, "NZ_a": sorted(nza), "NZ_b": sorted(nzb), "date": str(d)})
        # ---- X2
        atoms_alg, rows_alg = E[ALG]
        zeroing = set()
        for x in atoms_alg:
            ix, nzx = nz_projection(atoms_alg, rows_alg, [x])
            if ix and nzx and all(v == (False,) for v in nzx):
                zeroing.add(x)
        gf = repo.grouping_funcs.get("wthh_id")
        if gf is None:
            raise AnalysisError("grouping wthh_id vanished")
        split_flags, split_problem = _split_flags(gf[1])
        atoms_wg, rows_wg = E[WG]
        wthh_atoms = [x for x in atoms_wg if repo.group_suffix(x) == "wthh"]
        iw, nzw = nz_projection(atoms_wg, rows_wg, wthh_atoms)
        req_any = bool(wthh_atoms) and all(any(v) for v in nzw)  # non-zero only if at least one flag is set
        grp = repo.agg_specs[0]
        sources = {}
        for x in wthh_atoms:
            sp = grp.get(x)
            sources[x] = (sp.get("source_col"), sp.get("aggr")) if sp else (None, None)
        src_flags = {v[0] for v in sources.values()}
        problems = []
        if split_problem:
            problems.append("the part-household split " + split_problem + ": a needs unit with only one priority flag shares a part-household with ALG II units, and the any-aggregate pays Wohngeld to all of them")
        if not req_any:
            problems.append(f"{WG} can be non-zero with none of its part-household flags {wthh_atoms} set")
        for x, (src, aggr) in sources.items():
            if aggr != "any":
                problems.append(f"{x} is {'no built-in aggregate' if aggr is None else 'aggregated with ' + repr(aggr)} instead of `any` over the part-household")
        if src_flags != set(split_flags):
            problems.append(f"Wohngeld requires aggregates of {sorted(map(str, src_flags))} but the part-household is split by {sorted(split_flags)}")
        if not set(split_flags) <= zeroing:
            problems.append(f"the split uses {sorted(split_flags)} but ALG II is zeroed only by {sorted(zeroing)}")
        ctx.ob("X2", ok=not problems, distinct=sig, n=4)
        for pr in problems:
            ctx.violation("X2", pr, rules[WG].where, f"at {d}: {pr}")
        if fresh:
            ctx.sample({"X2": {"zeroing_flags_ALG2": sorted(zeroing), "split_flags": sorted(split_flags), "wohngeld_requires_any_of": sources}, "date": str(d)})
        # ---- X3
        lv = Levels(repo, dag)
        for a in dag.nodes["wthh_id"].args:
            if a == "hh_id":
                continue
            ok = "bg" in lv.const(a)
            ctx.ob("X3", ok=ok, distinct=a)
            if not ok:
                ctx.violation("X3", f"wthh_id|{a}", f"src/_gettsim/groupings.py:{gf[1].lineno} {gf[0]}", f"at {d} the part-household split depends on {a}, which is not constant within a Bedarfsgemeinschaft: members of one needs unit can land in different part-households")
        # ---- X4
        atoms_k, rows_k = E[KIZ]
        flags = [x for x in atoms_k if x.endswith("_vorrang_bg")]
        ik, nzk = nz_projection(atoms_k, rows_k, flags)
        ok = bool(flags) and all(any(v) for v in nzk)
        ctx.ob("X4", ok=ok, distinct=(rules[KIZ].qual, "flags"))
        if not ok:
            ctx.violation("X4", f"{rules[KIZ].qual}|paid-without-flag", rules[KIZ].where, f"at {d} {KIZ} can be non-zero with none of {flags} set")
        kiz_amounts = {c[4:-1] for _, cls, _, _ in rows_k for c in cls if c.startswith("Sym(")}
        forms = {}
        for fl in flags:
            fr = find_rule(s, dag, fl)
            if fr is None:
                ctx.ob("X4", ok=False, distinct=fl)
                ctx.violation("X4", f"{fl}|not-a-rule", rules[KIZ].where, f"at {d} priority flag {fl} is not computed by a rule")
                continue
            forms[fl] = (fr, _covering_form(fr))
        for fl, (fr, form) in forms.items():
            ok = form is not None and bool(set(form[0]) & kiz_amounts)
            ctx.ob("X4", ok=ok, distinct=(fr.qual, "form"))
            if not ok:
                ctx.violation("X4", f"{fr.qual}|form", fr.where, f"at {d} {fl} is not of the form income + {sorted(kiz_amounts)} (+ wohngeld) >= need: " + (f"summands {form[0]}, need {form[1]}" if form else "no single comparison of a sum with a need column"))
        fs = [f for _, f in forms.values() if f is not None]
        if len(fs) >= 2:
            needs = {f[1] for f in fs}
            common = set.intersection(*[set(f[0]) for f in fs])
            ok = len(needs) == 1 and bool(common - kiz_amounts)
            ctx.ob("X4", ok=ok, distinct=("same-columns", tuple(sorted(needs))))
            if not ok:
                ctx.violation("X4", f"flags-disagree|{sorted(needs)}|{sorted(common)}", forms[flags[0]][0].where, f"at {d} the Kinderzuschlag priority flags compare against different need columns {sorted(needs)} or share no income column")
    ctx.extra_cov["intervals"] = len(dates)
    ctx.extra_cov["distinct_implementations"] = len(seen_impl)
    ctx.floor("X1", 90)


def _split_flags(fd):
    """names of the boolean array arguments in the condition of the split; the condition must be their
    disjunction (truth table), whether written as `a[i] or b[i]`, `a | b` inside numpy.where, ..."""
    from staticlib.ordersem import Subst, truth_table

    params = [a.arg for a in fd.args.args]
    # inline single-assignment locals (e.g. flag = a | b; numpy.where(flag, ...))
    defs = {}
    counts = {}
    for n in ast.walk(fd):
        if isinstance(n, ast.Assign) and len(n.targets) == 1 and isinstance(n.targets[0], ast.Name):
            counts[n.targets[0].id] = counts.get(n.targets[0].id, 0) + 1
            defs[n.targets[0].id] = n.value
    defs = {k: v for k, v in defs.items() if counts[k] == 1 and k not in params}

    class Inline(ast.NodeTransformer):
        def visit_Name(self, n):
            if n.id in defs and isinstance(n.ctx, ast.Load):
                return self.visit(ast.parse(ast.unparse(defs[n.id]), mode="eval").body)
            return n

    conds = [n.test for n in ast.walk(fd) if isinstance(n, (ast.If, ast.IfExp))]
    conds += [n.args[0] for n in ast.walk(fd) if isinstance(n, ast.Call) and ast.unparse(n.func) in ("numpy.where", "np.where") and n.args]
    conds = [Inline().visit(ast.parse(ast.unparse(c), mode="eval").body) for c in conds]
    conds = [c for c in conds if any(isinstance(x, ast.Name) and x.id in params and x.id != "hh_id" for x in ast.walk(c))]
    if len(conds) != 1:
        raise AnalysisError("wthh_id: the split is no longer decided by a single condition; X2 needs a re-read")
    t = conds[0]
    names = sorted({n.id for n in ast.walk(t) if isinstance(n, ast.Name) and n.id in params})

    names = [x for x in names if x != "hh_id"]

    def m(node):
        if isinstance(node, ast.Subscript) and isinstance(node.value, ast.Name) and node.value.id in names:
            return node.value.id
        return None

    class B(ast.NodeTransformer):
        """bitwise operators on boolean arrays -> boolean operators"""

        def visit_BinOp(self, n):
            self.generic_visit(n)
            if isinstance(n.op, (ast.BitOr, ast.BitAnd)):
                return ast.BoolOp(op=ast.Or() if isinstance(n.op, ast.BitOr) else ast.And(), values=[n.left, n.right])
            return n

        def visit_UnaryOp(self, n):
            self.generic_visit(n)
            if isinstance(n.op, ast.Invert):
                return ast.UnaryOp(op=ast.Not(), operand=n.operand)
            return n

        def visit_Call(self, n):
            self.generic_visit(n)
            f = ast.unparse(n.func)
            if f in ("numpy.logical_or", "np.logical_or") and len(n.args) == 2:
                return ast.BoolOp(op=ast.Or(), values=list(n.args))
            if f in ("numpy.logical_and", "np.logical_and") and len(n.args) == 2:
                return ast.BoolOp(op=ast.And(), values=list(n.args))
            if f in ("numpy.logical_not", "np.logical_not") and len(n.args) == 1:
                return ast.UnaryOp(op=ast.Not(), operand=n.args[0])
            return n

    expr = B().visit(Subst(m).visit(ast.parse(ast.unparse(t), mode="eval").body))
    ast.fix_missing_locations(expr)
    try:
        tt = truth_table(expr, names)
    except ValueError as e:
        raise AnalysisError(f"wthh_id: condition `{ast.unparse(t)}` is not a boolean combination of flag columns ({e}); X2 needs a re-read") from e
    bad = [k for k, v in tt.items() if v != any(k)]
    if bad:
        return names, f"`{ast.unparse(t)}` is not the disjunction of {names}: for {dict(zip(names, bad[0]))} it gives {tt[bad[0]]}"
    return names, None


def _covering_form(rule):
    """rule body `return a + b (+ c) >= need` -> ([summands], need) else None"""
    rets = [n for n in ast.walk(rule.node) if isinstance(n, ast.Return)]
    if len(rets) != 1:
        return None
    # inline single-assignment locals
    counts, defs = {}, {}
    for n in ast.walk(rule.node):
        if isinstance(n, ast.Assign) and len(n.targets) == 1 and isinstance(n.targets[0], ast.Name):
            counts[n.targets[0].id] = counts.get(n.targets[0].id, 0) + 1
            defs[n.targets[0].id] = n.value
    defs = {k: v for k, v in defs.items() if counts[k] == 1 and k not in rule.argnames}

    class Inline(ast.NodeTransformer):
        def visit_Name(self, n):
            if n.id in defs and isinstance(n.ctx, ast.Load):
                return self.visit(ast.parse(ast.unparse(defs[n.id]), mode="eval").body)
            return n

    c = Inline().visit(ast.parse(ast.unparse(rets[0].value), mode="eval").body)
    if not isinstance(c, ast.Compare) or len(c.ops) != 1:
        return None
    left, op, right = c.left, c.ops[0], c.comparators[0]
    if isinstance(op, (ast.LtE, ast.Lt)):
        left, right = right, left
    elif not isinstance(op, (ast.GtE, ast.Gt)):
        return None
    if not isinstance(right, ast.Name):
        return None
    summ = []

    def flat(e):
        if isinstance(e, ast.BinOp) and isinstance(e.op, ast.Add):
            return flat(e.left) and flat(e.right)
        if isinstance(e, ast.Name):
            summ.append(e.id)
            return True
        return False

    if not flat(left):
        return None
    return summ, right.id
