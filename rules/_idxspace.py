"""Index-space typing of whole-column code (IX).

Every array is typed by the space its *positions* range over and the space its *values* range over:
R (rows of the input columns), S<k> (positions in the k-th sorted order), U<k> (positions among the k-th
set of unique values), G:<ids> (one slot per id value).  The numpy idioms that create and consume such
arrays are typed:

    order = argsort(a)            S -> R          a[order]                  S -> values of a
    u, first, inv = unique(a, return_index, return_inverse)   U -> values, U -> R, R -> U
    pos = searchsorted(sorted, x)  positions of x -> positions of `sorted`
    inv = empty_like(order); inv[order] = arange(n)           R -> S   (inverse permutation)
    argsort(order)                R -> S          aggregate(gid, col)[gid]  G -> ., indexed by ids

`A[B]` (gather) and `A[B] = V` / `add.at(A, B, V)` (scatter) are well-typed only if the values of B are
positions of A.  Using the sort permutation where its inverse is needed (`labels_in_sorted_order[order]`),
or the inverse map of `unique` where the first-occurrence index is needed, is a *definite* space mismatch:
it is reported.  Anything the typing does not understand is unknown and never reported."""
from __future__ import annotations

import ast
import itertools

from staticlib.srcmodel import walk_own

POS = ("R", "S", "U")


class Arr:
    __slots__ = ("idx", "val", "perm", "ptr")

    def __init__(self, idx=None, val=None, perm=False, ptr=False):
        self.idx, self.val, self.perm = idx, val, perm
        self.ptr = ptr  # a person pointer column: -1 stands for "nobody"

    def __repr__(self):
        return f"({self.idx}->{self.val})"


def _is_pos(sp):
    return isinstance(sp, str) and sp[:1] in POS and not sp.startswith("G:")


class Typer:
    def __init__(self, mod, fd):
        self.mod, self.fd = mod, fd
        self.k = itertools.count(1)
        self.findings = []
        self.checked = 0

    # -------------------------------------------------------------- expressions
    def fname(self, c):
        f = ast.unparse(c.func)
        return f.split(".")[-1], f

    def ev(self, e, env):
        if isinstance(e, ast.Name):
            return env.get(e.id)
        if isinstance(e, ast.Subscript):
            if isinstance(e.value, ast.Attribute) and e.value.attr in ("r_", "c_"):
                elts = e.slice.elts if isinstance(e.slice, ast.Tuple) else [e.slice]
                return self.elementwise([self.ev(x, env) for x in elts], "num")
            a = self.ev(e.value, env)
            sl = e.slice
            if isinstance(sl, ast.Slice) and a is not None and isinstance(a.idx, str) and sl.lower is not None and not (isinstance(sl.lower, ast.Constant) and sl.lower.value in (0, None)) and sl.step is None:
                # a block of an array starting at a non-trivial offset: positions inside are relative to the block
                return Arr(f"{a.idx}@{ast.unparse(sl.lower)}", a.val)
            if isinstance(sl, ast.Tuple) and len(sl.elts) == 2 and a is not None:
                # x[:, None] / x[None, :] keep the layout of x along the kept axis (used for broadcast comparisons)
                kinds_ = [("all" if isinstance(x, ast.Slice) and x.lower is None and x.upper is None else "new" if isinstance(x, ast.Constant) and x.value is None else "?") for x in sl.elts]
                if sorted(kinds_) == ["all", "new"]:
                    return Arr(a.idx, a.val)
            if isinstance(sl, (ast.Slice, ast.Constant)) or (isinstance(sl, ast.Tuple)):
                return Arr(None, a.val if a else None) if a else None
            b = self.ev(sl, env)
            if a is None:
                return Arr(b.idx if b else None, None)
            if b is None:
                return Arr(None, a.val)
            if b.val == "bool":
                return Arr(a.idx, a.val)  # a masked column: by convention the mask keeps the real pointers
            if isinstance(a.idx, tuple):
                return Arr(a.idx, a.val)
            if b.ptr:
                self.findings.append((f"{self.fd.name}|{ast.unparse(e)[:70]}", e.lineno,
                                      f"`{ast.unparse(e)[:90]}` uses the pointer column `{ast.unparse(sl)[:40]}` directly as an index: the value -1 (nobody) silently selects the LAST slot, i.e. the value of the person with the largest id, instead of the fall-back value"))
            self.check_index(e, a, b, "read")
            return Arr(b.idx, a.val)
        if isinstance(e, ast.Call):
            return self.call(e, env)
        if isinstance(e, ast.Compare) and len(e.ops) == 1 and isinstance(e.ops[0], (ast.Eq, ast.NotEq)):
            l, r = self.ev(e.left, env), self.ev(e.comparators[0], env)
            # broadcast comparison of a column vector with a row vector: a 2-d table (rows of l x positions of r)
            if l is not None and r is not None and isinstance(e.left, ast.Subscript) and isinstance(e.left.slice, ast.Tuple) and isinstance(l.idx, str) and isinstance(r.idx, str):
                return Arr((l.idx, r.idx), "bool")
        if isinstance(e, ast.BinOp) and isinstance(e.op, ast.Add):
            # block-relative position + the block's offset = position in the whole array
            for me, other in ((e.left, e.right), (e.right, e.left)):
                v = self.ev(me, env)
                if v is not None and isinstance(v.val, str) and "@" in v.val and v.val.split("@", 1)[1] == ast.unparse(other):
                    return Arr(v.idx, v.val.split("@", 1)[0])
        if isinstance(e, (ast.BinOp, ast.BoolOp, ast.UnaryOp, ast.Compare, ast.IfExp)):
            subs = [self.ev(x, env) for x in ast.iter_child_nodes(e) if isinstance(x, ast.expr)]
            return self.elementwise(subs, "bool" if isinstance(e, (ast.Compare, ast.BoolOp)) else "num")
        return None

    def elementwise(self, subs, val):
        idxs = {s.idx for s in subs if s is not None and s.idx is not None}
        return Arr(idxs.pop() if len(idxs) == 1 else None, val)

    def call(self, c, env):
        last, full = self.fname(c)
        args = [self.ev(a, env) for a in c.args]
        kw = {k.arg: k.value for k in c.keywords if k.arg}
        # method spelling a.argsort()
        is_module_call = isinstance(c.func, ast.Attribute) and isinstance(c.func.value, ast.Name) and c.func.value.id in ("numpy", "np", "npg", "numpy_groupies", "jnp", "jax", "math", "bisect", "pd", "pandas")
        recv = self.ev(c.func.value, env) if isinstance(c.func, ast.Attribute) and not is_module_call else None
        if recv is not None:
            args = [recv, *args]
        a0 = args[0] if args else None
        if last == "argsort" and a0 is not None:
            if a0.perm and _is_pos(a0.idx) and _is_pos(a0.val):
                return Arr(a0.val, a0.idx, perm=True)  # argsort of a permutation is its inverse
            return Arr(f"S{next(self.k)}", a0.idx, perm=True)
        axis = kw.get("axis")
        axis = axis.value if isinstance(axis, ast.Constant) else None
        if a0 is not None and isinstance(a0.idx, tuple) and len(a0.idx) == 2 and axis in (0, 1):
            keep, along = a0.idx[1 - axis], a0.idx[axis]
            if last in ("argmax", "argmin"):
                return Arr(keep, along)  # for each kept position: a position along the reduced axis
            if last in ("any", "all", "sum", "max", "min"):
                return Arr(keep, "bool" if last in ("any", "all") else "num")
        if last == "take" and a0 is not None and len(args) >= 2 and args[1] is not None and isinstance(a0.idx, str):
            if args[1].val != "bool":
                self.check_index(c, a0, args[1], "read")
            return Arr(args[1].idx, a0.val)
        if last == "sort" and a0 is not None:
            return Arr(f"S{next(self.k)}", a0.val)
        if last == "unique" and a0 is not None:
            k = next(self.k)
            out = [Arr(f"U{k}", a0.val)]
            flag = lambda n: isinstance(kw.get(n), ast.Constant) and kw[n].value is True  # noqa: E731
            if flag("return_index"):
                out.append(Arr(f"U{k}", a0.idx))
            if flag("return_inverse"):
                out.append(Arr(a0.idx, f"U{k}"))
            if flag("return_counts"):
                out.append(Arr(f"U{k}", "num"))
            return out[0] if len(out) == 1 else tuple(out)
        if last in ("searchsorted", "bisect_left", "bisect_right") and len(args) >= 2 and a0 is not None:
            x = args[1]
            return Arr(x.idx if x is not None else None, a0.idx)
        if last == "arange" and c.args:
            src = c.args[0]
            t = None
            if isinstance(src, ast.Call) and ast.unparse(src.func) == "len" and src.args:
                t = self.ev(src.args[0], env)
            elif isinstance(src, ast.Attribute) and src.attr == "size":
                t = self.ev(src.value, env)
            elif isinstance(src, ast.Subscript) and isinstance(src.value, ast.Attribute) and src.value.attr == "shape":
                t = self.ev(src.value.value, env)
            if t is not None and t.idx is not None:
                return Arr(t.idx, t.idx, perm=True)
            return Arr(None, None)
        if last in ("empty", "empty_like", "zeros", "zeros_like", "ones", "ones_like", "full", "full_like"):
            return Arr(None, "fresh")
        if last == "aggregate" and len(args) >= 1 and a0 is not None:
            return Arr("G:" + str(a0.val), "num")
        if last == "pad" and a0 is not None:
            return Arr(a0.idx, a0.val)
        if last in ("cumsum", "cumprod", "diff", "where", "r_", "concatenate", "abs", "logical_and", "logical_or", "logical_not", "maximum", "minimum", "asarray", "array", "astype", "copy", "isin", "flip", "roll"):
            if last in ("diff", "r_", "concatenate", "flip", "roll"):
                # length / order changing: same space family only for diff+r_ (re-prepended element); keep the space
                pass
            val = "bool" if last in ("logical_and", "logical_or", "logical_not", "isin") else "num"
            src = [a for a in args if a is not None]
            if last in ("asarray", "array", "astype", "copy") and src:
                return Arr(src[0].idx, src[0].val, src[0].perm, src[0].ptr)
            return self.elementwise(src, val)
        return None

    # -------------------------------------------------------------- checks
    def check_index(self, node, a, b, how):
        """values of b must be positions of a"""
        if not (_is_pos(a.idx) and _is_pos(b.val)):
            return
        self.checked += 1
        if a.idx != b.val and "@" in b.val and b.val.split("@", 1)[0] == a.idx:
            off = b.val.split("@", 1)[1]
            self.findings.append((f"{self.fd.name}|{ast.unparse(node)[:70]}", node.lineno,
                                  f"`{ast.unparse(node)[:90]}` indexes the whole array with positions that are relative to a block starting at `{off}`: the block offset was dropped (add `{off}`), so every block after the first resolves to rows of the first block"))
            return
        if a.idx != b.val:
            desc = {"R": "row positions of the input", "S": "positions in a sorted order", "U": "positions among the unique values"}
            self.findings.append((f"{self.fd.name}|{ast.unparse(node)[:70]}", node.lineno,
                                  f"`{ast.unparse(node)[:90]}` {'reads' if how == 'read' else 'writes'} an array laid out by {desc[a.idx[0]]} ({a.idx}) with an index whose values are {desc[b.val[0]]} ({b.val}): "
                                  + ("the sort permutation is applied where its inverse is needed (results computed in sorted order go back to the rows with `out[order] = ...` or `[argsort(order)]`)" if a.idx[0] == "S" and b.val[0] == "R" else
                                     "the row-to-unique map (`return_inverse`) is used where the unique-to-row map (`return_index`) is needed, or vice versa" if "U" in (a.idx[0], b.val[0]) else
                                     "positions of one ordering are used in another")
                                  + "; every row order other than the sorted one (or a pairwise swap of it) gets other persons' values"))

    # -------------------------------------------------------------- statements
    def run(self):
        env = {}
        for a in self.fd.args.posonlyargs + self.fd.args.args + self.fd.args.kwonlyargs:
            env[a.arg] = Arr("R", "v:" + a.arg, ptr=(a.arg.startswith("p_id_") or a.arg in ("foreign_key",)))
        self.block(self.fd.body, env)
        return self.findings

    def bind(self, t, v, env):
        if isinstance(t, ast.Name):
            env[t.id] = v if isinstance(v, Arr) else None
        elif isinstance(t, (ast.Tuple, ast.List)):
            vs = list(v) if isinstance(v, tuple) else [None] * len(t.elts)
            for tt, vv in zip(t.elts, vs + [None] * len(t.elts)):
                self.bind(tt, vv, env)

    def scatter(self, node, target, idx_e, val_e, env):
        a = self.ev(target, env)
        b = self.ev(idx_e, env)
        v = self.ev(val_e, env) if val_e is not None else None
        if b is not None and b.val == "bool" and a is not None and a.val in ("fresh", None) and isinstance(target, ast.Name) and v is not None and isinstance(v.val, str) and v.val[:1] in POS:
            # filling a fresh buffer under a mask with positions: the buffer now holds such positions
            env[target.id] = Arr(b.idx if isinstance(b.idx, str) else None, v.val)
            return
        if b is None or b.val == "bool":
            return
        if a is not None and a.val == "fresh" and a.idx is None and isinstance(target, ast.Name):
            # first scatter into a fresh buffer fixes its layout; arange values make it the inverse map
            env[target.id] = Arr(b.val if _is_pos(b.val) else None, v.val if (v is not None and v.perm) else "num", perm=bool(v is not None and v.perm))
            return
        if a is not None:
            self.check_index(node, a, b, "write")
        if v is not None and _is_pos(v.idx) and _is_pos(b.idx) and v.idx != b.idx:
            self.checked += 1
            self.findings.append((f"{self.fd.name}|{ast.unparse(node)[:70]}", node.lineno, f"`{ast.unparse(node)[:90]}`: index laid out by {b.idx}, values by {v.idx} - the two are paired position by position although they are ordered differently"))

    def block(self, stmts, env):
        for s in stmts:
            if isinstance(s, ast.Assign):
                if len(s.targets) == 1 and isinstance(s.targets[0], ast.Subscript) and not isinstance(s.targets[0].slice, (ast.Slice, ast.Constant)):
                    self.scatter(s, s.targets[0].value, s.targets[0].slice, s.value, env)
                    continue
                v = self.ev(s.value, env)
                for t in s.targets:
                    self.bind(t, v, env)
            elif isinstance(s, ast.AugAssign):
                if isinstance(s.target, ast.Subscript) and not isinstance(s.target.slice, (ast.Slice, ast.Constant)):
                    self.scatter(s, s.target.value, s.target.slice, s.value, env)
                else:
                    self.ev(s.value, env)
            elif isinstance(s, ast.Expr):
                c = s.value
                if isinstance(c, ast.Call) and ast.unparse(c.func).endswith(".at") and len(c.args) >= 2:
                    self.scatter(s, c.args[0], c.args[1], c.args[2] if len(c.args) > 2 else None, env)
                else:
                    self.ev(c, env)
            elif isinstance(s, ast.Return):
                if s.value is not None:
                    self.ev(s.value, env)
            elif isinstance(s, ast.If):
                self.ev(s.test, env)
                e1, e2 = dict(env), dict(env)
                self.block(s.body, e1)
                self.block(s.orelse, e2)
                for k in set(e1) | set(e2):
                    a, b = e1.get(k), e2.get(k)
                    env[k] = a if (a is not None and b is not None and (a.idx, a.val) == (b.idx, b.val)) else (a if b is None and k not in e2 else (b if a is None and k not in e1 else None))
            elif isinstance(s, (ast.For, ast.While)):
                self.block(s.body, env)
            elif isinstance(s, (ast.With, ast.Try)):
                self.block(s.body, env)


def index_space_findings(repo):
    """yields (module, function name, key, lineno, message, n_checked) over all whole-column functions and the
    module-level helpers they call"""
    from staticlib.guards import scope_functions

    from ._wholecol import whole_column_functions

    seen = set()
    for mod, fd, kind in whole_column_functions(repo):
        for f in scope_functions(mod, fd):
            if id(f) in seen:
                continue
            seen.add(id(f))
            t = Typer(mod, f)
            fs = t.run()
            yield mod, f.name, fs, t.checked
