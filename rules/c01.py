"""C01 - results do not depend on the order of rows (partial).
Clause a: the dtype of a row-wise column cannot depend on which row comes first (T1: one numeric
kind on every return path, or otypes pinned and no path wider than declared).
Clause b: whole-column functions move data between rows only through id keys (W1 positions,
W2 whole-column reductions / order-sensitive operations, W3 binary search on an unsorted column,
W4 label alignment on the result path)."""
from staticlib.session import get_session

from ._typing import WIDTH, KindRun, file_kind_findings, vectorize_mode
from ._wholecol import analyse, label_alignment, whole_column_functions


def check(ctx):
    s = get_session(ctx.root)
    repo = s.repo
    ctx.assumptions += [
        "numpy.vectorize without otypes types the whole column from the first row's result",
        "whether the scans in eg_id/ehe_id/fg_id/sn_id induce an order-independent partition is not decided (C12)",
    ]
    mode, p0, where = vectorize_mode(repo)
    kr = KindRun(ctx)
    if mode == "first-row":
        file_kind_findings(ctx, kr, "T1", lambda r, union, mixed, ks: mixed,
                           "the set of numeric kinds over all return paths of a scalar rule is a singleton at every date (otherwise the column dtype, and truncation of other rows, depends on which row comes first)")
    else:
        file_kind_findings(ctx, kr, "T1", lambda r, union, mixed, ks: any(WIDTH[k] > WIDTH[r.ret] for k in union),
                           "otypes pins the column to the declared type: no return path may yield a kind wider than declared")
    ctx.floor("T1", 250)
    whole_column(ctx, repo)


def whole_column(ctx, repo):
    ctx.rule("W1", "in a whole-column function whose result is not an id column, a loop position / running counter is used only as a subscript index, never as a value that reaches the result")
    ctx.rule("W2", "no whole-column reduction or order-sensitive operation (sum/max/cumsum/sort/unique/len/constant slices ...) flows into the result (raise guards and allocator shapes excepted)")
    ctx.rule("W3", "no binary search (searchsorted) on a raw column without a sorter")
    ctx.rule("W4", "no label-aligning pandas operation on the result path of the interface")
    fns = whole_column_functions(repo)
    for mod, fd, kind in fns:
        fs = list(analyse(mod, fd, kind))
        for rid in ("W1", "W2", "W3"):
            ctx.ob(rid, ok=not [f for f in fs if f[0] == rid], distinct=(mod.rel, fd.name))
        for rid, key, ln, msg in fs:
            ctx.violation(rid, f"{mod.rel}:{fd.name}|{key}", f"src/_gettsim/{mod.rel}:{ln} {fd.name}", msg)
        if len(ctx.samples) < 8:
            ctx.sample({"whole_column_function": f"{mod.rel}:{fd.name}", "kind": kind, "findings": len(fs)})
    itf = repo.module("interface.py")
    from ._wholecol import converter_keeps_index

    fs = list(label_alignment(itf)) + [(a, b, c, d) for a, b, c, d in converter_keeps_index(repo)]
    ctx.ob("W4", ok=not fs, distinct="interface", n=4)
    for rid, key, ln, msg in fs:
        ctx.violation(rid, key, f"src/_gettsim/interface.py:{ln}", msg)
    ctx.floor("W2", 15)
    group_id_arithmetic(ctx, repo, "W5")
    index_spaces(ctx, repo, "IX")
    from ._wholecol import pointer_findings

    ctx.rule("W6", "inside a row loop an element of a pointer column (-1 = nobody) indexes an array or list only under a guard excluding negative values (dictionaries are safe)")
    ctx.rule("W7", "a whole-column rule whose result is data does not read, inside the loop that fills a mapping, the entry of the row a pointer refers to (forward references depend on the row order)")
    from ._wholecol import id_value_findings

    ctx.rule("W8", "a person pointer is compared with a number only as the sentinel test (>= 0, < 0, == -1, != -1): 0 is a valid id")
    ctx.rule("W9", "an id, a pointer or the result of an id look-up is never used as a truth value (`id or default`, `if id:`)")
    scanned = 0
    seen_fd = set()
    for mod, fd, kind in [*fns, *[(r.mod, r.node, "rule") for r in repo.rules]]:
        if id(fd) in seen_fd:
            continue
        seen_fd.add(id(fd))
        scanned += 1
        for rid, key, ln, msg in id_value_findings(mod, fd):
            ctx.ob(rid, ok=False, distinct=(mod.rel, fd.name, key))
            ctx.violation(rid, f"{mod.rel}:{fd.name}|{key}", f"src/_gettsim/{mod.rel}:{ln} {fd.name}", msg)
    ctx.ob("W8", ok=True, distinct="functions scanned", n=scanned)
    ctx.ob("W9", ok=True, distinct="functions scanned", n=scanned)
    from ._wholecol import kernel_hygiene

    ctx.rule("W10", "a whole-column function never stores into one of its argument arrays")
    ctx.rule("W11", "a result buffer is not allocated with the dtype of a caller-supplied fill value and then filled with a column's values")
    ctx.rule("W12", "grouping functions do not compare a column with its own neighbours (slices shifted against each other, roll / shift / diff)")
    for mod, fd, kind in fns:
        fs = list(kernel_hygiene(mod, fd, kind))
        for rid in ("W10", "W11", "W12"):
            ctx.ob(rid, ok=not [f for f in fs if f[0] == rid], distinct=(mod.rel, fd.name))
        for rid, key, ln, msg in fs:
            ctx.violation(rid, f"{mod.rel}:{fd.name}|{key}", f"src/_gettsim/{mod.rel}:{ln} {fd.name}", msg)
    for mod, fd, kind in fns:
        fs = list(pointer_findings(mod, fd, kind))
        for rid in ("W6", "W7"):
            ctx.ob(rid, ok=not [f for f in fs if f[0] == rid], distinct=(mod.rel, fd.name))
        for rid, key, ln, msg in fs:
            ctx.violation(rid, f"{mod.rel}:{fd.name}|{key}", f"src/_gettsim/{mod.rel}:{ln} {fd.name}", msg)


def group_id_arithmetic(ctx, repo, rid):
    from ._wholecol import grouping_id_arithmetic

    ctx.rule(rid, "a group id derived from another id by arithmetic (fg_id * 100 + k) takes k from per-group state looked up by the row's own id (or a constant) - never from a scalar updated across all rows or a cumulative / positional whole-column operation: ids stay independent of row order and of other households, and distinct groups keep distinct ids")
    g = repo.module("groupings.py")
    n = 0
    for name, (fname, fd) in sorted(repo.grouping_funcs.items()):
        fs = list(grouping_id_arithmetic(g, fd))
        n += 1
        ctx.ob(rid, ok=not fs, distinct=fname)
        for key, ln, msg in fs:
            ctx.violation(rid, key, f"src/_gettsim/groupings.py:{ln} {fname}", msg)
    if n < 5:
        from staticlib.common import AnalysisError

        raise AnalysisError(f"only {n} grouping functions found")


_IX_POSITIVE = """
def wrong(group_id, column):
    order = numpy.argsort(group_id)
    first = numpy.r_[True, numpy.diff(group_id[order]) > 0]
    labels = numpy.cumsum(first) - 1
    return labels[order]
"""
_IX_POSITIVE_BLOCK = """
def wrong_block(foreign_key, primary_key, target):
    indices = numpy.full(len(foreign_key), len(primary_key))
    for start in range(0, len(primary_key), 4096):
        block = primary_key[start : start + 4096]
        hit = foreign_key[:, None] == block
        found = hit.any(axis=1)
        indices[found] = numpy.argmax(hit[found], axis=1)
    return numpy.pad(target, (0, 1)).take(indices)
"""
_IX_NEGATIVE_BLOCK = """
def right_block(foreign_key, primary_key, target):
    indices = numpy.full(len(foreign_key), len(primary_key))
    for start in range(0, len(primary_key), 4096):
        block = primary_key[start : start + 4096]
        hit = foreign_key[:, None] == block
        found = hit.any(axis=1)
        indices[found] = numpy.argmax(hit[found], axis=1) + start
    return numpy.pad(target, (0, 1)).take(indices)
"""
_IX_NEGATIVE = """
def right(group_id, column):
    order = numpy.argsort(group_id)
    first = numpy.r_[True, numpy.diff(group_id[order]) > 0]
    labels = numpy.cumsum(first) - 1
    out = numpy.empty_like(labels)
    out[order] = labels
    inverse = numpy.argsort(order)
    u, first_row, inv = numpy.unique(group_id, return_index=True, return_inverse=True)
    return out + labels[inverse] + column[first_row][inv]
"""


def index_spaces(ctx, repo, rid):
    """IX: index-space typing of the whole-column kernels and their helpers (see rules/_idxspace.py)"""
    import ast

    from staticlib.common import AnalysisError

    from ._idxspace import Typer, index_space_findings

    ctx.rule(rid, "in whole-column code an array laid out in sorted order / by unique values / by rows is only indexed with positions of that same layout: results computed in sorted order return to the rows through the inverse permutation (out[order] = ..., [argsort(order)]), never through the permutation itself")
    # the typer must still tell the two textbook spellings apart (expected count on the tree is zero)
    pos = Typer(None, ast.parse(_IX_POSITIVE).body[0]).run()
    neg = Typer(None, ast.parse(_IX_NEGATIVE).body[0]).run()
    posb = Typer(None, ast.parse(_IX_POSITIVE_BLOCK).body[0]).run()
    negb = Typer(None, ast.parse(_IX_NEGATIVE_BLOCK).body[0]).run()
    if len(pos) != 1 or neg or len(posb) != 1 or negb:
        raise AnalysisError(f"index-space typer self-check failed (wrong examples: {len(pos)}, {len(posb)} findings; right examples: {len(neg)}, {len(negb)})")
    nf = nchecked = 0
    for mod, fname, fs, checked in index_space_findings(repo):
        nf += 1
        nchecked += checked
        ctx.ob(rid, ok=not fs, distinct=(mod.rel, fname))
        for key, ln, msg in fs:
            ctx.violation(rid, f"{mod.rel}:{key}", f"src/_gettsim/{mod.rel}:{ln} {fname}", msg)
    ctx.extra_cov["index_space_functions"] = nf
    ctx.extra_cov["index_space_sites_checked"] = nchecked
    if nf < 20:
        raise AnalysisError(f"only {nf} whole-column functions typed")
