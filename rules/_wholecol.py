"""Whole-column discipline (W): functions that receive whole columns may move data between rows only
through id keys.  Deny-list taint analysis: positional indices, whole-column reductions and
order-sensitive operations must not flow into a (non-id) result."""
from __future__ import annotations

import ast

from staticlib.srcmodel import walk_own

REDUCTIONS = {"sum", "mean", "max", "min", "cumsum", "cumprod", "sort", "argsort", "unique", "roll", "diff", "shift",
              "argmax", "argmin", "median", "std", "var", "prod", "nanmax", "nanmin", "nansum", "nanmean", "ptp", "average", "flip"}
ALLOCATORS = {"zeros", "ones", "empty", "full", "zeros_like", "ones_like", "full_like", "empty_like", "arange"}
LABEL_ALIGNING = {"join", "merge", "align", "reindex", "reindex_like", "combine_first"}


def whole_column_functions(repo):
    """(module, FunctionDef, kind) with kind in rule / grouping / aggregation / join"""
    out = []
    for r in repo.rules:
        if r.skip_vec:
            out.append((r.mod, r.node, "rule"))
    g = repo.module("groupings.py")
    for name, (fname, fd) in repo.grouping_funcs.items():
        out.append((g, fd, "grouping"))
    a = repo.module("aggregation_numpy.py")
    for name, fd in a.functions.items():
        if name.startswith("grouped_") or name.endswith("_by_p_id"):
            out.append((a, fd, "aggregation"))
    sh = repo.module("shared.py")
    if "join_numpy" in sh.functions:
        out.append((sh, sh.functions["join_numpy"], "join"))
    return out


def analyse(mod, fd, kind):
    """yields (rule, key, lineno, message)"""
    params = {a.arg for a in fd.args.args}
    taint = {}  # name -> reason

    def expr_taint(e):
        """reason string if evaluating e yields a positional / whole-column-reduced quantity"""
        if e is None:
            return None
        if isinstance(e, ast.Name):
            return taint.get(e.id)
        if isinstance(e, ast.Constant):
            return None
        if isinstance(e, ast.Subscript):
            # positional access col[i] with a tainted index is row-aligned: untainted;
            # constant slices of a whole column are positional
            base_t = expr_taint(e.value)
            if base_t:
                return base_t
            if isinstance(e.value, ast.Name) and e.value.id in params:
                sl = e.slice
                if isinstance(sl, ast.Constant) and isinstance(sl.value, int):
                    return f"constant position {ast.unparse(e)}"
                if isinstance(sl, ast.Slice) and any(isinstance(x, (ast.Constant, ast.UnaryOp)) for x in (sl.lower, sl.upper) if x is not None):
                    return f"positional slice {ast.unparse(e)}"
            return None
        if isinstance(e, ast.Call):
            f = e.func
            name = f.attr if isinstance(f, ast.Attribute) else (f.id if isinstance(f, ast.Name) else None)
            rowwise = any(kw.arg == "axis" and isinstance(kw.value, ast.Constant) and kw.value.value in (1, -1) for kw in e.keywords)
            if name in REDUCTIONS and not rowwise:
                # numpy.sum(col) / col.sum() / builtin sum(col) over a whole column
                operand = e.args[0] if (isinstance(f, ast.Name) or (isinstance(f, ast.Attribute) and isinstance(f.value, ast.Name) and f.value.id in ("numpy", "np"))) and e.args else (f.value if isinstance(f, ast.Attribute) else None)
                if operand is not None and _mentions(operand, params | set(taint) | whole):
                    return f"whole-column {name}()"
            if name == "len" and e.args and _mentions(e.args[0], params | whole):
                return "len() of a column"
            if name in ALLOCATORS:
                return None  # shape arguments
            for a in list(e.args) + [k.value for k in e.keywords]:
                t = expr_taint(a)
                if t:
                    return t
            if isinstance(f, ast.Attribute):
                return expr_taint(f.value)
            return None
        for c in ast.iter_child_nodes(e):
            if isinstance(c, ast.expr):
                t = expr_taint(c)
                if t:
                    return t
        return None

    # names holding whole columns (params and simple derivations)
    whole = set(params)
    nodes = list(walk_own(fd))
    for _ in range(3):
        for n in nodes:
            if isinstance(n, ast.For):
                it = n.iter
                if isinstance(it, ast.Call) and isinstance(it.func, ast.Name) and it.func.id == "enumerate" and isinstance(n.target, ast.Tuple) and isinstance(n.target.elts[0], ast.Name):
                    taint.setdefault(n.target.elts[0].id, f"loop position `{n.target.elts[0].id}` from enumerate")
                if isinstance(it, ast.Call) and isinstance(it.func, ast.Name) and it.func.id == "range" and any(isinstance(x, ast.Call) and isinstance(x.func, ast.Name) and x.func.id == "len" for a in it.args for x in ast.walk(a)) and isinstance(n.target, ast.Name):
                    taint.setdefault(n.target.id, f"loop position `{n.target.id}` from range(len(...))")
            if isinstance(n, ast.comprehension):
                it = n.iter
                if isinstance(it, ast.Call) and isinstance(it.func, ast.Name) and it.func.id == "enumerate" and isinstance(n.target, ast.Tuple) and isinstance(n.target.elts[0], ast.Name):
                    taint.setdefault(n.target.elts[0].id, f"loop position `{n.target.elts[0].id}` from enumerate")
            if isinstance(n, ast.Assign) and len(n.targets) == 1:
                t = n.targets[0]
                r = expr_taint(n.value)
                # a dict/list comprehension whose *values* are positions
                if r is None and isinstance(n.value, ast.DictComp):
                    r = expr_taint(n.value.value)
                if isinstance(t, ast.Name) and r:
                    taint.setdefault(t.id, r)
                if isinstance(t, ast.Name) and isinstance(n.value, ast.Call) and isinstance(n.value.func, ast.Attribute) and n.value.func.attr == "astype" and _mentions(n.value, whole):
                    whole.add(t.id)
            if isinstance(n, ast.AugAssign) and isinstance(n.target, ast.Name):
                r = expr_taint(n.value)
                if r:
                    taint.setdefault(n.target.id, r)
            # running counters: x += 1 inside a loop over a column
            if isinstance(n, ast.AugAssign) and isinstance(n.target, ast.Name) and isinstance(n.value, ast.Constant):
                taint.setdefault(n.target.id, f"running counter `{n.target.id}`")
            if isinstance(n, ast.AugAssign) and isinstance(n.target, ast.Subscript) and isinstance(n.value, ast.Constant) and isinstance(n.target.value, ast.Name):
                taint.setdefault(n.target.value.id, f"running counter `{ast.unparse(n.target.value)}`")
    # --- W3: searchsorted on a raw column
    for n in nodes:
        if isinstance(n, ast.Call) and (ast.unparse(n.func).endswith("searchsorted")):
            arr = n.args[0] if n.args and not (isinstance(n.func, ast.Attribute) and not ast.unparse(n.func.value) in ("numpy", "np")) else (n.func.value if isinstance(n.func, ast.Attribute) else None)
            has_sorter = any(kw.arg == "sorter" for kw in n.keywords)
            if isinstance(arr, ast.Name) and arr.id in params and not has_sorter:
                yield "W3", f"searchsorted({arr.id})", n.lineno, f"`{ast.unparse(n)[:80]}` binary-searches the raw column {arr.id}, which is only meaningful if the rows happen to be sorted by it: results depend on row order"
    if kind == "grouping":
        return  # ids may be numbered by position; only W3 applies
    # --- W1/W2: sinks
    returned = set()
    for n in nodes:
        if isinstance(n, ast.Return) and n.value is not None:
            for x in ast.walk(n.value):
                if isinstance(x, ast.Name):
                    returned.add(x.id)
    # containers that flow into the return value by assignment chains
    for _ in range(3):
        for n in nodes:
            if isinstance(n, ast.Assign) and isinstance(n.targets[0], ast.Name) and n.targets[0].id in returned:
                for x in ast.walk(n.value):
                    if isinstance(x, ast.Name):
                        returned.add(x.id)

    def in_raise_only(node):
        # the node sits in the test of an `if` whose body only raises, or inside a raise
        for m in nodes:
            if isinstance(m, ast.Raise) and node in list(ast.walk(m)):
                return True
            if isinstance(m, ast.If) and node in list(ast.walk(m.test)) and all(isinstance(s, ast.Raise) or (isinstance(s, (ast.Assign, ast.Expr)) and not _stores_into(s, returned)) for s in m.body) and any(isinstance(s, ast.Raise) for s in m.body) and not m.orelse:
                return True
        return False

    for n in nodes:
        val = None
        where = None
        if isinstance(n, ast.Return) and n.value is not None:
            val, where = n.value, "return value"
            direct = val if not isinstance(val, ast.Name) else None
            if direct is not None:
                t = _value_taint(direct, expr_taint)
                if t and not in_raise_only(n):
                    yield ("W1" if "position" in t or "counter" in t else "W2"), f"return|{t}", n.lineno, f"{t} flows into the result: `{ast.unparse(n)[:80]}`"
        if isinstance(n, (ast.Assign, ast.AugAssign)):
            tgt = n.targets[0] if isinstance(n, ast.Assign) else n.target
            base = tgt
            while isinstance(base, (ast.Subscript, ast.Attribute)):
                base = base.value
            if isinstance(base, ast.Name) and base.id in returned:
                t = _value_taint(n.value, expr_taint)
                if t:
                    yield ("W1" if "position" in t or "counter" in t else "W2"), f"{base.id}|{t}", n.lineno, f"{t} is stored into the result `{base.id}`: `{ast.unparse(n)[:80]}`"
        if isinstance(n, ast.Call) and isinstance(n.func, ast.Attribute) and n.func.attr in ("append", "extend") and isinstance(n.func.value, ast.Name) and n.func.value.id in returned:
            for a in n.args:
                t = _value_taint(a, expr_taint)
                if t:
                    yield ("W1" if "position" in t or "counter" in t else "W2"), f"{n.func.value.id}|{t}", n.lineno, f"{t} is appended to the result `{n.func.value.id}`"


def _value_taint(e, expr_taint):
    """taint of the *value* of e; a tainted name used only as a subscript index does not taint"""
    if e is None:
        return None
    if isinstance(e, ast.Subscript):
        return _value_taint(e.value, expr_taint)
    if isinstance(e, ast.Call) and isinstance(e.func, ast.Attribute) and e.func.attr == "take":
        return _value_taint(e.func.value, expr_taint)
    if isinstance(e, (ast.Name, ast.Call)):
        return expr_taint(e)
    for c in ast.iter_child_nodes(e):
        if isinstance(c, ast.expr):
            t = _value_taint(c, expr_taint)
            if t:
                return t
    return None


def _mentions(e, names):
    return any(isinstance(x, ast.Name) and x.id in names for x in ast.walk(e))


def _stores_into(s, names):
    for n in ast.walk(s):
        if isinstance(n, ast.Name) and isinstance(n.ctx, ast.Store) and n.id in names:
            return True
    return False


def converter_keeps_index(repo):
    """W4 (converter): the type converter returns a Series with the caller's index - a freshly built pd.Series(...)
    without `index=` carries 0..n-1 and is later aligned by label with the other input columns (debug output)"""
    gt = repo.module("gettsim_typing.py")
    fd = gt.functions.get("convert_series_to_internal_type")
    if fd is None:
        return
    for c in ast.walk(fd):
        if isinstance(c, ast.Call) and ast.unparse(c.func) in ("pd.Series", "pandas.Series") and not any(kw.arg == "index" for kw in c.keywords):
            yield "W4", "convert_series_to_internal_type|Series-without-index", c.lineno, f"`{ast.unparse(c)[:80]}` rebuilds the converted column without the caller's index: it is later combined with the other input columns by index label, so permuted or non-default labels re-sort the inputs against the results"


def label_alignment(itf):
    """W4: label-aligning pandas operations on the result path of interface.py"""
    for fname in ("compute_taxes_and_transfers", "_prepare_results", "_create_input_data", "_reorder_columns"):
        fd = itf.functions.get(fname)
        if fd is None:
            continue
        for n in ast.walk(fd):
            if isinstance(n, ast.Call):
                t = ast.unparse(n.func)
                if t in ("pd.concat", "pandas.concat") and any(kw.arg == "axis" and isinstance(kw.value, ast.Constant) and kw.value.value in (1, "columns") for kw in n.keywords):
                    yield "W4", f"{fname}|concat-axis-1", n.lineno, f"`{ast.unparse(n)[:80]}` aligns its operands on index labels: computed arrays (positional) are matched to input rows by label, so non-default or permuted index labels scramble the result"
                if isinstance(n.func, ast.Attribute) and n.func.attr in LABEL_ALIGNING:
                    yield "W4", f"{fname}|{n.func.attr}", n.lineno, f"`{ast.unparse(n)[:80]}` aligns on index labels on the result path"
                if t in ("pd.DataFrame", "pandas.DataFrame") and n.args and isinstance(n.args[0], ast.Dict) and sum(1 for k in n.args[0].keys if k is None) >= 2:
                    # {**data, **results}: positional only while `results` holds plain arrays; once it has been turned into a
                    # pandas object its own (fresh) index is aligned with the caller's index labels
                    for k, v in zip(n.args[0].keys, n.args[0].values):
                        if k is None and isinstance(v, ast.Name):
                            for st in ast.walk(fd):
                                if isinstance(st, ast.Assign) and st.lineno < n.lineno and any(isinstance(tg, ast.Name) and tg.id == v.id for tg in st.targets) \
                                        and isinstance(st.value, ast.Call) and ast.unparse(st.value.func) in ("pd.DataFrame", "pandas.DataFrame", "pd.Series", "pandas.Series"):
                                    yield "W4", f"{fname}|DataFrame-of-two-indexed-sources", n.lineno, f"`{ast.unparse(n)[:80]}` combines the caller's Series with `{v.id}`, which line {st.lineno} turned into a pandas object with its own 0..n-1 index: the constructor aligns the two on index labels, so inputs with a non-default or permuted index get other rows' results"
                if t in ("pd.DataFrame", "pandas.DataFrame") and fname == "_create_input_data":
                    yield "W4", f"{fname}|DataFrame-of-series", n.lineno, f"`{ast.unparse(n)[:80]}` builds a frame from the caller's Series (label-aligned) where columns must be taken positionally"


# ------------------------------------------------------------------ ids built by arithmetic on another id
ORDER_SENSITIVE = {"cumsum", "cumprod", "arange", "argsort", "rank", "cumcount", "searchsorted", "unique", "roll", "diff", "shift", "enumerate"}


def grouping_id_arithmetic(mod, fd):
    """An id formed as <id of the row> (+|*) <number> is collision-free and independent of the other rows only
    if <number> is per-entity state: a constant, or a mapping / counter subscripted by an id of the *current*
    row.  A scalar that is updated while scanning the rows, or a cumulative / positional whole-column
    operation, makes the new id depend on rows of other groups (and collide with their ids).
    yields (key, lineno, message)"""
    params = {a.arg for a in fd.args.args}
    loops = [n for n in walk_own(fd) if isinstance(n, ast.For)]
    # names that hold an element of an id column for the current row
    for loop in loops:
        row_ids = set()
        idx_names = set()
        it = loop.iter
        if isinstance(it, ast.Call) and isinstance(it.func, ast.Name) and it.func.id in ("enumerate", "zip", "range"):
            tg = loop.target
            elts = tg.elts if isinstance(tg, ast.Tuple) else [tg]
            if it.func.id == "enumerate" and len(elts) == 2:
                idx_names |= {x.id for x in ast.walk(elts[0]) if isinstance(x, ast.Name)}
                row_ids |= {x.id for x in ast.walk(elts[1]) if isinstance(x, ast.Name)}
            elif it.func.id == "range":
                idx_names |= {x.id for x in ast.walk(tg) if isinstance(x, ast.Name)}
            else:
                row_ids |= {x.id for e in elts for x in ast.walk(e) if isinstance(x, ast.Name)}
        elif isinstance(loop.target, ast.Name):
            row_ids.add(loop.target.id)
        for st in ast.walk(loop):
            if isinstance(st, ast.Assign) and len(st.targets) == 1 and isinstance(st.targets[0], ast.Name) and isinstance(st.value, ast.Subscript) \
                    and isinstance(st.value.value, ast.Name) and st.value.value.id in params and isinstance(st.value.slice, ast.Name) and st.value.slice.id in idx_names:
                row_ids.add(st.targets[0].id)
        # scalars updated inside the loop
        mutated = set()
        for st in ast.walk(loop):
            if isinstance(st, ast.AugAssign) and isinstance(st.target, ast.Name):
                mutated.add(st.target.id)
            if isinstance(st, ast.Assign):
                for t in st.targets:
                    if isinstance(t, ast.Name) and t.id not in row_ids and t.id not in idx_names:
                        # assigned inside the loop from itself or constants -> state; from row values -> per-row temp
                        if any(isinstance(x, ast.Name) and x.id == t.id for x in ast.walk(st.value)) or isinstance(st.value, ast.Constant):
                            mutated.add(t.id)
        for st in ast.walk(loop):
            if not (isinstance(st, ast.Call) and isinstance(st.func, ast.Attribute) and st.func.attr == "append" and st.args):
                if not (isinstance(st, ast.Assign) and isinstance(st.targets[0], ast.Subscript)):
                    continue
                val = st.value
            else:
                val = st.args[0]
            for b in ast.walk(val):
                if isinstance(b, ast.BinOp) and isinstance(b.op, (ast.Add, ast.Sub, ast.Mult)):
                    names = {x.id for x in ast.walk(b) if isinstance(x, ast.Name)}
                    if not (names & row_ids):
                        continue
                    # operands that are bare scalar state
                    for side in (b.left, b.right):
                        if isinstance(side, ast.Name) and side.id in mutated and side.id not in row_ids:
                            yield (f"{fd.name}|{ast.unparse(b)}", b.lineno, f"`{ast.unparse(b)}` builds an id from the row's own id and the scalar `{side.id}`, which is updated while scanning all rows: the number depends on rows of other groups (row order, other households) and the new id can coincide with another group's id; per-group state must be looked up by the row's id (`counter[current_id]`)")
    # vectorised spelling: id column (+|*) cumulative / positional whole-column operation
    la = {}
    for st in walk_own(fd):
        if isinstance(st, ast.Assign) and len(st.targets) == 1 and isinstance(st.targets[0], ast.Name):
            la[st.targets[0].id] = st.value

    def order_sensitive(e, depth=0):
        for c in ast.walk(e):
            if isinstance(c, ast.Call):
                nm = c.func.attr if isinstance(c.func, ast.Attribute) else (c.func.id if isinstance(c.func, ast.Name) else "")
                if nm in ORDER_SENSITIVE:
                    return nm
            if isinstance(c, ast.Name) and c.id in la and depth < 4 and c.id not in params:
                r = order_sensitive(la[c.id], depth + 1)
                if r:
                    return r
        return None

    def mentions_param(e, depth=0):
        for c in ast.walk(e):
            if isinstance(c, ast.Name) and c.id in params:
                return True
            if isinstance(c, ast.Name) and c.id in la and depth < 4 and mentions_param(la[c.id], depth + 1):
                return True
        return False

    in_loop = {id(x) for loop in loops for x in ast.walk(loop)}
    for st in walk_own(fd):
        vals = [st.value] if isinstance(st, (ast.Return, ast.Assign)) and st.value is not None else []
        for v in vals:
            for b in ast.walk(v):
                if id(b) in in_loop or not (isinstance(b, ast.BinOp) and isinstance(b.op, (ast.Add, ast.Sub, ast.Mult))):
                    continue
                for me, other in ((b.left, b.right), (b.right, b.left)):
                    o = order_sensitive(me)
                    if o and mentions_param(other) and not order_sensitive(other):
                        yield (f"{fd.name}|{ast.unparse(b)[:80]}", b.lineno, f"`{ast.unparse(b)[:80]}` builds an id from an id column and a `{o}` over the whole dataset: the running number depends on the rows of other groups and the new id can coincide with another group's id")


# ------------------------------------------------------------------ person pointers inside row loops
def _pointer_params(fd):
    return {a.arg for a in fd.args.args if (a.arg.startswith("p_id_") or a.arg == "foreign_key")}


def pointer_findings(mod, fd, kind):
    """W6: an element of a pointer column (-1 = nobody) indexes a *sequence* (numpy array / list) only under a
    guard excluding negative values - a negative index silently selects from the end.  (Dictionaries are safe:
    -1 is simply not a key.)
    W7 (functions whose result is data, not a group id): a mapping that is filled inside a row loop is not read,
    in the same loop, under a pointer key - rows listed before the row they point to would see a missing entry.
    yields (rule, key, lineno, message)"""
    from staticlib.guards import Dominance, eval_sized

    ptr_params = _pointer_params(fd)
    if not ptr_params:
        return
    dom = Dominance(fd)
    seqs, maps = set(), set()
    for st in walk_own(fd):
        if isinstance(st, ast.Assign) and len(st.targets) == 1 and isinstance(st.targets[0], ast.Name):
            v = st.value
            nm = st.targets[0].id
            if isinstance(v, ast.Call):
                f = ast.unparse(v.func).split(".")[-1]
                if f in ALLOCATORS or f in ("array", "asarray", "list"):
                    seqs.add(nm)
                if f in ("dict", "Counter", "defaultdict", "OrderedDict"):
                    maps.add(nm)
            elif isinstance(v, (ast.List, ast.ListComp)) or (isinstance(v, ast.BinOp) and isinstance(v.left, ast.List)):
                seqs.add(nm)
            elif isinstance(v, (ast.Dict, ast.DictComp)):
                maps.add(nm)
    for loop in [n for n in walk_own(fd) if isinstance(n, ast.For)]:
        # names holding an element of a pointer column in this loop
        ptr_el, idx_names = set(), set()
        it, tg = loop.iter, loop.target
        if isinstance(it, ast.Call) and isinstance(it.func, ast.Name) and it.func.id == "zip":
            elts = tg.elts if isinstance(tg, ast.Tuple) else [tg]
            for a, t in zip(it.args, elts):
                if isinstance(a, ast.Name) and a.id in ptr_params and isinstance(t, ast.Name):
                    ptr_el.add(t.id)
        elif isinstance(it, ast.Call) and isinstance(it.func, ast.Name) and it.func.id == "enumerate" and isinstance(tg, ast.Tuple) and len(tg.elts) == 2:
            if isinstance(tg.elts[0], ast.Name):
                idx_names.add(tg.elts[0].id)
            if it.args and isinstance(it.args[0], ast.Name) and it.args[0].id in ptr_params and isinstance(tg.elts[1], ast.Name):
                ptr_el.add(tg.elts[1].id)
        elif isinstance(it, ast.Name) and it.id in ptr_params and isinstance(tg, ast.Name):
            ptr_el.add(tg.id)
        elif isinstance(it, ast.Call) and isinstance(it.func, ast.Name) and it.func.id == "range" and isinstance(tg, ast.Name):
            idx_names.add(tg.id)
        for st in ast.walk(loop):
            if isinstance(st, ast.Assign) and len(st.targets) == 1 and isinstance(st.targets[0], ast.Name) and isinstance(st.value, ast.Subscript) \
                    and isinstance(st.value.value, ast.Name) and st.value.value.id in ptr_params and isinstance(st.value.slice, ast.Name) and st.value.slice.id in idx_names:
                ptr_el.add(st.targets[0].id)
        if not ptr_el:
            continue
        filled = {st.targets[0].value.id for st in ast.walk(loop) if isinstance(st, ast.Assign) and isinstance(st.targets[0], ast.Subscript) and isinstance(st.targets[0].value, ast.Name)}
        filled |= {st.target.value.id for st in ast.walk(loop) if isinstance(st, ast.AugAssign) and isinstance(st.target, ast.Subscript) and isinstance(st.target.value, ast.Name)}
        for sub in ast.walk(loop):
            if isinstance(sub, ast.Subscript) and isinstance(sub.value, ast.Name) and isinstance(sub.slice, ast.Name) and sub.slice.id in ptr_el:
                base, key = sub.value.id, sub.slice.id
                if base in seqs:
                    feasible = True
                    for t, pol in dom.of(sub):
                        v = eval_sized(t, {key: -1})
                        if v is not None and v != pol:
                            feasible = False
                    if feasible:
                        yield ("W6", f"{ast.unparse(sub)}", sub.lineno, f"`{ast.unparse(sub)}` indexes the sequence `{base}` with an element of a pointer column without a guard excluding -1 (nobody): a negative index selects from the END of the array - the entry of the person with the largest id - so the result depends on who that is and on the row order")
                if kind != "grouping" and base in filled and (base in maps or base not in seqs) and isinstance(sub.ctx, ast.Load):
                    yield ("W7", f"{ast.unparse(sub)}", sub.lineno, f"`{ast.unparse(sub)}` reads `{base}` under another row's id while the same loop is still filling it: a row listed before the row it points to finds no entry (or a stale one) - the result depends on the row order")
            if kind != "grouping" and isinstance(sub, ast.Call) and isinstance(sub.func, ast.Attribute) and sub.func.attr in ("get", "pop", "setdefault") and isinstance(sub.func.value, ast.Name) \
                    and sub.func.value.id in filled and sub.args and isinstance(sub.args[0], ast.Name) and sub.args[0].id in ptr_el:
                yield ("W7", f"{ast.unparse(sub)[:60]}", sub.lineno, f"`{ast.unparse(sub)[:70]}` reads `{sub.func.value.id}` under another row's id while the same loop is still filling it: a row listed before the row it points to gets the default - the result depends on the row order")


# ------------------------------------------------------------------ ids and pointers are not numbers
def _is_pointer_name(nm):
    return (nm.startswith("p_id_") or "_p_id_" in nm or nm in ("id_receiver", "foreign_key")) and not nm.endswith(("_to_position", "_dict"))


def _is_id_name(nm):
    return nm == "p_id" or nm.endswith("_id") or _is_pointer_name(nm)


def id_value_findings(mod, fd):
    """W8: a person pointer is compared with the sentinel only (`>= 0`, `< 0`, `== -1`, `!= -1`): 0 is a valid id.
    W9: an id (or the result of an id look-up) is never used as a truth value (`id or default`, `if id:`).
    yields (rule, key, lineno, message)"""
    ok_forms = {(ast.GtE, 0), (ast.Lt, 0), (ast.Gt, -1), (ast.LtE, -1), (ast.Eq, -1), (ast.NotEq, -1)}
    flip = {ast.Gt: ast.Lt, ast.Lt: ast.Gt, ast.GtE: ast.LtE, ast.LtE: ast.GtE, ast.Eq: ast.Eq, ast.NotEq: ast.NotEq}

    def lit(e):
        if isinstance(e, ast.Constant) and isinstance(e.value, int) and not isinstance(e.value, bool):
            return e.value
        if isinstance(e, ast.UnaryOp) and isinstance(e.op, ast.USub) and isinstance(e.operand, ast.Constant) and isinstance(e.operand.value, int):
            return -e.operand.value
        return None

    def ptr_expr(e):
        if isinstance(e, ast.Name):
            return _is_pointer_name(e.id)
        if isinstance(e, ast.Subscript) and isinstance(e.value, ast.Name):
            return _is_pointer_name(e.value.id)
        return False

    def id_expr(e):
        if isinstance(e, ast.Name):
            return _is_id_name(e.id)
        if isinstance(e, ast.Subscript) and isinstance(e.value, ast.Name):
            return _is_id_name(e.value.id) or e.value.id.endswith("_id") or "_to_" in e.value.id and e.value.id.endswith("_id")
        if isinstance(e, ast.Call) and isinstance(e.func, ast.Attribute) and e.func.attr == "get" and isinstance(e.func.value, ast.Name):
            return e.func.value.id.endswith("_id")
        return False

    for n in ast.walk(fd):
        if isinstance(n, ast.Compare) and len(n.ops) == 1:
            l, r, op = n.left, n.comparators[0], type(n.ops[0])
            if ptr_expr(r) and lit(l) is not None:
                l, r, op = r, l, flip.get(op)
            if ptr_expr(l) and lit(r) is not None and op is not None:
                if (op, lit(r)) not in ok_forms:
                    yield ("W8", ast.unparse(n), n.lineno, f"`{ast.unparse(n)}` compares a person pointer with {lit(r)} other than as the sentinel test (>= 0 / < 0 / == -1 / != -1): the person with id 0 is a valid person; a pointer to her is treated as nobody (the result changes when ids are relabelled)")
        tests = []
        if isinstance(n, ast.BoolOp):
            tests = n.values[:-1] if isinstance(n.op, ast.Or) else n.values[:-1]
            tests = list(n.values[:-1])
        elif isinstance(n, (ast.If, ast.IfExp, ast.While)):
            tests = [n.test]
        elif isinstance(n, ast.UnaryOp) and isinstance(n.op, ast.Not):
            tests = [n.operand]
        for t in tests:
            if id_expr(t):
                yield ("W9", ast.unparse(t)[:60], t.lineno, f"`{ast.unparse(t)[:60]}` is an id used as a truth value (in `{ast.unparse(n)[:70]}`): 0 is a valid id and counts as false - the first person / first group of every data set is treated as missing")


# ------------------------------------------------------------------ kernels: argument arrays, buffers, neighbours
def kernel_hygiene(mod, fd, kind):
    """W10: a whole-column function never stores into one of its argument arrays (`col[mask] = x`, `col += x`):
    a supplied column reaches it as the caller's (possibly read-only) array, a computed one as a fresh array.
    W11: a result buffer allocated with `numpy.full(shape, <argument>)` takes its dtype from that argument: values
    of a column assigned into it are cast to the fill value's type - give the dtype explicitly.
    W12 (groupings): no comparison of a column with its own neighbours (`a[1:] == a[:-1]`, roll / shift / diff on
    ids or pointers): who stands next to whom is an accident of the row order.
    yields (rule, key, lineno, message)"""
    params = {a.arg for a in fd.args.args}
    rebound = {t.id for st in walk_own(fd) if isinstance(st, ast.Assign) for t in st.targets if isinstance(t, ast.Name)}
    for st in walk_own(fd):
        tg = None
        if isinstance(st, ast.Assign) and len(st.targets) == 1 and isinstance(st.targets[0], ast.Subscript):
            tg = st.targets[0]
        elif isinstance(st, ast.AugAssign):
            tg = st.target
        if tg is not None:
            base = tg.value if isinstance(tg, ast.Subscript) else tg
            if isinstance(base, ast.Name) and base.id in params and base.id not in rebound:
                yield ("W10", ast.unparse(st)[:60], st.lineno, f"`{ast.unparse(st)[:70]}` writes into the argument array `{base.id}`: a supplied column arrives as the caller's array (read-only under pandas copy-on-write, or silently modified), a computed one as a fresh array - the two runs differ")
    fills = {}
    for st in walk_own(fd):
        if isinstance(st, ast.Assign) and len(st.targets) == 1 and isinstance(st.targets[0], ast.Name) and isinstance(st.value, ast.Call):
            f = ast.unparse(st.value.func).split(".")[-1]
            if f == "full" and len(st.value.args) >= 2 and not any(kw.arg == "dtype" for kw in st.value.keywords):
                fv = st.value.args[1]
                if isinstance(fv, ast.Name) and fv.id in params:
                    fills[st.targets[0].id] = (st, fv.id)
    for st in walk_own(fd):
        if isinstance(st, ast.Assign) and len(st.targets) == 1 and isinstance(st.targets[0], ast.Subscript) and isinstance(st.targets[0].value, ast.Name) and st.targets[0].value.id in fills:
            if any(isinstance(x, ast.Name) and x.id in params and x.id != fills[st.targets[0].value.id][1] for x in ast.walk(st.value)):
                alloc, fv = fills[st.targets[0].value.id]
                yield ("W11", ast.unparse(alloc)[:60], alloc.lineno, f"`{ast.unparse(alloc)[:70]}` allocates the result with the dtype of the fill value `{fv}`; `{ast.unparse(st)[:60]}` then casts the column's values to that type (a float column with an integer fall-back is truncated)")
    if kind == "grouping":
        for c in walk_own(fd):
            if isinstance(c, ast.Subscript) and isinstance(c.slice, ast.Slice) and isinstance(c.value, ast.Name) and c.value.id in params and (c.slice.lower is not None or c.slice.upper is not None):
                yield ("W12", ast.unparse(c)[:60], c.lineno, f"`{ast.unparse(c)[:70]}` is a shifted view of an id / pointer column: combining it with the unshifted columns relates each row to its neighbour - who stands next to whom is an accident of the row order, so the partition depends on it")
                continue
            if isinstance(c, ast.Compare) and len(c.ops) == 1:
                sides = [c.left, c.comparators[0]]

                def shifted(e):
                    return isinstance(e, ast.Subscript) and isinstance(e.slice, ast.Slice) and (e.slice.lower is not None or e.slice.upper is not None) and any(isinstance(x, ast.Name) and x.id in params for x in ast.walk(e.value))

                if all(shifted(e) for e in sides):
                    yield ("W12", ast.unparse(c)[:60], c.lineno, f"`{ast.unparse(c)[:70]}` compares rows with their neighbours: whether two members of a group stand next to each other depends on the row order, so does the partition")
            if isinstance(c, ast.Call) and ast.unparse(c.func).split(".")[-1] in ("roll", "shift", "diff", "ediff1d") and any(isinstance(x, ast.Name) and x.id in params for a in c.args for x in ast.walk(a)):
                yield ("W12", ast.unparse(c)[:60], c.lineno, f"`{ast.unparse(c)[:70]}` relates each row to its neighbour: adjacency is an accident of the row order, so the partition depends on it")
