"""Rules E1-E4 and P-nondet over the framework modules (shared by C06, C09, C14)."""
from __future__ import annotations

import ast

from staticlib.effects import Effects
from staticlib.srcmodel import walk_own

ENTRY_POINTS = [
    "interface.compute_taxes_and_transfers",
    "policy_environment.set_up_policy_environment",
    "policy_environment.load_functions_for_date",
    "vectorization.make_vectorizable",
    "vectorization.make_vectorizable_source",
    "time_conversion.create_time_conversion_functions",
]
# reviewed exceptions: exact symbol, one line of reason
REVIEWED_GLOBAL_WRITERS = {
    "shared.policy_info.inner": "attaching __info__ and registering in TIME_DEPENDENT_FUNCTIONS is the documented effect of the decorator; it runs at decoration (import) time and the registry is read only by the conflict check",
    "config.set_array_backend": "the documented backend switch",
}
NONDET_EXACT = {"datetime.datetime.now", "datetime.datetime.today", "datetime.date.today", "datetime.now", "datetime.today", "date.today",
                "time.time", "time.time_ns", "time.monotonic", "time.perf_counter", "os.getenv", "os.urandom", "uuid.uuid4", "uuid.uuid1",
                "pd.Timestamp.now", "pd.Timestamp.today", "pandas.Timestamp.now", "id", "hash"}
NONDET_PREFIX = ("random.", "numpy.random.", "np.random.", "secrets.", "os.environ")

_E = {}


def effects(repo):
    k = str(repo.root)
    if k not in _E:
        _E[k] = Effects(repo)
    return _E[k]


def loc(repo, f, lineno):
    return f"src/_gettsim/{f.mod}.py:{lineno} {f.qual.split('.', 1)[1]}"


def rule_E1(ctx, repo, entries=ENTRY_POINTS, rid="E1", only_params=None):
    ctx.rule(rid, "no API entry point (transitively, through the resolved intra-package call graph) writes into an object reachable from one of its parameters")
    e = effects(repo)
    for q in entries:
        f = e.entry(q)
        bad = sorted({(f.params[i], "itself") for i in f.mut} | {(f.params[i], "a part of it") for i in f.mutd})
        if only_params is not None:
            bad = [b for b in bad if b[0] in only_params]
        ctx.ob(rid, ok=not bad, distinct=q, n=max(1, len(f.params)))
        for pname, how in bad:
            sites = [s for s in f.sites if s[3][0] in ("P", "D") and f.params[s[3][1]] == pname]
            s0 = sorted(sites)[0]
            ctx.violation(rid, f"{q}|{pname}", loc(repo, f, s0[0]), f"{q.split('.')[-1]}({pname}) may write into the caller's object ({how}): {s0[1]}",
                          sites=[f"line {s[0]}: {s[1]} -> {s[2]}" for s in sorted(sites)[:6]])
        ctx.sample({"rule": rid, "entry": q, "params": f.params, "mutated": [b[0] for b in bad]})


def rule_E2(ctx, repo, rid="E2"):
    ctx.rule(rid, "no framework function writes a module-level mutable binding (reviewed exceptions: " + ", ".join(REVIEWED_GLOBAL_WRITERS) + ")")
    e = effects(repo)
    n = 0
    for q, f in e.funcs.items():
        own = sorted({s[3][1] for s in f.sites if s[3][0] == "G" and not s[1].startswith("via ")})
        n += 1
        if q in REVIEWED_GLOBAL_WRITERS:
            ctx.ob(rid, ok=True, distinct=q)
            ctx.info(f"reviewed exception {q}: {REVIEWED_GLOBAL_WRITERS[q]} (writes {own})")
            continue
        ctx.ob(rid, ok=not own, distinct=q)
        for g in own:
            s0 = sorted(s for s in f.sites if s[3] == ("G", g))[0]
            ctx.violation(rid, f"{q}|{g}", loc(repo, f, s0[0]), f"{q} writes module-level state {g}: {s0[1]} - results can depend on what was processed earlier in the process")
    ctx.floor(rid, 120)


def rule_E3(ctx, repo, rid="E3", also_policy=True):
    ctx.rule(rid, "no function with a mutable result is memoised (functools.cache/lru_cache/cached_property) unless every call site hands the cached object straight to copy.deepcopy")
    e = effects(repo)
    memo = list(e.memoised())
    scanned = len(e.funcs)
    # policy modules too (rules must not be cached either: parameters are arguments)
    extra = []
    if also_policy:
        for r in repo.rules:
            scanned += 1
            for d in r.node.decorator_list:
                t = ast.unparse(d)
                if any(k in t for k in ("lru_cache", "functools.cache", "cached_property")) or t in ("cache",):
                    extra.append((r, t))
    ctx.ob(rid, ok=True, distinct="scan", n=scanned)
    for f, d in memo:
        immut = _returns_immutable(f.node)
        ok = immut
        if not ok:
            # every call site wrapped by deepcopy?
            calls, wrapped = 0, 0
            for g in e.funcs.values():
                parents = {}
                for n in ast.walk(g.node):
                    for c in ast.iter_child_nodes(n):
                        parents[c] = n
                for n in ast.walk(g.node):
                    if isinstance(n, ast.Call) and isinstance(n.func, ast.Name) and e.resolve(g, n.func.id) is f:
                        calls += 1
                        p = parents.get(n)
                        if isinstance(p, ast.Call) and ast.unparse(p.func) in ("copy.deepcopy", "deepcopy") and p.args and p.args[0] is n:
                            wrapped += 1
            ok = calls > 0 and calls == wrapped
        ctx.ob(rid, ok=ok, distinct=f.qual)
        if not ok:
            ctx.violation(rid, f"{f.qual}|{d}", loc(repo, f, f.node.lineno), f"{f.qual} is memoised with @{d} but returns a mutable object that escapes to callers: later calls share (and can corrupt) one object")
    for r, t in extra:
        ctx.ob(rid, ok=False, distinct=r.qual)
        ctx.violation(rid, f"{r.qual}|{t}", r.where, f"policy rule {r.name} is memoised with @{t}: results would ignore changed parameters / data")


def _returns_immutable(fd):
    for n in walk_own(fd):
        if isinstance(n, ast.Return) and n.value is not None:
            v = n.value
            if isinstance(v, (ast.Constant, ast.JoinedStr, ast.Compare, ast.BoolOp)):
                continue
            if isinstance(v, ast.Tuple) and all(isinstance(x, ast.Constant) for x in v.elts):
                continue
            if isinstance(v, ast.Call) and isinstance(v.func, ast.Name) and v.func.id in ("str", "int", "float", "bool", "len", "tuple", "frozenset"):
                continue
            return False
    return True


def rule_E4(ctx, repo, rid="E4"):
    ctx.rule(rid, "the mapping handed to exec() as globals is a fresh object, never a caller's or a module's namespace")
    e = effects(repo)
    n = 0
    for q, f in e.funcs.items():
        for s in f.sites:
            pass
        for node in walk_own(f.node):
            if isinstance(node, ast.Call) and isinstance(node.func, ast.Name) and node.func.id == "exec":
                n += 1
                bad = [s for s in f.sites if s[0] == node.lineno and s[1].startswith("exec")]
                noscope = len(node.args) < 2
                ctx.ob(rid, ok=not bad and not noscope, distinct=q)
                if noscope:
                    ctx.violation(rid, f"{q}|exec-without-namespace", loc(repo, f, node.lineno), "exec() without an explicit namespace runs in the framework module's own globals")
                for s in bad[:1]:
                    ctx.violation(rid, f"{q}|exec|{s[2]}", loc(repo, f, node.lineno), f"exec() runs the generated code in a namespace that is {s[2]}: the array form (and re-executed decorators) are bound in the rule's defining module")
    if n == 0:
        ctx.info("no exec() call in the framework modules")
    ctx.ob(rid, ok=True, distinct="scan", n=len(e.funcs))


def rule_nondet(ctx, repo, rid="P-nondet"):
    ctx.rule(rid, "no framework function calls a clock, RNG, environment or object-identity API")
    e = effects(repo)
    for q, f in e.funcs.items():
        bad = []
        for n in walk_own(f.node):
            if isinstance(n, ast.Call):
                t = ast.unparse(n.func)
                if t in NONDET_EXACT and not (t in ("id", "hash") and t in f.params) or t.startswith(NONDET_PREFIX):
                    if t in ("id", "hash"):
                        continue  # too common in benign code paths (error messages); listed only
                    bad.append((n.lineno, t))
            if isinstance(n, ast.Attribute) and ast.unparse(n).startswith("os.environ"):
                bad.append((n.lineno, "os.environ"))
        ctx.ob(rid, ok=not bad, distinct=q)
        for ln, t in bad[:2]:
            ctx.violation(rid, f"{q}|{t}", loc(repo, f, ln), f"{q} calls {t}: results depend on something other than the arguments")
