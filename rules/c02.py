"""C02 - unrelated households do not influence each other (partial).
P  scalar rules are pure functions of their own row; P0 every rule runs through the row-wise
wrapper; W whole-column functions move data between rows only through id keys."""
from staticlib.session import get_session

from ._purity import purity_findings
from ._typing import vectorize_mode
from .c01 import whole_column


def check(ctx):
    s = get_session(ctx.root)
    repo = s.repo
    ctx.assumptions += ["injectivity of fg_id*100+k / hh_id*100+1 (needs a bound on counts) is not decided"]
    ctx.rule("P", "every policy function is a pure function of its arguments: no store into arguments or module-level bindings, no global/nonlocal/import, no I/O / clock / RNG, no read of a module-level binding that some function writes")
    for r in repo.rules:
        fs = list(purity_findings(repo, r))
        ctx.ob("P", ok=not fs, distinct=r.qual)
        for rid, key, ln, msg in fs:
            ctx.violation("P", f"{r.qual}|{key}", f"src/_gettsim/{r.mod.rel}:{ln} {r.name}", msg)
    ctx.floor("P", 350)
    mode, p0, where = vectorize_mode(repo)
    ctx.rule("P0", "_vectorize_func wraps the function handed in with numpy.vectorize (one call per row with that row's values); the raw function is returned only under the skip_vectorization test; all loaded functions are mapped through it")
    ctx.ob("P0", ok=not p0, distinct="wrapper", n=3)
    for rid, loc, msg in p0:
        ctx.violation("P0", rid, loc, msg)
    whole_column(ctx, repo)  # includes W5 (id arithmetic) and IX (index spaces)
