"""Sibling agreement on capped multipliers (contradiction rule): if one rule scales a parameter by a
capped count `min(f(v), K)` and another rule scales the *same parameter* by an expression over the
*same data variable* v, the two expressions must be identical after inlining locals - the regular
and the transition-zone (Midijob) copy of one statutory formula are the motivating instance."""
from __future__ import annotations

import ast
import collections


def _ppath(e):
    keys = []
    while isinstance(e, ast.Subscript) and isinstance(e.slice, ast.Constant):
        keys.append(e.slice.value)
        e = e.value
    if isinstance(e, ast.Name) and e.id.endswith("_params") and keys:
        return e.id + "/" + "/".join(map(str, reversed(keys)))
    return None


def capped_multiplier_findings(repo, active=None):
    """yields (key, where, message); `active(rule)` filters rules (e.g. by date)"""
    groups = collections.defaultdict(list)
    for r in repo.rules:
        if active is not None and not active(r):
            continue
        counts, defs = {}, {}
        for n in ast.walk(r.node):
            if isinstance(n, ast.Assign) and len(n.targets) == 1 and isinstance(n.targets[0], ast.Name):
                counts[n.targets[0].id] = counts.get(n.targets[0].id, 0) + 1
                defs[n.targets[0].id] = n.value
        defs = {k: v for k, v in defs.items() if counts[k] == 1 and k not in r.argnames}

        class Inl(ast.NodeTransformer):
            def visit_Name(self, n):
                if n.id in defs and isinstance(n.ctx, ast.Load):
                    return self.visit(ast.parse(ast.unparse(defs[n.id]), mode="eval").body)
                return n

        for n in ast.walk(r.node):
            if isinstance(n, ast.BinOp) and isinstance(n.op, ast.Mult):
                for a, b in ((n.left, n.right), (n.right, n.left)):
                    p = _ppath(a)
                    if p:
                        other = Inl().visit(ast.parse(ast.unparse(b), mode="eval").body)
                        vs = frozenset(x.id for x in ast.walk(other) if isinstance(x, ast.Name) and x.id in r.argnames and not x.id.endswith("_params"))
                        capped = any(isinstance(c, ast.Call) and isinstance(c.func, ast.Name) and c.func.id in ("min", "max") and any(isinstance(x, ast.Constant) and isinstance(x.value, int) and not isinstance(x.value, bool) for x in c.args) for c in ast.walk(other))
                        groups[p].append((r, n, ast.unparse(other), vs, capped))
    ngroups = 0
    for p, lst in groups.items():
        capped = [x for x in lst if x[4]]
        for c in capped:
            peers = [x for x in lst if x[0] is not c[0] and x[3] == c[3] and x[3]]
            if peers:
                ngroups += 1
            for x in peers:
                if x[2] != c[2]:
                    a, b = sorted([c, x], key=lambda t: t[0].qual)
                    yield (f"{p}|{a[0].qual}|{b[0].qual}", f"src/_gettsim/{x[0].mod.rel}:{x[1].lineno} {x[0].name}",
                           f"{p.replace('/', '.')} is scaled by `{c[2]}` in {c[0].name} but by `{x[2]}` in {x[0].name}: two copies of one formula disagree on the cap (the contribution / benefit then jumps between the two regimes or leaves its statutory bounds)")
    yield ("__count__", None, ngroups)
