"""Atom enumeration (engine T in `atoms` mode): the atoms of a rule are its boolean arguments plus
every data-dependent test; under a total truth assignment every test folds, the run follows one
path and each return is classified Zero / Sym(arg) / Maybe."""
from __future__ import annotations

import itertools

from staticlib.absint import Abs, Conc, Interp, OneOf
from staticlib.common import AnalysisError

MAX_ATOMS = 12


def classify(v):
    if isinstance(v, Conc):
        try:
            if not isinstance(v.v, bool) and v.v == 0:
                return "Zero"
        except Exception:  # noqa: BLE001
            pass
        return f"Const({v.v!r})"
    if isinstance(v, Abs) and v.sym:
        return f"Sym({v.sym})"
    if isinstance(v, OneOf):
        try:
            if all((not isinstance(x, bool)) and x == 0 for x in v.vals):
                return "Zero"
        except Exception:  # noqa: BLE001
            pass
    return "Maybe"


def enumerate_rule(s, rule, date):
    """returns (atoms, rows) with rows = [(assignment dict, [classification per return], [return values])]"""
    params, _, _ = s.em.params(date)
    dag = s.dag(date)

    def mkenv(asg):
        env, _notes = s.rule_env(rule, dag, params)
        for a, ann in rule.args:
            if ann == "bool" and a in asg:
                env[a] = Conc(asg[a])
        return env

    boolargs = [a for a, ann in rule.args if ann == "bool"]
    it = Interp(s.repo, rule.mod, mode="atoms", assign={})
    it.run_function(rule.node, mkenv({}))
    atoms = boolargs + [a for a in it.atoms_found if a not in boolargs]
    # discovery may reveal more atoms on other paths: iterate to a fixed point
    for _ in range(4):
        more = []
        for vals in itertools.product([False, True], repeat=min(len(atoms), 6)):
            asg = dict(zip(atoms, vals))
            it2 = Interp(s.repo, rule.mod, mode="atoms", assign=asg)
            it2.run_function(rule.node, mkenv(asg))
            more += [a for a in it2.atoms_found if a not in atoms and a not in more]
        if not more:
            break
        atoms += more
    if len(atoms) > MAX_ATOMS:
        raise AnalysisError(f"{rule.qual}: {len(atoms)} atoms exceed the enumeration bound {MAX_ATOMS}")
    rows = []
    for vals in itertools.product([False, True], repeat=len(atoms)):
        asg = dict(zip(atoms, vals))
        it3 = Interp(s.repo, rule.mod, mode="atoms", assign=asg)
        res, rets = it3.run_function(rule.node, mkenv(asg))
        rows.append((asg, [classify(v) for v, _, _ in rets], [v for v, _, _ in rets], it3))
    return atoms, rows


def nz_projection(atoms, rows, onto):
    """set of assignments (tuples over `onto`) under which the result may be non-zero"""
    idx = [a for a in onto if a in atoms]
    out = set()
    for asg, cls, _, _ in rows:
        if any(c != "Zero" for c in cls):
            out.add(tuple(asg[a] for a in idx))
    return idx, out


def find_rule(s, dag, name):
    node = dag.nodes.get(name)
    if node is None or node.kind != "rule":
        return None
    return node.rule
