"""Kind analysis shared by C01 (clause a), C03 and C05: return kinds of every scalar rule at
every equivalence interval (engine T), plus the shape of the row-wise wrapper (P0)."""
from __future__ import annotations

import ast
import collections
import datetime

from staticlib.common import AnalysisError
from staticlib.session import analyse_dates, get_session
from staticlib.srcmodel import find_function, walk_own

QUICK_START = datetime.date(2015, 1, 1)
THOROUGH_START = datetime.date(1980, 1, 1)
WIDTH = {"bool": 0, "int": 1, "float": 2}


def interval_dates(s, tier):
    """quick: the first day of every equivalence interval since 1980 (one sample per class is complete if the
    timeline is); thorough: also the last day, the day after each change, and every 29 February"""
    iv = s.em.intervals(THOROUGH_START)
    if tier == "quick":
        return [f for f, _ in iv]
    ds = {f for f, _ in iv} | {l for _, l in iv}
    ds |= {f + datetime.timedelta(days=1) for f, l in iv if f < l}
    ds |= {datetime.date(y, 2, 29) for y in range(1980, s.em.last_entry_date.year + 2, 4)}
    return sorted(d for d in ds if d <= s.em.last_entry_date)


def vectorize_mode(repo):
    """'first-row' if numpy.vectorize is called without otypes (dtype of the column comes from the
    first row), 'declared' if otypes is passed.  Also checks the wrapper shape (P0)."""
    fl = repo.module("functions_loader.py")
    fn = find_function(fl, "_vectorize_func", "primary anchor")
    param = fn.args.args[0].arg if fn.args.args else None
    vec_calls = [
        n for n in ast.walk(fn)
        if isinstance(n, ast.Call) and ast.unparse(n.func) in ("numpy.vectorize", "np.vectorize")
    ]
    problems = []
    if len(vec_calls) != 1:
        raise AnalysisError("_vectorize_func no longer contains exactly one numpy.vectorize call - re-read needed")
    vc = vec_calls[0]
    if not (vc.args and isinstance(vc.args[0], ast.Name) and vc.args[0].id == param):
        problems.append(("P0-wrapped-object", fl.loc(vc), "numpy.vectorize is not applied to the function handed in"))
    mode = "first-row"
    for kw in vc.keywords:
        if kw.arg == "otypes" and not (isinstance(kw.value, ast.Constant) and kw.value.value is None):
            mode = "declared"
    # the raw function may be returned only under the skip_vectorization test
    from staticlib.guards import Dominance

    dom = Dominance(fn)

    def mentions_flag(test):
        """the test reads skip_vectorization itself or through a module-level predicate that does"""
        if "skip_vectorization" in ast.unparse(test):
            return True
        for c in ast.walk(test):
            if isinstance(c, ast.Call) and isinstance(c.func, ast.Name) and c.func.id in fl.functions and "skip_vectorization" in ast.unparse(fl.functions[c.func.id]):
                return True
        return False

    for n in walk_own(fn):
        if isinstance(n, ast.Return) and isinstance(n.value, ast.Name) and n.value.id == param:
            guarded = any(pol and mentions_flag(t) for t, pol in dom.of(n))
            if not guarded:
                problems.append(("P0-unwrapped-return", fl.loc(n), "the unvectorised function is returned outside the skip_vectorization test"))
    # every loaded function passes through _vectorize_func
    lc = find_function(fl, "load_and_check_functions", "primary anchor")
    applied = None
    for n in walk_own(lc):
        if isinstance(n, ast.Assign) and isinstance(n.targets[0], ast.Name):
            calls = [c for c in ast.walk(n.value) if isinstance(c, ast.Call) and isinstance(c.func, ast.Name) and c.func.id == "_vectorize_func"]
            if calls and isinstance(n.value, (ast.DictComp, ast.Dict, ast.Call)):
                applied = n.targets[0].id
                comp = n.value
                if isinstance(comp, ast.DictComp) and comp.generators[0].ifs:
                    problems.append(("P0-all-functions", fl.loc(n), "only a filtered subset of the functions is vectorised"))
                if isinstance(comp, ast.DictComp) and not (
                    isinstance(comp.value, ast.Call) and isinstance(comp.value.func, ast.Name) and comp.value.func.id == "_vectorize_func"
                ):
                    problems.append(("P0-all-functions", fl.loc(n), f"functions are vectorised only conditionally: `{ast.unparse(comp.value)}`"))
    if applied is None:
        # loop form: `for name, f in functions.items(): out[name] = _vectorize_func(f)`
        ldom = Dominance(lc)
        for loop in walk_own(lc):
            if not isinstance(loop, ast.For):
                continue
            for n in ast.walk(loop):
                if isinstance(n, ast.Assign) and isinstance(n.targets[0], ast.Subscript) and isinstance(n.targets[0].value, ast.Name) and isinstance(n.value, ast.Call) and isinstance(n.value.func, ast.Name) and n.value.func.id == "_vectorize_func":
                    applied = n.targets[0].value.id
                    extra = [c for c in ldom.of(n) if c not in ldom.of(loop)]
                    if extra:
                        problems.append(("P0-all-functions", fl.loc(n), f"functions are vectorised only conditionally: under `{ast.unparse(extra[0][0])}`"))
    if applied is None:
        problems.append(("P0-all-functions", fl.loc(lc), "load_and_check_functions no longer maps _vectorize_func over the loaded functions"))
    else:
        # the merged dict of all functions must use the vectorised mapping, not the raw one
        merged = [n for n in walk_own(lc) if isinstance(n, ast.Dict) and any(k is None for k in n.keys) and len(n.values) >= 4]
        if merged and not any(isinstance(v, ast.Name) and v.id == applied for m in merged for v in m.values):
            problems.append(("P0-all-functions", fl.loc(merged[0]), f"the merged function dict does not use {applied}"))
    return mode, problems, fl.loc(vc)


class KindRun:
    """per rule: offending returns aggregated over all analysed dates"""

    def __init__(self, ctx):
        self.ctx = ctx
        s = get_session(ctx.root)
        self.s = s
        self.dates = interval_dates(s, ctx.tier)
        self.res = analyse_dates(ctx.root, self.dates)
        self.rules_seen = collections.defaultdict(list)  # qual -> dates analysed
        self.noverdict = collections.defaultdict(set)  # qual -> reasons
        self.offending = collections.defaultdict(lambda: collections.defaultdict(set))  # qual -> descriptor -> dates
        self.kindsets = collections.defaultdict(lambda: collections.defaultdict(set))  # qual -> tuple kinds -> dates
        self.crashes = []
        for d in self.dates:
            for q, sm in self.res[d].items():
                if sm[0] != "ok":
                    self.crashes.append((d, q, sm[1]))
                    continue
                _, ks, rets, evs, unhandled, notes = sm
                r = s.repo.rules_by_qual[q]
                self.rules_seen[q].append(d)
                bad_ev = {e[0] for e in evs if e[0] in ("param-missing", "unknown-call", "unknown-name", "unhandled-stmt", "depth-bound", "global-nonliteral", "helper-arg-missing")}
                allk = set()
                for rk, _, _ in rets:
                    allk |= set(rk)
                if not rets:
                    self.noverdict[q].add("no return path (the rule always raises)")
                    continue
                if unhandled or not allk <= {"bool", "int", "float"}:
                    self.noverdict[q].add(", ".join(sorted(bad_ev | set(unhandled))) or "non-numeric kind " + "/".join(sorted(allk)))
                    continue
                self.kindsets[q][tuple(sorted(allk))].add(d)
                for rk, guards, ln in rets:
                    if set(rk) != {r.ret}:
                        txt = _ret_text(r, ln)
                        self.offending[q][f"{txt} -> {'/'.join(rk)}"].add(d)

    def span(self, dates):
        ds = sorted(dates)
        return f"{ds[0]}..{ds[-1]} ({len(ds)} interval samples)"


def _ret_text(rule, lineno):
    for n in ast.walk(rule.node):
        if isinstance(n, ast.Return) and n.lineno == lineno:
            return "return " + (ast.unparse(n.value) if n.value is not None else "")
    # return inside an inlined helper
    return f"return in helper (line {lineno})"


def file_kind_findings(ctx, kr, rule_id, select, text):
    """select(rule, union_kinds, mixed) -> bool decides whether the rule violates `rule_id`"""
    ctx.rule(rule_id, text)
    for q in sorted(kr.rules_seen):
        r = kr.s.repo.rules_by_qual[q]
        if q in kr.noverdict and q not in kr.kindsets:
            ctx.skip(rule_id, q, "no verdict: " + "; ".join(sorted(kr.noverdict[q])))
            continue
        union = set()
        mixed_dates = set()
        for ks, ds in kr.kindsets[q].items():
            union |= set(ks)
            if len(ks) > 1:
                mixed_dates |= ds
        bad = select(r, union, bool(mixed_dates), kr.kindsets[q])
        ctx.ob(rule_id, ok=not bad, distinct=q)
        if bad:
            descr = sorted(kr.offending[q])
            alld = set().union(*kr.offending[q].values()) if kr.offending[q] else set(kr.rules_seen[q])
            # keyed by rule, declared type and the kinds that can come out - not by the spelling of the return statements
            key = f"{q}|{r.ret}|" + "/".join(sorted(union))
            ctx.violation(
                rule_id, key, r.where,
                f"declared -> {r.ret}, but return kinds are {sorted(union)}: {descr[:3]} during {kr.span(alld)}",
                offending=descr,
            )
        elif len(ctx.samples) < 6:
            ctx.sample({"rule": rule_id, "function": q, "declared": r.ret, "return_kinds": sorted(union), "dates": len(kr.rules_seen[q])})


def input_type_gate(ctx, repo, rid="T0"):
    """T0: the `has expected type` predicate pairs every internal type with its own dtype class only - decided
    on the full (declared type x column dtype class) table of the predicate expression."""
    import itertools

    from staticlib.ordersem import NotExpressible, function_as_expression

    ctx.rule(rid, "an input column is taken as is only when its dtype class equals the declared type (float/int/bool/date); every other combination goes through the conversion (which converts losslessly or raises)")
    ty = repo.module("gettsim_typing.py")
    fn = find_function(ty, "check_series_has_expected_type", "anchor: the gate in front of the input conversion")
    params = [a.arg for a in fn.args.args]
    if len(params) != 2:
        raise AnalysisError("check_series_has_expected_type no longer takes (series, internal_type)")
    ser, it = params
    try:
        expr = function_as_expression(fn, consts=ty.assigns)
    except NotExpressible as e:
        raise AnalysisError(f"check_series_has_expected_type is not an expression over dtype tests ({e}); {rid} needs a re-read") from e
    TYPES = {"float": "float", "int": "int", "bool": "bool", "numpy.datetime64": "date", "np.datetime64": "date", "datetime64": "date"}
    DT = {"is_float_dtype": "float", "is_integer_dtype": "int", "is_bool_dtype": "bool", "is_datetime64_any_dtype": "date", "is_datetime64_dtype": "date", "is_numeric_dtype": "numeric"}

    def ev(e, t, d):
        if isinstance(e, ast.Constant):
            return e.value
        if isinstance(e, ast.IfExp):
            return ev(e.body, t, d) if ev(e.test, t, d) else ev(e.orelse, t, d)
        if isinstance(e, ast.BoolOp):
            vals = [ev(v, t, d) for v in e.values]
            return all(vals) if isinstance(e.op, ast.And) else any(vals)
        if isinstance(e, ast.BinOp) and isinstance(e.op, (ast.BitAnd, ast.BitOr)):
            a, b = ev(e.left, t, d), ev(e.right, t, d)
            return (a and b) if isinstance(e.op, ast.BitAnd) else (a or b)
        if isinstance(e, ast.UnaryOp) and isinstance(e.op, (ast.Not, ast.Invert)):
            return not ev(e.operand, t, d)
        if isinstance(e, ast.Compare) and len(e.ops) == 1 and isinstance(e.ops[0], (ast.Eq, ast.Is, ast.NotEq, ast.IsNot, ast.In)):
            l, r = e.left, e.comparators[0]
            if isinstance(r, ast.Name) and r.id == it:
                l, r = r, l
            if isinstance(l, ast.Name) and l.id == it:
                if isinstance(e.ops[0], ast.In) and isinstance(r, (ast.Tuple, ast.List, ast.Set)):
                    return t in [TYPES.get(ast.unparse(x)) for x in r.elts]
                tt = TYPES.get(ast.unparse(r))
                if tt is None:
                    raise ValueError(f"unknown type literal {ast.unparse(r)}")
                return (t == tt) == isinstance(e.ops[0], (ast.Eq, ast.Is))
        if isinstance(e, ast.Call):
            fname = ast.unparse(e.func).split(".")[-1]
            if fname in DT and e.args and isinstance(e.args[0], ast.Name) and e.args[0].id == ser:
                c = DT[fname]
                return d in ("float", "int", "bool") if c == "numeric" else d == c
            if fname == "bool" and len(e.args) == 1:
                return bool(ev(e.args[0], t, d))
        raise ValueError(f"construct `{ast.unparse(e)[:60]}` outside the dtype-test language")

    bad = []
    n = 0
    try:
        for t, d in itertools.product(["float", "int", "bool", "date"], ["float", "int", "bool", "date", "object"]):
            n += 1
            got = bool(ev(expr, t, d))
            if got != (t == d):
                bad.append((t, d, got))
    except ValueError as e:
        raise AnalysisError(f"check_series_has_expected_type: {e}; {rid} needs a re-read") from e
    ctx.ob(rid, ok=not bad, distinct="gate", n=n)
    for t, d, got in bad:
        ctx.violation(rid, f"gate|declared {t}|dtype {d}", ty.loc(fn) + " check_series_has_expected_type",
                      f"a column declared {t} with dtype class {d} is {'accepted without conversion' if got else 'sent to conversion although it already has the declared type'}: " + ("the rules then receive values of another kind than declared (mixed int/float results, truncation by the first-row dtype)" if got else "needless conversion"))
