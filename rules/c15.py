"""C15 - group-level columns have one value per group.

Level typing (L) on the static DAG of every interval: Const(n) = set of groupings within which
node n is provably constant.  Obligation for every reachable scalar rule whose column name carries
a group suffix g: g is in the intersection of Const over its non-parameter arguments."""
from __future__ import annotations

import datetime

from staticlib.common import AnalysisError
from staticlib.session import get_session

# documented nesting (child -> parents), one line of reason each
NESTED_IN = {
    "bg": ["fg", "wthh"],  # GEP-1: Bedarfsgemeinschaft is a subset of the Familiengemeinschaft; the Wohngeld split flag is bg-level (C17/X3)
    "fg": ["hh"],          # GEP-1 / hh_concepts: Familiengemeinschaft is a subset of the household
    "wthh": ["hh"],        # wthh_id = hh_id * 100 + flag
    "sn": ["ehe"],         # joint filers are spouses
    "eg": ["fg"],          # a partner is put into the person's Familiengemeinschaft by construction (fg_id_numpy)
}


def down(g, groupings):
    """g and every grouping nested in it"""
    out = {g}
    changed = True
    while changed:
        changed = False
        for c, ps in NESTED_IN.items():
            if c in groupings and c not in out and any(p in out for p in ps):
                out.add(c)
                changed = True
    return frozenset(out)


class Levels:
    def __init__(self, repo, dag):
        self.repo, self.dag = repo, dag
        self.G = repo.groupings
        self.all = frozenset(self.G)
        self.memo = {}

    def const(self, n, stack=()):
        if n in self.memo:
            return self.memo[n]
        if n in stack:
            return frozenset()
        node = self.dag.nodes.get(n)
        r = frozenset()
        if node is None:
            # data column / unknown
            if n.endswith("_id") and n[:-3] in self.G:
                r = down(n[:-3], self.G)
            else:
                g = self.repo.group_suffix(n)
                r = down(g, self.G) if g else frozenset()
        elif node.kind == "grouping":
            r = down(n[:-3], self.G) if n.endswith("_id") and n[:-3] in self.G else frozenset()
        elif node.kind == "grp_agg":
            g = self.repo.group_suffix(n)
            r = down(g, self.G) if g else frozenset()
        elif node.kind == "pid_agg":
            r = frozenset()
        elif node.kind == "time":
            r = self.const(node.args[0], (*stack, n))
        elif node.kind == "rule":
            rule = node.rule
            args = [a for a in node.args if not a.endswith("_params")]
            if not args:
                r = self.all
            elif rule.skip_vec:
                r = frozenset()
            else:
                r = self.all
                for a in args:
                    r = r & self.const(a, (*stack, n))
            # assume-guarantee: a rule named <x>_<g> is taken to be g-constant by its consumers; its own
            # obligation is checked where it is defined, so only root causes are reported
            g = self.repo.group_suffix(n)
            if g:
                r = r | down(g, self.G)
        self.memo[n] = r
        return r


def check(ctx):
    s = get_session(ctx.root)
    repo = s.repo
    if set(NESTED_IN) - set(repo.groupings) or any(p not in repo.groupings for ps in NESTED_IN.values() for p in ps):
        raise AnalysisError("SUPPORTED_GROUPINGS no longer contains the units of the documented nesting table; re-read needed")
    ctx.assumptions += [
        "nesting assumed (documented): bg within fg within hh; wthh within hh; bg within wthh; sn within ehe; eg within fg - nothing else (GEP-2: groups are not nested in general)",
        "input columns with a group suffix are constant within that group (enforced for exogenous groups by the interface)",
    ]
    from .c01 import group_id_arithmetic, index_spaces

    group_id_arithmetic(ctx, repo, "L-id")
    index_spaces(ctx, repo, "IX")
    ctx.rule("L", "every reachable scalar rule named <x>_<g> consumes only columns provably constant within g (group aggregates to g or an enclosing unit, g-level inputs, parameter-only rules, rules that are themselves g-constant)")
    iv = s.em.intervals(datetime.date(1980, 1, 1))
    dates = sorted({f for f, _ in iv} | ({l for _, l in iv} if ctx.tier == "thorough" else set()))
    nrules = 0
    for d in dates:
        dag = s.dag(d)
        lv = Levels(repo, dag)
        order = [n for n, v in dag.nodes.items() if v.kind == "rule"]  # every rule, reachable or not
        for n in order:
            node = dag.nodes.get(n)
            if node is None or node.kind != "rule" or node.rule.skip_vec:
                continue
            g = repo.group_suffix(n)
            if not g:
                continue
            args = [a for a in node.args if not a.endswith("_params")]
            bad = [(a, sorted(lv.const(a))) for a in args if g not in lv.const(a)]
            nrules += 1
            ctx.ob("L", ok=not bad, distinct=(node.rule.qual, n))
            for a, lvl in bad:
                what = _describe(dag, a)
                ctx.violation("L", f"{node.rule.qual}|{n}|{a}", node.rule.where,
                              f"{n} is a {g}-level column but its argument {a} ({what}) is only known constant within {lvl or 'nothing (individual level)'}; members of one {g} can get different values (first seen at {d})")
            if not bad and len(ctx.samples) < 6:
                ctx.sample({"rule": n, "level": g, "args": {a: sorted(lv.const(a)) for a in args}, "date": str(d)})
    ctx.extra_cov["intervals"] = len(dates)
    ctx.floor("L", 3000)
    # the assumption "g-level inputs are constant within g" rests on the interface's input check being exact
    from .c20 import exact_comparisons

    itf = repo.module("interface.py")
    exact_comparisons(ctx, repo, itf, rid="L-in")
    fd = itf.functions.get("_fail_if_group_variables_not_constant_within_groups")
    if fd is None:
        raise AnalysisError("_fail_if_group_variables_not_constant_within_groups vanished")
    import ast as _ast

    loops = [n for n in _ast.walk(fd) if isinstance(n, _ast.For)]
    ok = any("SUPPORTED_GROUPINGS" in _ast.unparse(n) for n in _ast.walk(fd)) and any(isinstance(n, _ast.Raise) for n in _ast.walk(fd)) and len(loops) >= 2
    ctx.ob("L-in", ok=ok, distinct="all-levels")
    if not ok:
        ctx.violation("L-in", "input-check-levels", itf.loc(fd), "the input check no longer covers every column of every grouping level present in the data")


def _describe(dag, a):
    node = dag.nodes.get(a)
    if node is None:
        return "input column" if a in dag.data else "missing column"
    return {"rule": "rule", "grp_agg": "group aggregate", "pid_agg": "pointer aggregate", "time": "time conversion", "grouping": "group id"}[node.kind]
