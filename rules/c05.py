"""C05 - supplying a computed column as data is equivalent to computing it (partial).

A1 every overridable node has a declared type the converter accepts (annotations are real types).
T2-lossless no rule can return a kind wider than its declared type (otherwise feeding the computed
   column back makes the lossless-conversion check raise).
M  the function dictionaries are merged pointer aggregates < time conversions < rules < group
   aggregates < groupings, and a node is overridden iff its name is a data column; derived
   time-unit nodes are never created for names present in the data.
F-warn every path on which a data column overrides a function announces it with the overlap warning."""
from __future__ import annotations

import ast

from staticlib.common import AnalysisError
from staticlib.session import get_session
from staticlib.srcmodel import find_function, walk_own

from ._typing import WIDTH, KindRun, file_kind_findings

SUPPORTED = {"float", "int", "bool", "numpy.datetime64", "np.datetime64"}


def check(ctx):
    s = get_session(ctx.root)
    repo = s.repo
    ctx.assumptions += ["equality of the second run's numbers with the first run's is not decided"]
    annotations(ctx, s)
    kr = KindRun(ctx)
    # bool <- int is exempt: `n and cond` returns the int 0, which the converter accepts as False
    file_kind_findings(ctx, kr, "T2-lossless", lambda r, union, mixed, ks: "float" in union and r.ret in ("int", "bool"),
                       "no rule declared int or bool can return a float (e.g. an int rule returning 2.5): the converter only accepts a supplied column that fits the declared type without loss, so the system's own output would be rejected (assumes a float-kinded result is not always integral)")
    ctx.floor("T2-lossless", 250)
    # bool <- int is exempt above only because `n and cond` yields the int 0; an int in *value position*
    # (`cond and n`, `n or cond`) hands the count itself to a column declared bool
    ctx.rule("T2-bool", "a rule declared bool has no and/or whose value-position operand (last of `and`, any of `or`) can be a number: the column would carry a count, which the converter rejects when it is fed back")
    seen = set()
    nbool = 0
    for d in kr.dates:
        for q, sm in kr.res[d].items():
            if sm[0] != "ok":
                continue
            r = repo.rules_by_qual.get(q)
            if r is None or r.ret != "bool":
                continue
            nbool += 1
            for e in sm[3]:
                if e[0] == "boolop-nonbool" and (q, e[3]) not in seen and {"int", "float"} & set(e[4] if isinstance(e[4], (list, tuple, set)) else [e[4]]):
                    seen.add((q, e[3]))
                    ctx.ob("T2-bool", ok=False, distinct=(q, e[3]))
                    ctx.violation("T2-bool", f"{q}|{e[3]}", f"src/_gettsim/{e[2]}:{e[1]} {r.name}", f"`{e[3]}` can evaluate to {e[4]} in a rule declared bool: with two or more (e.g. entitled children) the column holds 2, 3, ... and supplying the computed column again fails with 'Conversion from input type int64 to bool failed'")
    ctx.ob("T2-bool", ok=True, distinct="bool rules examined", n=max(nbool, 1))
    merge_and_split(ctx, repo)
    warn(ctx, repo)
    no_direct_node_calls(ctx, s)
    aggregates_built_for_supplied_names(ctx, repo)
    from ._wholecol import kernel_hygiene, whole_column_functions
    from .c20 import group_suffix_test

    group_suffix_test(ctx, repo.module("interface.py"), "F8")
    ctx.rule("W10", "a whole-column function never stores into one of its argument arrays (a supplied column arrives as the caller's, possibly read-only, array)")
    for mod_, fd_, kind_ in whole_column_functions(repo):
        fs_ = [f for f in kernel_hygiene(mod_, fd_, kind_) if f[0] == "W10"]
        ctx.ob("W10", ok=not fs_, distinct=(mod_.rel, fd_.name))
        for rid_, key_, ln_, msg_ in fs_:
            ctx.violation(rid_, f"{mod_.rel}:{fd_.name}|{key_}", f"src/_gettsim/{mod_.rel}:{ln_} {fd_.name}", msg_)
    from .c11 import return_annotation_sites

    ctx.rule("A3", "the declared type of a group / pointer aggregate - the type a supplied column of that name is converted to - comes from the result-type rule in every branch of _annotations_for_aggregation")
    return_annotation_sites(ctx, repo, "A3")
    # a supplied column is used positionally, like every other column
    from ._wholecol import label_alignment

    ctx.rule("W4", "no label-aligning pandas operation on the data/result path of the interface: a supplied column is matched to persons by position, as computed columns are")
    fs = list(label_alignment(repo.module("interface.py")))
    ctx.ob("W4", ok=not fs, distinct="interface", n=4)
    for rid, key, ln, msg in fs:
        ctx.violation(rid, key, f"src/_gettsim/interface.py:{ln}", msg)


def annotations(ctx, s):
    repo = s.repo
    ctx.rule("A1", "the type the converter looks up for an overriding column is supported: scalar rules declare float/int/bool/numpy.datetime64, whole-column rules and group ids numpy.ndarray[<one of them>]; the defining module does not postpone annotations")
    itf = repo.module("interface.py")
    conv = find_function(itf, "_convert_data_to_correct_types", "primary anchor")
    from staticlib.guards import scope_functions

    cscope = scope_functions(itf, conv)
    uses_ann = any(isinstance(n, ast.Subscript) and isinstance(n.slice, ast.Constant) and n.slice.value == "return" and "__annotations__" in ast.unparse(n.value) for f_ in cscope for n in ast.walk(f_))
    uses_args = any(isinstance(n, ast.Subscript) and isinstance(n.value, ast.Call) and ast.unparse(n.value.func) in ("get_args", "typing.get_args") and ast.unparse(n.slice) == "0" for f_ in cscope for n in ast.walk(f_))
    if not (uses_ann and uses_args):
        raise AnalysisError("_convert_data_to_correct_types no longer reads the return annotation (directly, or its first type argument) the modelled way; A1 needs a re-read")
    gt = repo.module("gettsim_typing.py")
    gscope = scope_functions(gt, find_function(gt, "convert_series_to_internal_type", "primary anchor"))
    gtxt = "\n".join(ast.unparse(f_) for f_ in gscope)
    sup = {t for t in ("float", "int", "bool", "datetime64") if f"internal_type == {t}" in gtxt or f"internal_type == np.{t}" in gtxt or f"internal_type == numpy.{t}" in gtxt}
    if sup != {"float", "int", "bool", "datetime64"}:
        raise AnalysisError(f"converter now supports {sorted(sup)}; A1's table of supported types needs a re-read")
    for m in repo.policy_modules:
        ctx.ob("A1", ok=not m.future_annotations, distinct=("future", m.rel))
        if m.future_annotations:
            ctx.violation("A1", f"{m.rel}|future-annotations", f"src/_gettsim/{m.rel}:1", "`from __future__ import annotations` turns the return annotations of this module's rules into strings: every column overriding one of them makes the type conversion fail")
    for r in repo.rules:
        if r.qual in s.helper_quals and any((ann or "").startswith("dict") and not a.endswith("_params") for a, ann in r.args):
            continue
        if r.ret is None or r.ret == "None" or r.ret.startswith("dict"):
            if r.qual in s.helper_quals or r.name.startswith("_add_"):
                continue
            ctx.info(f"{r.qual}: no column type declared ({r.ret}); not overridable with conversion")
            continue
        if r.skip_vec:
            ok = any(r.ret == f"{p}.ndarray[{t}]" for p in ("numpy", "np") for t in ("float", "int", "bool", "numpy.datetime64"))
        else:
            ok = r.ret in SUPPORTED
        ctx.ob("A1", ok=ok, distinct=r.qual)
        if not ok:
            ctx.violation("A1", f"{r.qual}|{r.ret}", r.where, f"return annotation `{r.ret}` of {'whole-column ' if r.skip_vec else ''}rule {r.name} is not a type the converter supports: a data column overriding {r.dag_name} is rejected (or mis-converted)")
    for name, (fname, fd) in repo.grouping_funcs.items():
        ret = ast.unparse(fd.returns) if fd.returns is not None else None
        ok = ret in ("numpy.ndarray[int]", "np.ndarray[int]")
        ctx.ob("A1", ok=ok, distinct=fname)
        if not ok:
            ctx.violation("A1", f"groupings.py:{fname}|{ret}", f"src/_gettsim/groupings.py:{fd.lineno} {fname}", f"group-id function {fname} is annotated `{ret}`; the converter expects numpy.ndarray[int]")
    g = repo.module("groupings.py")
    if g.future_annotations:
        ctx.violation("A1", "groupings.py|future-annotations", "src/_gettsim/groupings.py:1", "postponed annotations in groupings.py break overriding of group ids")
    ctx.floor("A1", 350)


def merge_and_split(ctx, repo):
    ctx.rule("M", "all_functions = {**pointer aggregates, **time conversions, **rules, **group aggregates, **groupings}; a node is overridden iff its name is in data_cols; time conversions are not created for names present in the data")
    fl = repo.module("functions_loader.py")
    fn = find_function(fl, "load_and_check_functions", "primary anchor")
    merged = [n for n in walk_own(fn) if isinstance(n, ast.Dict) and n.keys and all(k is None for k in n.keys) and len(n.values) >= 4]
    ops = None
    if len(merged) == 1:
        ops = [ast.unparse(v) for v in merged[0].values]
    else:
        # a | b | c | d | e
        def flat(e):
            if isinstance(e, ast.BinOp) and isinstance(e.op, ast.BitOr):
                return flat(e.left) + flat(e.right)
            return [e]

        chains = [flat(n.value) for n in walk_own(fn) if isinstance(n, ast.Assign) and isinstance(n.value, ast.BinOp) and isinstance(n.value.op, ast.BitOr)]
        chains = [c for c in chains if len(c) >= 4 and all(isinstance(x, ast.Name) for x in c)]
        if len(chains) == 1:
            ops = [x.id for x in chains[0]]
            merged = [next(n for n in walk_own(fn) if isinstance(n, ast.Assign) and isinstance(n.value, ast.BinOp) and flat(n.value) == chains[0])]
    if ops is None:
        raise AnalysisError("load_and_check_functions: the merge of all functions (dict display or | chain) not recognised (also a model-drift for the static DAG)")
    # classify operands by how they were produced
    roles = {}
    for n in walk_own(fn):
        if isinstance(n, ast.Assign):
            t = n.targets[0]
            v = n.value
            if isinstance(t, ast.Tuple) and isinstance(v, ast.Call) and ast.unparse(v.func) == "_create_derived_functions":
                dd = find_function(fl, "_create_derived_functions", "anchor")
                ret = [x for x in walk_own(dd) if isinstance(x, ast.Return)][0].value
                srcs = {}
                for x in walk_own(dd):
                    if isinstance(x, ast.Assign) and isinstance(x.targets[0], ast.Name) and isinstance(x.value, ast.Call):
                        srcs[x.targets[0].id] = ast.unparse(x.value.func)
                for tt, rr in zip(t.elts, ret.elts):
                    f = srcs.get(ast.unparse(rr), "")
                    roles[tt.id] = {"create_time_conversion_functions": "time", "_create_aggregate_by_group_functions": "grp", "_create_aggregate_by_p_id_functions": "pid"}.get(f, f)
            elif isinstance(t, ast.Name) and isinstance(v, ast.DictComp) and "_vectorize_func" in ast.unparse(v):
                roles[t.id] = "rules"
            elif isinstance(t, ast.Name) and isinstance(v, ast.Call) and ast.unparse(v.func) == "create_groupings":
                roles[t.id] = "groupings"
    for n in walk_own(fn):
        # loop form of the vectorisation step: `out[name] = _vectorize_func(f)`
        if isinstance(n, ast.Assign) and isinstance(n.targets[0], ast.Subscript) and isinstance(n.targets[0].value, ast.Name) and isinstance(n.value, ast.Call) and ast.unparse(n.value.func) == "_vectorize_func":
            roles.setdefault(n.targets[0].value.id, "rules")
    order = [roles.get(o, "?") for o in ops]
    want = ["pid", "time", "rules", "grp", "groupings"]
    ok = order == want
    ctx.ob("M", ok=ok, distinct="merge-order", n=5)
    ctx.sample({"merge_order": order})
    if not ok:
        ctx.violation("M", "merge-order|" + "<".join(order), fl.loc(merged[0]), f"functions are merged in the order {order} (later wins); documented/modelled order is {want}: e.g. a derived time-unit node could replace a real rule of the same name, or a data column of another unit silently replace a rule")
    # split by data_cols: (not overridden, overridden) returned; each populated exactly by `name (not) in data_cols`
    from staticlib.guards import Dominance, atoms_and_eval, scope_functions

    def pair_return(f):
        r = [n for n in walk_own(f) if isinstance(n, ast.Return) and isinstance(n.value, ast.Tuple) and len(n.value.elts) == 2 and all(isinstance(e, ast.Name) for e in n.value.elts)]
        return r[0] if len(r) == 1 else None

    splitter, container = None, "data_cols"
    ret = pair_return(fn)
    if ret is not None and any(isinstance(n, ast.Compare) and any(isinstance(o, (ast.In, ast.NotIn)) for o in n.ops) and ast.unparse(n.comparators[0]) == "data_cols" for n in ast.walk(fn)):
        splitter = fn
    else:
        # the pair comes from a helper: `return helper(all_functions, data_cols)`
        for f_ in scope_functions(fl, fn):
            if f_ is fn or pair_return(f_) is None:
                continue
            calls = [n for n in ast.walk(fn) if isinstance(n, ast.Call) and isinstance(n.func, ast.Name) and n.func.id == f_.name]
            if len(calls) == 1:
                hp = [a.arg for a in f_.args.args]
                bound = dict(zip(hp, [ast.unparse(a) for a in calls[0].args]))
                bound.update({kw.arg: ast.unparse(kw.value) for kw in calls[0].keywords})
                inv = [p_ for p_, v in bound.items() if v == "data_cols"]
                if len(inv) == 1:
                    splitter, container, ret = f_, inv[0], pair_return(f_)
    if splitter is None:
        raise AnalysisError("load_and_check_functions: the split into (not overridden, overridden) is not recognised; M needs a re-read")
    dom = Dominance(splitter)
    not_ov, ov = [e.id for e in ret.value.elts]

    def member_atom(node):
        if isinstance(node, ast.Compare) and len(node.ops) == 1 and isinstance(node.ops[0], ast.In) and ast.unparse(node.comparators[0]) in (container, "data_cols"):
            return "IN_DATA"
        return None

    def population(var):
        """list of condition lists under which an entry is put into `var`"""
        out = []
        for n in walk_own(splitter):
            if isinstance(n, ast.Assign) and isinstance(n.targets[0], ast.Name) and n.targets[0].id == var and isinstance(n.value, ast.DictComp):
                out.append([(c, True) for g_ in n.value.generators for c in g_.ifs])
            if isinstance(n, ast.Assign) and isinstance(n.targets[0], ast.Subscript) and isinstance(n.targets[0].value, ast.Name) and n.targets[0].value.id == var:
                out.append(dom.of(n))
            # `target = A if c else B; target[name] = f`: the store reaches A under c and B under not c
            if isinstance(n, ast.Assign) and isinstance(n.targets[0], ast.Subscript) and isinstance(n.targets[0].value, ast.Name) and n.targets[0].value.id != var:
                alias = n.targets[0].value.id
                defs_ = [a for a in walk_own(splitter) if isinstance(a, ast.Assign) and len(a.targets) == 1 and isinstance(a.targets[0], ast.Name) and a.targets[0].id == alias]
                if len(defs_) == 1 and isinstance(defs_[0].value, ast.IfExp) and isinstance(defs_[0].value.body, ast.Name) and isinstance(defs_[0].value.orelse, ast.Name):
                    ie = defs_[0].value
                    if ie.body.id == var:
                        out.append([*dom.of(n), (ie.test, True)])
                    if ie.orelse.id == var:
                        out.append([*dom.of(n), (ie.test, False)])
        return out

    oksplit = True
    detail = ""
    for var, want_in in ((ov, True), (not_ov, False)):
        pops = population(var)
        if not pops:
            raise AnalysisError(f"load_and_check_functions: how `{var}` is populated is not recognised; M (split) needs a re-read")
        for conds in pops:
            names, conj = atoms_and_eval(conds, member_atom)
            if names != ["IN_DATA"]:
                oksplit = False
                detail = f"`{var}` is populated under conditions other than membership in data_cols ({names})"
                continue
            for v in (False, True):
                if conj({"IN_DATA": v}) != (v == want_in):
                    oksplit = False
                    detail = f"`{var}` receives a function whose name is {'in' if v else 'not in'} data_cols"
    ctx.ob("M", ok=oksplit, distinct="split")
    if not oksplit:
        ctx.violation("M", "split", fl.loc(splitter), "the split into overridden / not overridden functions is no longer exactly `name in data_cols`: " + detail)
    # derived time-unit nodes are never created for names present in the data
    tc = repo.module("time_conversion.py")
    ct = find_function(tc, "create_time_conversion_functions", "primary anchor")
    domt = Dominance(ct)
    rett = [n for n in walk_own(ct) if isinstance(n, ast.Return)]
    resvars = {x.id for r_ in rett for x in ast.walk(r_.value) if isinstance(x, ast.Name)} if rett else set()
    # locals merged into the result
    for _ in range(2):
        for n in walk_own(ct):
            if isinstance(n, ast.Assign) and isinstance(n.targets[0], ast.Name) and n.targets[0].id in resvars:
                resvars |= {x.id for x in ast.walk(n.value) if isinstance(x, ast.Name) and isinstance(ct, ast.FunctionDef)}
    sites = []
    for n in ast.walk(ct):
        if isinstance(n, ast.DictComp) and any("_create_time_conversion_functions" in ast.unparse(g_.iter) for g_ in n.generators):
            sites.append(domt.of(n) + [(c, True) for g_ in n.generators for c in g_.ifs])
        if isinstance(n, ast.Assign) and isinstance(n.targets[0], ast.Subscript) and isinstance(n.targets[0].value, ast.Name) and n.targets[0].value.id in resvars:
            sites.append(domt.of(n))
    if not sites:
        raise AnalysisError("create_time_conversion_functions: insertion sites of derived nodes not recognised; M needs a re-read")
    bad_sites = 0
    for conds in sites:
        names, conj = atoms_and_eval(conds, member_atom)
        import itertools as _it

        for vals in _it.product([False, True], repeat=len(names)):
            env = dict(zip(names, vals))
            if env.get("IN_DATA") and conj(env):
                bad_sites += 1
                break
        if "IN_DATA" not in names:
            bad_sites += 1
    ctx.ob("M", ok=bad_sites == 0, distinct="no-derived-for-data", n=len(sites))
    if bad_sites:
        ctx.violation("M", "derived-over-data", tc.loc(ct), f"{bad_sites} of {len(sites)} insertion sites create a derived time-unit node without excluding names present in the data: a supplied column could be shadowed by a derived node")


def warn(ctx, repo):
    ctx.rule("F-warn", "in compute_taxes_and_transfers (or a helper it calls unconditionally) a non-empty set of overriding columns always reaches warnings.warn(FunctionsAndColumnsOverlapWarning(...)), under no other condition")
    from staticlib.guards import Dominance, eval_sized, scope_functions

    itf = repo.module("interface.py")
    cte = find_function(itf, "compute_taxes_and_transfers", "primary anchor")
    derived = {"functions_overridden"}
    for _ in range(3):
        for n in walk_own(cte):
            if isinstance(n, ast.Assign) and isinstance(n.targets[0], ast.Name) and any(isinstance(x, ast.Name) and x.id in derived for x in ast.walk(n.value)):
                derived.add(n.targets[0].id)
    domc = Dominance(cte)

    def site_ok(f, call, names, dom):
        """the warn call in f is reached whenever the containers in `names` have one element, and depends on nothing else"""
        for t, pol in dom.of(call):
            mentions = {x.id for x in ast.walk(t) if isinstance(x, ast.Name)} & names
            if not mentions:
                return False, f"it also depends on `{ast.unparse(t)[:50]}`"
            h = eval_sized(t, {nm: 1 for nm in names})
            if h is None:
                return False, f"its guard `{ast.unparse(t)[:50]}` is not a test on the overriding columns only"
            if h != pol:
                return False, f"its guard `{ast.unparse(t)[:50]}` is false for one overriding column"
        return True, ""

    found, why = False, "no warnings.warn(FunctionsAndColumnsOverlapWarning(...)) found"
    for f_ in scope_functions(itf, cte):
        for n in ast.walk(f_):
            if isinstance(n, ast.Call) and ast.unparse(n.func) == "warnings.warn" and n.args and "FunctionsAndColumnsOverlapWarning" in ast.unparse(n.args[0]):
                if f_ is cte:
                    ok, why = site_ok(cte, n, derived, domc)
                    found = found or ok
                else:
                    calls = [c for c in ast.walk(cte) if isinstance(c, ast.Call) and isinstance(c.func, ast.Name) and c.func.id == f_.name]
                    hp = [a.arg for a in f_.args.args]
                    for c in calls:
                        bound = dict(zip(hp, c.args))
                        bound.update({kw.arg: kw.value for kw in c.keywords})
                        hnames = {p_ for p_, v in bound.items() if any(isinstance(x, ast.Name) and x.id in derived for x in ast.walk(v))}
                        # locals of the helper derived from those params
                        for _ in range(2):
                            for m in walk_own(f_):
                                if isinstance(m, ast.Assign) and isinstance(m.targets[0], ast.Name) and any(isinstance(x, ast.Name) and x.id in hnames for x in ast.walk(m.value)):
                                    hnames.add(m.targets[0].id)
                        ok1, why1 = site_ok(f_, n, hnames, Dominance(f_))
                        outer = [t for t, pol in domc.of(c)]
                        ok2 = not outer
                        if ok1 and ok2 and hnames:
                            found = True
                        else:
                            why = why1 or (f"the helper is called only under `{ast.unparse(outer[0])[:50]}`" if outer else "the helper does not receive the overriding columns")
    ctx.ob("F-warn", ok=found, distinct="warn")
    if not found:
        ctx.violation("F-warn", "override-not-announced", itf.loc(cte), "a data column overriding a function is not always announced: " + why)
    # the warning class is a Warning subclass and not filtered in the module
    cls = [n for n in itf.tree.body if isinstance(n, ast.ClassDef) and n.name == "FunctionsAndColumnsOverlapWarning"]
    ok = bool(cls) and any("Warning" in ast.unparse(b) for b in cls[0].bases)
    ctx.ob("F-warn", ok=ok, distinct="class")
    if not ok:
        ctx.violation("F-warn", "warning-class", itf.loc(cte), "FunctionsAndColumnsOverlapWarning is no longer a Warning subclass")
    sup = [n for n in ast.walk(itf.tree) if isinstance(n, ast.Call) and ast.unparse(n.func) in ("warnings.filterwarnings", "warnings.simplefilter")]
    ctx.ob("F-warn", ok=not sup, distinct="no-filter")
    for n in sup:
        ctx.violation("F-warn", "warning-filtered", itf.loc(n), f"`{ast.unparse(n)[:70]}` in the interface module can silence the overlap warning")


def no_direct_node_calls(ctx, s):
    """A2: a rule gets another node's value as an argument, never by calling the node's function: a direct call
    recomputes the value and ignores a column supplied under that node's name."""
    import datetime

    ctx.rule("A2", "no active rule calls the function of another active, computable DAG node directly (a supplied column for that node would be announced as overriding it and then ignored by the caller)")
    repo = s.repo
    byname = {(r.mod.rel, r.name): r for r in repo.rules}
    start = datetime.date(1990, 1, 1)
    dates = sorted({f for f, _ in s.em.intervals(start)})
    dates = [d for i, d in enumerate(dates) if ctx.tier == "thorough" or i % 4 == 0 or d.year >= 2015]
    seen = set()
    ncalls = 0
    for d in dates:
        dag = s.dag(d)
        consumed = set()
        for node in dag.nodes.values():
            if node.kind == "rule":
                consumed |= set(node.args or [])  # automatically derived converters / sums do not make a helper a node
        for n, node in dag.nodes.items():
            if node.kind != "rule":
                continue
            r = node.rule
            for c in ast.walk(r.node):
                if not (isinstance(c, ast.Call) and isinstance(c.func, ast.Name)):
                    continue
                callee = byname.get((r.mod.rel, c.func.id))
                if callee is None and c.func.id in r.mod.imports:
                    src = r.mod.imports[c.func.id]
                    callee = next((x for x in repo.rules if x.name == src[1] and x.mod.rel.replace("/", ".").removesuffix(".py") in src[0]), None) if isinstance(src, tuple) else None
                if callee is None or callee is r:
                    continue
                ncalls += 1
                cn = dag.nodes.get(callee.dag_name)
                active = cn is not None and cn.rule is callee
                args = [a for a in callee.argnames if not a.endswith("_params")]
                computable = all((a in dag.nodes) or (a in dag.data_cols) for a in args)
                is_node = not callee.name.startswith("_") or callee.dag_name in consumed or callee.dag_name in dag.targets
                bad = active and computable and is_node
                key = (r.qual, callee.qual)
                if key in seen:
                    continue
                if bad:
                    seen.add(key)
                    ctx.ob("A2", ok=False, distinct=key)
                    ctx.violation("A2", f"{r.qual}|calls {callee.dag_name}", f"src/_gettsim/{r.mod.rel}:{c.lineno} {r.name}", f"at {d} {r.name} calls {callee.name}(...) directly although `{callee.dag_name}` is a node of the graph at that date: a column supplied as `{callee.dag_name}` is reported as overriding the function and then ignored here (the value is recomputed)")
    ctx.ob("A2", ok=True, distinct="calls examined", n=max(ncalls, 1))
    ctx.floor("A2", 20)


def aggregates_built_for_supplied_names(ctx, repo):
    """M-agg: the aggregate factories build a function for every spec, also when a column of that name is
    supplied - only then the overlap is announced and the aggregate's declared type drives the conversion of
    the supplied column.  (Time conversions are different: they are *derived* names and must not be built.)"""
    ctx.rule("M-agg", "the group / pointer aggregate factories do not skip a spec because its name is among the data columns")
    fl = repo.module("functions_loader.py")
    n = 0
    for facname, one in (("_create_aggregate_by_group_functions", "_create_one_aggregate_by_group_func"), ("_create_aggregate_by_p_id_functions", "_create_one_aggregate_by_p_id_func")):
        fd = find_function(fl, facname, "primary anchor")
        params = [a.arg for a in fd.args.args]
        dnames = {p for p in params if "data" in p}
        builders = []
        for c in ast.walk(fd):
            if isinstance(c, ast.DictComp) and any(isinstance(x, ast.Call) and isinstance(x.func, ast.Name) and x.func.id == one for x in ast.walk(c.value)):
                gen = c.generators[0]
                keyvars = {x.id for x in ast.walk(c.key) if isinstance(x, ast.Name)}
                builders.append((c, keyvars, [i for g in c.generators for i in g.ifs]))
            if isinstance(c, ast.For) and any(isinstance(x, ast.Call) and isinstance(x.func, ast.Name) and x.func.id == one for b in c.body for x in ast.walk(b)):
                from staticlib.guards import Dominance

                dom = Dominance(fd)
                call = next(x for b in c.body for x in ast.walk(b) if isinstance(x, ast.Call) and isinstance(x.func, ast.Name) and x.func.id == one)
                keyvars = {x.id for x in ast.walk(c.target) if isinstance(x, ast.Name)}
                builders.append((c, keyvars, [t for t, _ in dom.of(call)]))
        if not builders:
            raise AnalysisError(f"{facname}: the place where {one} is applied to every spec was not found; M-agg needs a re-read")
        for c, keyvars, conds in builders:
            n += 1
            bad = [t for t in conds for cmp_ in ast.walk(t) if isinstance(cmp_, ast.Compare) and isinstance(cmp_.left, ast.Name) and cmp_.left.id in keyvars
                   and any(isinstance(o, (ast.In, ast.NotIn)) for o in cmp_.ops) and any(isinstance(x, ast.Name) and x.id in dnames for x in ast.walk(cmp_.comparators[0]))]
            # ... nor because a function of that name exists: an explicit (user) spec replaces the function
            fnames = {p_ for p_ in params if "function" in p_}
            bad_fn = [t for t in conds for cmp_ in ast.walk(t) if isinstance(cmp_, ast.Compare) and isinstance(cmp_.left, ast.Name) and cmp_.left.id in keyvars
                      and any(isinstance(o, (ast.In, ast.NotIn)) for o in cmp_.ops) and any(isinstance(x, ast.Name) and x.id in fnames for x in ast.walk(cmp_.comparators[0]))]
            for t in bad_fn:
                ctx.ob("M-agg", ok=False, distinct=(facname, "functions"))
                ctx.violation("M-agg", f"{facname}|{ast.unparse(t)[:60]}", fl.loc(t) + f" {facname}", f"`{ast.unparse(t)[:80]}` drops an explicit aggregation spec when a function of that name exists: a user spec meant to replace a built-in rule is silently ignored (documented precedence: automatic < built-in < user)")
            ctx.ob("M-agg", ok=not bad, distinct=facname)
            for t in bad:
                ctx.violation("M-agg", f"{facname}|{ast.unparse(t)[:60]}", fl.loc(t) + f" {facname}", f"`{ast.unparse(t)[:80]}` skips the aggregate when a column of its name is supplied: the column is used without the overlap warning and without conversion to the aggregate's type")
    ctx.floor("M-agg", 2)
