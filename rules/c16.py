"""C16 - outputs are finite, non-negative and within statutory caps (partial).

Z  no division / floor division / modulo by a quantity that can be zero in a reachable rule
   (rules run on Python scalars: a zero denominator is a ZeroDivisionError for the whole run);
Z-inf no + - * / on an infinite parameter value;
G  the three priority-gated benefits return either 0 or exactly the pre-check entitlement."""
from __future__ import annotations

import ast
import datetime
import itertools

from staticlib.absint import Conc, Interp, alts
from staticlib.common import AnalysisError
from staticlib.session import analyse_dates, get_session

from ._atoms import enumerate_rule, find_rule

GATES = [("arbeitsl_geld_2_m_bg", "arbeitsl_geld_2_vor_vorrang_m_bg"),
         ("kinderzuschl_m_bg", "_kinderzuschl_nach_vermög_check_m_bg"),
         ("wohngeld_m_wthh", "wohngeld_anspruchshöhe_m_wthh")]
# reviewed denominators: exact (function, denominator text), one line of reason each
REVIEWED = {
    ("transfers/rente.py:anteil_entgeltp_ost", "entgeltp_west + entgeltp_ost"):
        "sum of two earnings-point accounts (non-negative by definition) under the guard that they are not both zero",
}


def guard_excludes_zero(guards, den_text):
    """does the conjunction of path guards imply den != 0 ?  Guards are (polarity, test text).  A test is
    evaluated at den = 0 with every other comparison treated as a free boolean atom."""
    for pol, txt in guards:
        try:
            t = ast.parse(txt, mode="eval").body
        except SyntaxError:
            continue
        if den_text not in txt:
            continue
        atoms = []

        def ev(e, env):
            if isinstance(e, ast.BoolOp):
                vals = [ev(v, env) for v in e.values]
                return all(vals) if isinstance(e.op, ast.And) else any(vals)
            if isinstance(e, ast.UnaryOp) and isinstance(e.op, ast.Not):
                return not ev(e.operand, env)
            if isinstance(e, ast.Compare) and len(e.ops) == 1:
                l, r = ast.unparse(e.left), ast.unparse(e.comparators[0])
                num = None
                if l == den_text and isinstance(e.comparators[0], ast.Constant) and isinstance(e.comparators[0].value, (int, float)):
                    num = (0, e.comparators[0].value)
                elif r == den_text and isinstance(e.left, ast.Constant) and isinstance(e.left.value, (int, float)):
                    num = (e.left.value, 0)
                if num is not None:
                    import operator as o
                    ops = {ast.Lt: o.lt, ast.LtE: o.le, ast.Gt: o.gt, ast.GtE: o.ge, ast.Eq: o.eq, ast.NotEq: o.ne}
                    if type(e.ops[0]) in ops:
                        return ops[type(e.ops[0])](*num)
            if ast.unparse(e) == den_text:
                return False  # truthiness of the denominator itself at 0
            k = ast.unparse(e)
            if k not in atoms:
                atoms.append(k)
            return env.get(k, False)

        # discover atoms
        ev(t, {})
        always_false = True
        always_true = True
        for vals in itertools.product([False, True], repeat=len(atoms)):
            v = ev(t, dict(zip(atoms, vals)))
            always_false &= not v
            always_true &= v
        if pol == "+" and always_false:
            return True  # the test cannot hold at den == 0, and we are on its true branch
        if pol == "-" and always_true:
            return True  # the test always holds at den == 0, and we are on its false branch
    return False


def check(ctx):
    s = get_session(ctx.root)
    repo = s.repo
    ctx.assumptions += [
        "valid population = documented columns and types, no value domains: an input or a data-dependent quantity may be zero unless a guard or its construction excludes it",
        "count aggregates over a person's own group are >= 1",
        "rule N: every input column is >= 0 except the income / wealth columns listed in POSSIBLY_NEGATIVE_INPUTS; the reviewed differences in REVIEWED_DIFFERENCES are non-negative for the stated reason",
        "the remaining caps (contribution <= rate*ceiling, Elterngeld cap) and finiteness beyond Z / Z-inf are not decided",
    ]
    ctx.rule("Z", "every division / floor division / modulo in a reachable rule has a denominator that is a non-zero constant or parameter value, a count aggregate, provably positive in the sign domain (sums / products / min / max of positive parameters, counts and non-negative sums), a parameter-only node with a non-zero value, or is dominated by a guard excluding zero")
    ctx.rule("Z-inf", "no + - * / with an infinite parameter value as operand (inf - inf, 0 * inf give NaN)")
    ctx.rule("G", "the paid amounts of ALG II, Kinderzuschlag and Wohngeld are, on every path, either 0 or exactly the pre-check entitlement")
    start = datetime.date(2015, 1, 1)
    iv = s.em.intervals(start)
    dates = sorted({f for f, _ in iv} | ({l for _, l in iv} if ctx.tier == "thorough" else set()))
    res = analyse_dates(ctx.root, dates)
    discharged_by = {"const": 0, "count": 0, "sign": 0, "params-only": 0, "guard": 0, "reviewed": 0}
    for d in dates:
        dag = s.dag(d)
        order, _ = dag.reach()
        params_only_vals = {}
        for n in order:
            node = dag.nodes.get(n)
            if node is None or node.kind != "rule":
                continue
            r = node.rule
            sm = res[d].get(r.qual)
            if sm is None or sm[0] != "ok":
                continue
            for e in sm[3]:
                if e[0] == "inf-arith":
                    ctx.ob("Z-inf", ok=False, distinct=(r.qual, e[3]))
                    ctx.violation("Z-inf", f"{r.qual}|{e[3]}", f"src/_gettsim/{e[2]}:{e[1]} {r.name}", f"at {d} `{e[3]}` does arithmetic on an infinite parameter value")
                if e[0] == "zero-div-const":
                    ctx.ob("Z", ok=False, distinct=(r.qual, e[3]))
                    ctx.violation("Z", f"{r.qual}|{e[3]}|constant zero", f"src/_gettsim/{e[2]}:{e[1]} {r.name}", f"at {d} `{e[3]}` divides by a parameter value that is 0")
                if e[0] != "div":
                    continue
                expr, den_text, den, guards = e[3], e[4], e[5], e[-1]
                key = (r.qual, expr)
                how = None
                if den[0] == "alts":
                    if not den[3]:
                        how = "const"
                    else:
                        ctx.ob("Z", ok=False, distinct=key)
                        ctx.violation("Z", f"{r.qual}|{expr}|zero alternative", f"src/_gettsim/{e[2]}:{e[1]} {r.name}", f"at {d} denominator `{den_text}` of `{expr}` can be the parameter value 0")
                        continue
                elif den[0] == "abs":
                    sym = den[3]
                    deps = [x for x in den[2] if not x.startswith("ctrl:")]
                    if len(den) > 4 and den[4] == "pos":
                        how = "sign"
                    elif sym and _is_count(dag, sym):
                        how = "count"
                    elif deps and all(_params_only_nonzero(s, dag, d, a, params_only_vals) for a in deps) and sym:
                        how = "params-only"
                    elif guard_excludes_zero(guards, den_text):
                        how = "guard"
                    elif (r.qual, den_text) in REVIEWED:
                        how = "reviewed"
                if how is None and guard_excludes_zero(guards, den_text):
                    how = "guard"
                if how:
                    discharged_by[how] += 1
                    ctx.ob("Z", ok=True, distinct=key)
                else:
                    ctx.ob("Z", ok=False, distinct=key)
                    gtxt = " and ".join(("" if p == "+" else "not ") + f"({t})" for p, t in guards) or "no guard"
                    ctx.violation("Z", f"{r.qual}|{expr}|{den_text}", f"src/_gettsim/{e[2]}:{e[1]} {r.name}",
                                  f"denominator `{den_text}` of `{expr}` is data-dependent ({den[2] if den[0] == 'abs' else den}) and no guard excludes zero (path: {gtxt}); a zero value raises ZeroDivisionError for the whole simulation (first seen at {d})")
        # ---- G
        for paid, ent in GATES:
            r = find_rule(s, dag, paid)
            if r is None:
                raise AnalysisError(f"gate rule {paid} not found at {d}")
            atoms, rows = enumerate_rule(s, r, d)
            bad = sorted({c for _, cls, _, _ in rows for c in cls if c not in ("Zero", f"Sym({ent})")})
            ctx.ob("G", ok=not bad, distinct=(r.qual, len(rows)), n=len(rows))
            if bad:
                ctx.violation("G", f"{r.qual}|{bad}", r.where, f"at {d} {paid} can return {bad} - neither 0 nor exactly the entitlement {ent}: the payment is not bounded by the entitlement")
    for (q, dt), why in REVIEWED.items():
        ctx.info(f"reviewed denominator {q}: `{dt}` - {why}")
    unit_consistency(ctx, repo)
    sibling_caps(ctx, repo)
    nonneg_targets(ctx, s, dates)
    bound_direction(ctx, repo)
    cap_dominates(ctx, s, dates)
    capped_alias(ctx, repo)
    ceiling_agreement(ctx, repo)
    ctx.extra_cov["denominators_discharged_by"] = discharged_by
    ctx.extra_cov["dates"] = len(dates)
    ctx.sample({"discharged_by": discharged_by})
    ctx.floor("Z", 1000)
    ctx.floor("G", 3 * 8)


def unit_consistency(ctx, repo):
    """U: quantities combined by + - comparison min max carry the same time unit (name suffix _y/_m/_w/_d),
    unless an explicit numeric factor converts one of them.  A cap applied in another unit than the capped
    quantity is off by the unit factor (e.g. a monthly wage capped at the *yearly* ceiling is not capped)."""
    import re

    ctx.rule("U", "operands of + - < <= > >= == min max in a rule share their time unit (suffix y/m/w/d before the group suffix); a numeric factor marks an explicit conversion")
    G, U = repo.groupings, repo.time_units
    tr = re.compile(f"(?P<base>.*_)(?P<u>[{''.join(U)}])(?P<agg>{'|'.join('_' + g for g in G)})?")
    n_ops = 0
    for r in repo.rules:
        env = {a: (tr.fullmatch(a).group("u") if tr.fullmatch(a) else None) for a in r.argnames}

        def unit(e):
            if isinstance(e, ast.Name):
                return env.get(e.id)
            if isinstance(e, ast.BinOp):
                a, b = unit(e.left), unit(e.right)
                if isinstance(e.op, (ast.Add, ast.Sub)):
                    return a or b
                if isinstance(e.op, (ast.Mult, ast.Div)):
                    if any(isinstance(x, ast.Constant) for x in (e.left, e.right)) or (a and b):
                        return None
                    return a or b
                return None
            if isinstance(e, ast.Call) and isinstance(e.func, ast.Name) and e.func.id in ("min", "max", "float", "abs", "round"):
                us = {unit(a) for a in e.args} - {None}
                return us.pop() if len(us) == 1 else None
            if isinstance(e, ast.IfExp):
                us = {unit(e.body), unit(e.orelse)} - {None}
                return us.pop() if len(us) == 1 else None
            return None

        for n in ast.walk(r.node):
            if isinstance(n, ast.Assign) and isinstance(n.targets[0], ast.Name):
                env[n.targets[0].id] = unit(n.value)
        for n in ast.walk(r.node):
            pairs = []
            if isinstance(n, ast.BinOp) and isinstance(n.op, (ast.Add, ast.Sub)):
                pairs = [(n.left, n.right)]
            elif isinstance(n, ast.Compare) and len(n.ops) == 1:
                pairs = [(n.left, n.comparators[0])]
            elif isinstance(n, ast.Call) and isinstance(n.func, ast.Name) and n.func.id in ("min", "max") and len(n.args) == 2:
                pairs = [(n.args[0], n.args[1])]
            for a, b in pairs:
                ua, ub = unit(a), unit(b)
                if ua and ub:
                    n_ops += 1
                    ok = ua == ub
                    ctx.ob("U", ok=ok, distinct=(r.qual, ast.unparse(n)[:60]))
                    if not ok:
                        names = {"y": "yearly", "m": "monthly", "w": "weekly", "d": "daily"}
                        ctx.violation("U", f"{r.qual}|{ast.unparse(n)[:80]}", f"src/_gettsim/{r.mod.rel}:{n.lineno} {r.name}",
                                      f"`{ast.unparse(n)[:90]}` combines a {names.get(ua, ua)} with a {names.get(ub, ub)} quantity without a conversion factor: a cap / comparison in the wrong unit is off by the unit factor")
    ctx.extra_cov["unit_checked_operations"] = n_ops
    ctx.floor("U", 100)


def _is_count(dag, name):
    node = dag.nodes.get(name)
    return node is not None and node.kind == "grp_agg" and node.spec.get("aggr") == "count"


def _params_only_nonzero(s, dag, d, name, cache):
    if name in cache:
        return cache[name]
    node = dag.nodes.get(name)
    ok = False
    if node is not None and node.kind == "rule" and not dag.deps(name):
        rr = s.analyse_rule(node.rule, d)
        a = alts(rr.res)
        try:
            ok = a is not None and all(float(x) != 0 for x in a)
        except Exception:  # noqa: BLE001
            ok = False
    cache[name] = ok
    return ok


def sibling_caps(ctx, repo):
    from ._siblings import capped_multiplier_findings

    ctx.rule("S-cap", "a parameter scaled by a capped count min(f(v), K) in one rule is scaled by the identical expression wherever another rule scales it by the same data variable (sibling copies of one statutory formula agree on the cap)")
    seen = set()
    n = 0
    for key, where, msg in capped_multiplier_findings(repo):
        if key == "__count__":
            n = msg
            continue
        if key in seen:
            continue
        seen.add(key)
        ctx.ob("S-cap", ok=False, distinct=key)
        ctx.violation("S-cap", key, where, msg)
    ctx.ob("S-cap", ok=True, distinct="groups", n=max(n, 1))


# --------------------------------------------------------------------------- N: non-negative default targets
POSSIBLY_NEGATIVE_INPUTS = ["eink_vermietung_m", "eink_selbst_m", "kapitaleink_brutto_m", "sonstig_eink_m", "elterngeld_zu_verst_eink_vorjahr_y_sn", "vermögen_bedürft"]
GLEITZONE = "transition-zone formula: it is read only where `in_gleitzone` holds (checked: rule N-ctx), and there wage > minijob_grenze (the regime predicates are decided by C19 R-cover)"
RESIDUUM = "employee share as residuum (until 09/2022): total on the reduced assessment base minus the employer's share on the full wage; non-negative inside the transition zone because the factor F exceeds the employer's share of the total rate (parameter fact), read only under `in_gleitzone` (rule N-ctx)"
# (rule, difference) -> (reason, context column or None): differences taken as non-negative after reading the code
REVIEWED_DIFFERENCES = {
    ("social_insurance_contributions/eink_grenzen.py:midijob_bemessungsentgelt_m_bis_09_2022", "bruttolohn_m - minijob_grenze"): (GLEITZONE, "in_gleitzone"),
    ("social_insurance_contributions/eink_grenzen.py:midijob_bemessungsentgelt_m_ab_10_2022", "bruttolohn_m - minijob_grenze"): (GLEITZONE, "in_gleitzone"),
    ("social_insurance_contributions/eink_grenzen.py:_midijob_beitragspfl_einnahme_arbeitnehmer_m", "bruttolohn_m - minijob_grenze"): (GLEITZONE, "in_gleitzone"),
    ("social_insurance_contributions/ges_krankenv.py:_ges_krankenv_beitr_midijob_arbeitnehmer_m_residuum", "_ges_krankenv_beitr_midijob_sum_arbeitnehmer_arbeitgeber_m - _ges_krankenv_beitr_midijob_arbeitgeber_m"): (RESIDUUM, "in_gleitzone"),
    ("social_insurance_contributions/ges_rentenv.py:_ges_rentenv_beitr_midijob_arbeitnehmer_m_residuum", "_ges_rentenv_beitr_midijob_sum_arbeitnehmer_arbeitgeber_m - _ges_rentenv_beitr_midijob_arbeitgeber_m"): (RESIDUUM, "in_gleitzone"),
    ("social_insurance_contributions/arbeitsl_v.py:_arbeitsl_v_beitr_midijob_arbeitnehmer_m_residuum", "_arbeitsl_v_beitr_midijob_sum_arbeitnehmer_arbeitgeber_m - _arbeitsl_v_beitr_midijob_arbeitgeber_m"): (RESIDUUM, "in_gleitzone"),
    ("social_insurance_contributions/ges_pflegev.py:_ges_pflegev_beitr_midijob_arbeitnehmer_m_residuum", "_ges_pflegev_beitr_midijob_sum_arbeitnehmer_arbeitgeber_m - _ges_pflegev_beitr_midijob_arbeitgeber_m"): (RESIDUUM, "in_gleitzone"),
    ("transfers/erwerbsm_rente.py:entgeltp_zurechnungszeit", "zurechnungszeitgrenze - age_of_retirement"): ("a retirement after the Zurechnungszeitgrenze gives negative extra points, but the total E * (1 + (g - a) / (a - 17)) = E * (g - 17) / (a - 17) stays >= 0 for every retirement age a above the Grundbewertung age 17", None),
    ("transfers/rente.py:durchschn_entgeltp", "age_of_retirement - erwerbsm_rente_params['altersgrenze_grundbewertung']"): ("retirement age above the Grundbewertung age (17); the boundary case a = 17 is the known finding of rule Z (zero denominator)", None),
    ("transfers/rente.py:age_of_retirement", "jahr_renteneintr - geburtsjahr"): ("age at retirement: a person retires after being born; the year difference dominates the month correction below", None),
    ("transfers/rente.py:age_of_retirement", "monat_renteneintr - geburtsmonat"): ("month correction of the age at retirement, within (-1, 1) years of a year difference of decades", None),
}


def _read_only_under(s, dag, name, flag, _seen=None):
    """is `name` read, in every consumer, only at places dominated by a condition that mentions `flag`
    positively - or handed on by a consumer for which the same holds?  returns (ok, offending consumer)"""
    import ast as _ast

    from staticlib.guards import Dominance, implies

    _seen = _seen or set()
    if name in _seen:
        return True, None
    _seen.add(name)
    reach = dag.__dict__.setdefault("_reach_set", None)
    if reach is None:
        reach = dag.__dict__["_reach_set"] = set(dag.reach()[0])
    consumers = [n for n in dag.nodes.values() if n.name in reach and (name in (n.args or []) or (n.kind in ("grp_agg", "pid_agg") and n.spec.get("source_col") == name))]
    if not consumers:
        return False, f"{name} is a target itself"
    for c in consumers:
        if c.kind != "rule":
            ok, why = _read_only_under(s, dag, c.name, flag, _seen)
            if not ok:
                return False, why
            continue
        fn = c.rule.node
        dom = Dominance(fn)
        loads = [x for x in _ast.walk(fn) if isinstance(x, _ast.Name) and x.id == name and isinstance(x.ctx, _ast.Load)]
        # single-assignment boolean locals (`voller_beitrag = not a and not b`) are inlined into the conditions
        cnt, defs = {}, {}
        for a in _ast.walk(fn):
            if isinstance(a, _ast.Assign) and len(a.targets) == 1 and isinstance(a.targets[0], _ast.Name):
                cnt[a.targets[0].id] = cnt.get(a.targets[0].id, 0) + 1
                defs[a.targets[0].id] = a.value
            elif isinstance(a, _ast.AugAssign) and isinstance(a.target, _ast.Name):
                cnt[a.target.id] = 2
        defs = {k: v for k, v in defs.items() if cnt[k] == 1 and isinstance(v, (_ast.BoolOp, _ast.UnaryOp, _ast.Compare, _ast.Name))}

        class _Inl(_ast.NodeTransformer):
            depth = 0

            def visit_Name(self, n_):
                if n_.id in defs and isinstance(n_.ctx, _ast.Load) and self.depth < 5:
                    self.depth += 1
                    r_ = self.visit(_ast.parse(_ast.unparse(defs[n_.id]), mode="eval").body)
                    self.depth -= 1
                    return r_
                return n_

        def atom(e):
            return e.id if isinstance(e, _ast.Name) else None

        guarded = True
        for x in loads:
            conds = [(_Inl().visit(_ast.parse(_ast.unparse(t), mode="eval").body), pol) for t, pol in dom.of(x)]
            try:
                ok_, _cex = implies(conds, atom, lambda env: env.get(flag, False))
            except ValueError:
                ok_ = False
            if not ok_:
                guarded = False
        if not guarded:
            ok, why = _read_only_under(s, dag, c.name, flag, _seen)
            if not ok:
                return False, why if why and "target itself" not in why else f"{c.rule.qual} reads {name} outside `{flag}`"
    return True, None


def nonneg_targets(ctx, s, dates):
    """N: interval / sign proof that every default target is >= 0 at every date.  A report is raised only with
    positive evidence - a difference (or negation, negative constant, schedule with a negative piece) that is
    not under a guard ordering its operands and is not clamped on the way to the target; a loss of the proof
    through a construct outside the domain is an analysis error, not a violation."""
    from staticlib.signs import SignProver

    ctx.rule("N", "every default target is provably non-negative: on every path from a difference `a - b` to a target there is a guard ordering a and b, a max(., 0) clamp, or bounds of the operands (caps such as min(n - 1, 4), parameter values) that keep it >= 0")
    ctx.rule("N-ctx", "a formula reviewed as non-negative only inside the transition zone is read by its consumers only under `in_gleitzone`")
    ctx.rule("N2", "in the transfer rules, what is subtracted inside a clamp max(0, need - x) is provably non-negative (a negative credited income would lift the benefit above the need computed from the parameters); one report per root cause")
    n2_sites, n2_checked = {}, 0
    targets = list(s.repo.default_targets)
    proved = 0
    seen_v = set()
    for d in dates:
        sp = SignProver(s, d, POSSIBLY_NEGATIVE_INPUTS)
        sp.reviewed = {k: v[0] for k, v in REVIEWED_DIFFERENCES.items()}
        dag = sp.dag
        for t in targets:
            if t not in dag.nodes:
                raise AnalysisError(f"default target {t} has no producer at {d}")
            sg = sp.sign(t)
            ctx.ob("N", ok=sg is not None, distinct=(t, _impl_of(dag, t)))
            if sg is not None:
                proved += 1
                continue
            blamed = sp.blame(t)
            evid = [(n, q, og, note) for n, q, og, note in blamed if og]
            if not evid:
                why = "; ".join(f"{q or n}: {note or 'construct outside the sign domain'}" for n, q, og, note in blamed[:3])
                raise AnalysisError(f"N: the non-negativity proof of {t} at {d} is lost without a difference to point at ({why}); the sign domain needs a re-read")
            for n, q, og, note in evid:
                for kind, line, modrel, text in sorted(og):
                    key = f"{q}|{kind}|{text}"
                    if key in seen_v:
                        continue
                    seen_v.add(key)
                    ctx.violation("N", key, f"src/_gettsim/{modrel}:{line} {q.split(':')[-1]}", (f"at {d} the default target {t} can become negative: {q.split(':')[-1]} computes the {kind} `{text}` with no guard ordering its operands, no bound that keeps it >= 0 and no max(., 0) clamp between it and {t}" if kind != "possibly negative input" else f"at {d} the default target {t} can become negative: the input column {text} may be negative (losses) and flows through {q.split(':')[-1]} to {t} without a max(., 0) clamp"))
        # N2: what a transfer rule subtracts inside max(0, need - x) is itself >= 0
        for nname, evs in sorted(sp.clamped.items()):
            rule_ = dag.nodes[nname].rule
            if not rule_.mod.rel.startswith("transfers/"):
                continue
            for e in evs:
                site, subtxt, own_origins, deps = e[3], e[4], e[5], e[6]
                evidence = [(rule_.qual, tuple(o)) for o in own_origins]
                for a in deps:
                    if sp.sign(a) is None:
                        for bn, bq, og, note in sp.blame(a):
                            evidence += [(bq or bn, tuple(o)) for o in sorted(og)]
                ctx.ob("N2", ok=not evidence, distinct=(rule_.qual, subtxt))
                if not evidence:
                    # e.g. a parameter that does not exist at this date (C08's matter): no verdict for this site
                    ctx.skip("N2", f"{rule_.qual}|{subtxt}", f"sign of `{subtxt}` unknown without a construct to point at ({d})")
                    continue
                roots = sorted({(q, o[0], o[3]) for q, o in evidence})
                key = "N2|" + ";".join(f"{q}:{k}:{t}" for q, k, t in roots)
                n2_sites.setdefault(key, (roots, []))[1].append((str(d), rule_, site, subtxt))
        n2_checked += sum(1 for nm in sp.memo if nm in dag.nodes and dag.nodes[nm].kind == "rule" and dag.nodes[nm].rule.mod.rel.startswith("transfers/"))
        # context of the reviewed transition-zone formulas
        for (q, text) in sorted(sp.used_reviewed):
            flag = REVIEWED_DIFFERENCES[(q, text)][1]
            if flag is None:
                continue
            node = next((n for n in dag.nodes.values() if n.kind == "rule" and n.rule.qual == q), None)
            if node is None:
                continue
            ok, why = _read_only_under(s, dag, node.name, flag)
            ctx.ob("N-ctx", ok=ok, distinct=(q, text))
            if not ok and f"ctx|{q}|{why}" not in seen_v:
                seen_v.add(f"ctx|{q}|{why}")
                ctx.violation("N-ctx", f"{q}|{why}", node.rule.where, f"at {d} {node.name} (non-negative only inside the transition zone: `{text}`) is read outside `{flag}`: {why}")
    for key, (roots, sites) in sorted(n2_sites.items()):
        consumers = sorted({f"{r_.name} (`{site[:60]}`)" for _, r_, site, _ in sites})
        first = sites[0]
        cause = "; ".join(f"{q.split(':')[-1]}: {k} `{t}`" for q, k, t in roots[:6])
        ctx.violation("N2", key, first[1].where, f"from {first[0]}: {', '.join(consumers[:4])} subtract `{first[3]}` inside a clamp at zero, but that amount can be negative ({cause}): the clamped benefit / shortfall then exceeds the need it is computed from")
    ctx.ob("N2", ok=True, distinct="transfer rules interpreted", n=max(n2_checked, 1))
    for k, (reason, _flag) in REVIEWED_DIFFERENCES.items():
        ctx.info(f"N reviewed difference {k[0]} `{k[1]}`: {reason}") if hasattr(ctx, "info") else None
    ctx.extra_cov["N_targets_proved"] = proved
    ctx.floor("N", 18)


def _impl_of(dag, t):
    n = dag.nodes.get(t)
    return n.rule.qual if n is not None and n.rule is not None else t


# --------------------------------------------------------------------------- D: caps are used as caps
import re as _re

_UPPER = _re.compile(r"(^|_)(max|maximum|höchst\w*|obergrenze|deckel)($|_)")
_LOWER = _re.compile(r"(^|_)(min|minimum|mindest\w*|untergrenze)($|_)")


def bound_direction(ctx, repo):
    """D: a parameter whose key names it an upper bound (…_max, höchst…, obergrenze, deckel) limits from above:
    it is an operand of min(), never of max(); lower bounds (…_min, mindest…) the other way round.  Only
    parameter look-ups are considered (the key is the statute's own word), not local variable names."""
    ctx.rule("D", "a parameter named as an upper bound (max / höchst / obergrenze / deckel) is an operand of min(), one named as a lower bound (min / mindest / untergrenze) an operand of max(), when combined with a data-dependent amount")
    n = 0
    for r in repo.rules:
        for c in ast.walk(r.node):
            if not (isinstance(c, ast.Call) and isinstance(c.func, ast.Name) and c.func.id in ("min", "max") and len(c.args) >= 2):
                continue
            others_data = [a for a in c.args if any(isinstance(x, ast.Name) and x.id in r.argnames and not x.id.endswith("_params") for x in ast.walk(a))]
            for a in c.args:
                if not (isinstance(a, ast.Subscript) and isinstance(a.slice, ast.Constant) and isinstance(a.slice.value, str)):
                    continue
                base = a
                while isinstance(base, ast.Subscript):
                    base = base.value
                if not (isinstance(base, ast.Name) and base.id.endswith("_params")):
                    continue
                key = a.slice.value
                up, lo = bool(_UPPER.search(key)), bool(_LOWER.search(key))
                if up == lo or not [o for o in others_data if o is not a]:
                    continue
                n += 1
                good = (c.func.id == "min") == up
                ctx.ob("D", ok=good, distinct=(r.qual, ast.unparse(c)[:60]))
                if not good:
                    ctx.violation("D", f"{r.qual}|{ast.unparse(c)[:80]}", f"src/_gettsim/{r.mod.rel}:{c.lineno} {r.name}", f"`{ast.unparse(c)[:90]}` uses the {'upper' if up else 'lower'} bound `{key}` as a {'floor' if up else 'ceiling'}: the amount is lifted to at least the cap instead of being limited by it" if up else f"`{ast.unparse(c)[:90]}` uses the lower bound `{key}` as a ceiling: the amount is cut to at most the minimum instead of being raised to it")
    ctx.extra_cov["D_sites"] = n
    ctx.floor("D", 8)


def cap_dominates(ctx, s, dates):
    """B: when the value a rule returns is built from a capped term `min(x, P_upper)` through min / max / conditional
    selection only (no arithmetic on the way to the result), the result is bounded in the interval domain; a
    `max(unbounded, min(x, P_upper))` applies the cap to one operand and lets the other one through."""
    from staticlib.absint import ub_of
    from staticlib.ordersem import NotExpressible, function_as_expression
    from staticlib.signs import SignProver

    ctx.rule("B", "a result formed from a term capped by an upper-bound parameter through min / max / selection only has a finite upper bound (the cap is applied last, not to one operand of a max)")
    cands = {}
    for r in s.repo.rules:
        try:
            e = function_as_expression(r.node)
        except NotExpressible:
            continue
        parent = {}
        for n in ast.walk(e):
            for c in ast.iter_child_nodes(n):
                parent[c] = n
        for c in ast.walk(e):
            if isinstance(c, ast.Call) and isinstance(c.func, ast.Name) and c.func.id == "min" and any(
                    isinstance(a, ast.Subscript) and isinstance(a.slice, ast.Constant) and isinstance(a.slice.value, str) and _UPPER.search(a.slice.value) for a in c.args):
                n = c
                lattice_only = True
                while n in parent:
                    p = parent[n]
                    if isinstance(p, ast.Call) and isinstance(p.func, ast.Name) and p.func.id in ("min", "max", "float"):
                        pass
                    elif isinstance(p, ast.IfExp) and n is not p.test:
                        pass
                    else:
                        lattice_only = False
                        break
                    n = p
                if lattice_only:
                    cands[r.qual] = (r, ast.unparse(c)[:70])
    n_ob = 0
    seen = set()
    for d in dates:
        sp = None
        dag = s.dag(d)
        for name, node in dag.nodes.items():
            if node.kind != "rule" or node.rule.qual not in cands or not s.is_scalar_rule(node.rule):
                continue
            if sp is None:
                sp = SignProver(s, d, POSSIBLY_NEGATIVE_INPUTS)
                sp.reviewed = {k: v[0] for k, v in REVIEWED_DIFFERENCES.items()}
            r, site = cands[node.rule.qual]
            for a in r.argnames:
                if not a.endswith("_params"):
                    sp.sign(a)
            rr = s.analyse_rule(r, d, sign_fn=lambda a: (sp.sign(a), *sp.bounds.get(a, (None, None))))
            ub = ub_of(rr.res)
            ok = ub is not None
            n_ob += 1
            ctx.ob("B", ok=ok, distinct=(r.qual, str(d)))
            if not ok and r.qual not in seen:
                seen.add(r.qual)
                ctx.violation("B", f"{r.qual}|{site}", r.where, f"at {d} {r.name} applies the cap `{site}` but its result has no upper bound: the capped term is combined by max / selection with an amount that grows with the data (e.g. a rate times the number of children), so the parameter no longer limits the result")
    ctx.floor("B", 3)


def capped_alias(ctx, repo):
    """S-alias: a function that binds `c = min(arg, <parameter>)` has decided that `arg` counts only up to the
    parameter; using the raw `arg` in arithmetic elsewhere in the same function is the deviant site (a term
    extrapolated with the uncapped count, while its siblings use the capped one)."""
    ctx.rule("S-alias", "in a function that caps one of its arguments against a parameter (`c = min(arg, P)`), the uncapped argument does not appear as an operand of + - * / elsewhere")
    n = 0
    for r in repo.rules:
        caps = {}
        for st in ast.walk(r.node):
            if isinstance(st, ast.Assign) and len(st.targets) == 1 and isinstance(st.targets[0], ast.Name) and isinstance(st.value, ast.Call) \
                    and isinstance(st.value.func, ast.Name) and st.value.func.id == "min" and len(st.value.args) == 2:
                a, b = st.value.args
                for raw, other in ((a, b), (b, a)):
                    data_names = {x.id for x in ast.walk(other) if isinstance(x, ast.Name) and x.id in r.argnames and not x.id.endswith("_params")}
                    local_names = {x.id for x in ast.walk(other) if isinstance(x, ast.Name) and x.id not in r.argnames}
                    if isinstance(raw, ast.Name) and raw.id in r.argnames and not raw.id.endswith("_params") and not data_names and st.targets[0].id != raw.id:
                        # locals in the bound must themselves be parameter-valued (assigned from params only)
                        ok_local = True
                        for ln in local_names:
                            defs = [x.value for x in ast.walk(r.node) if isinstance(x, ast.Assign) and isinstance(x.targets[0], ast.Name) and x.targets[0].id == ln]
                            if not defs or any(any(isinstance(y, ast.Name) and y.id in r.argnames and not y.id.endswith("_params") for y in ast.walk(dv)) for dv in defs):
                                ok_local = False
                        if ok_local:
                            caps[raw.id] = (st.targets[0].id, st)
        for raw, (alias, st) in caps.items():
            n += 1
            uses = [b for b in ast.walk(r.node) if isinstance(b, ast.BinOp) and isinstance(b.op, (ast.Add, ast.Sub, ast.Mult, ast.Div))
                    and any(isinstance(side, ast.Name) and side.id == raw for side in (b.left, b.right))]
            ctx.ob("S-alias", ok=not uses, distinct=(r.qual, raw))
            for b in uses:
                ctx.violation("S-alias", f"{r.qual}|{raw}|{ast.unparse(b)[:60]}", f"src/_gettsim/{r.mod.rel}:{b.lineno} {r.name}", f"`{ast.unparse(b)[:80]}` computes with the uncapped `{raw}` although the function caps it as `{alias} = {ast.unparse(st.value)[:60]}`: this term keeps growing beyond the cap the sibling terms respect")
    ctx.floor("S-alias", 5)


def ceiling_agreement(ctx, repo):
    """S-ceil: within one contribution module every rule that needs an assessment ceiling uses the same ceiling node
    (health and care use the health ceiling, pension and unemployment the pension ceiling); a rule using the
    sibling branch's ceiling lets the contribution exceed rate x ceiling of its own branch."""
    import collections
    import re as _re

    ctx.rule("S-ceil", "all rules of one social-insurance module use the same assessment-ceiling node")
    pat = _re.compile(r"^_ges_\w+_beitr_bemess_grenze_[mywd]$")
    by_mod = collections.defaultdict(lambda: collections.defaultdict(list))
    for r in repo.rules:
        if not r.mod.rel.startswith("social_insurance_contributions/") or r.mod.rel.endswith("beitr_bemess_grenzen.py"):
            continue
        for a in r.argnames:
            if pat.match(a):
                by_mod[r.mod.rel][a].append(r)
    n = 0
    for mod, uses in sorted(by_mod.items()):
        n += sum(len(v) for v in uses.values())
        if len(uses) <= 1:
            ctx.ob("S-ceil", ok=True, distinct=mod, n=sum(len(v) for v in uses.values()))
            continue
        major = max(uses, key=lambda k: len(uses[k]))
        for a, rs in uses.items():
            if a == major:
                continue
            for r in rs:
                ctx.ob("S-ceil", ok=False, distinct=(mod, r.qual))
                ctx.violation("S-ceil", f"{r.qual}|{a}", r.where, f"{r.name} caps its base with `{a}` while the other {len(uses[major])} rule(s) of {mod} use `{major}`: this branch's contribution can exceed its rate times its own assessment ceiling")
    ctx.floor("S-ceil", 4)
