"""C09 - rewriting a rule into array form preserves its meaning (partial).

Lint V classifies every If / BoolOp / reduction call of every internal rule as sound, loud (the
rewriter or the array form raises) or *silently wrong* under a reading of today's rewriter that is
tied to probes on vectorization.py.  A rule passes if it contains no silently-wrong shape.
S1 else-less augmented assignment, S2 branches of different statement kind / target / operator,
S3 and/or with a non-boolean operand in value position, S4 one-argument reduction over
data-dependent elements.  Plus E: producing the array form writes nothing outside fresh objects."""
from __future__ import annotations

import ast

from staticlib.common import AnalysisError
from staticlib.session import analyse_dates, get_session
from staticlib.srcmodel import find_function, walk_own

from . import _effects_rules as R
from ._typing import interval_dates

REDUCERS = ("sum", "any", "all", "max", "min")


def probes(ctx, repo):
    """What the rewriter does with each shape is taken from its *tested contract*: the (function, expected
    array form) pairs of src/_gettsim_tests/test_vectorization.py, which every tree that passes the suite
    reproduces.  Returns the set of shape classes that are pinned as silently wrong."""
    tp = repo.root / "src/_gettsim_tests/test_vectorization.py"
    if not tp.exists():
        raise AnalysisError("src/_gettsim_tests/test_vectorization.py (the rewriter's tested contract) vanished")
    try:
        tree = ast.parse(tp.read_text(encoding="utf-8"))
    except SyntaxError as e:
        raise AnalysisError(f"test_vectorization.py does not parse: {e}") from e
    fns = {n.name: n for n in tree.body if isinstance(n, ast.FunctionDef)}
    pairs = [(fns[k], fns[k + "_exp"]) for k in fns if k + "_exp" in fns]
    if len(pairs) < 8:
        raise AnalysisError(f"only {len(pairs)} (function, expected) pairs found in test_vectorization.py")
    pinned = {}

    def where_calls(f):
        return [n for n in ast.walk(f) if isinstance(n, ast.Call) and isinstance(n.func, ast.Attribute) and n.func.attr == "where"]

    for src, exp in pairs:
        for n in ast.walk(src):
            # S1: else-less augmented assignment
            if isinstance(n, ast.If) and not n.orelse and len(n.body) == 1 and isinstance(n.body[0], ast.AugAssign) and isinstance(n.body[0].target, ast.Name):
                tgt = n.body[0].target.id
                for e in ast.walk(exp):
                    if isinstance(e, ast.AugAssign) and isinstance(e.target, ast.Name) and e.target.id == tgt and isinstance(e.value, ast.Call) and e.value in where_calls(exp) and len(e.value.args) == 3:
                        third = e.value.args[2]
                        pinned["S1"] = isinstance(third, ast.Name) and third.id == tgt
                        ctx.info(f"contract {src.name}: `if c: {tgt} op= v` -> `{ast.unparse(e)}` ({'old value substituted: silently wrong' if pinned['S1'] else 'neutral element: sound'})")
            # S4: one-argument reduction over a display of data
            if isinstance(n, ast.Call) and isinstance(n.func, ast.Name) and n.func.id in REDUCERS and len(n.args) == 1 and isinstance(n.args[0], (ast.Tuple, ast.List)):
                for e in ast.walk(exp):
                    if isinstance(e, ast.Call) and isinstance(e.func, ast.Attribute) and e.func.attr == n.func.id and len(e.args) == 1 and ast.unparse(e.args[0]) == ast.unparse(n.args[0]):
                        pinned["S4"] = True
                        ctx.info(f"contract {src.name}: `{ast.unparse(n)}` -> `{ast.unparse(e)}` (whole-array reduction)")
            # S3: and/or -> logical_and/or
            if isinstance(n, ast.BoolOp):
                if any(isinstance(e, ast.Call) and isinstance(e.func, ast.Attribute) and e.func.attr in ("logical_and", "logical_or") for e in ast.walk(exp)):
                    pinned["S3"] = True
    for k in ("S1", "S3", "S4"):
        if k not in pinned:
            raise AnalysisError(f"the tested contract of the rewriter no longer pins class {k}; C09's shape table needs a re-read")
    # S2 (branches of different statement kinds / targets) is not pinned by a test: read it from the rewriter
    v = repo.module("vectorization.py")
    cls = [n for n in v.tree.body if isinstance(n, ast.ClassDef) and any("NodeTransformer" in ast.unparse(b) for b in n.bases)]
    s2 = False
    extra_visits = set()
    if len(cls) == 1:
        methods = {n.name for n in cls[0].body if isinstance(n, ast.FunctionDef)}
        extra_visits = methods - {"__init__", "visit_Call", "visit_UnaryOp", "visit_BoolOp", "visit_If", "visit_IfExp"}
        vi = [n for n in cls[0].body if isinstance(n, ast.FunctionDef) and n.name == "visit_If"]
        if vi:
            # the transformed statement is the if-branch's own statement object with its value replaced
            txt = ast.unparse(vi[0])
            s2 = "node.body[0]" in txt and ("value = call" in txt or ".value=" in txt.replace(" ", ""))
    pinned["S2"] = s2
    if not s2:
        ctx.skip("S2", "visit_If", "the rewriter's handling of mismatched branches is not recognisable any more; class S2 is not judged")
    if extra_visits:
        ctx.info(f"the rewriter handles additional node kinds {sorted(extra_visits)}; shapes involving them are not classified (their array forms are not assumed to fail loudly)")
    # RV: a translation the tested contract says nothing about replaces a loud failure by an unverified array form
    ctx.rule("RV", "every node kind the rewriter translates beyond the contract's set (Call, UnaryOp, BoolOp, If, IfExp) occurs in a (function, expected array form) pair of the tested contract that the translation changes")
    srcs = [p_[0] for p_ in pairs]
    for vname in sorted(extra_visits):
        if not vname.startswith("visit_"):
            continue
        kind = getattr(ast, vname[len("visit_"):], None)
        covered = False
        if kind is not None:
            for src, exp in pairs:
                ks = [n for n in ast.walk(src) if isinstance(n, kind)]
                if kind is ast.Compare:
                    ks = [n for n in ks if len(n.ops) > 1]  # plain comparisons need no translation
                if ks and ast.dump(src.body[-1] if src.body else src) != ast.dump(exp.body[-1] if exp.body else exp):
                    covered = True
        ctx.ob("RV", ok=covered, distinct=vname)
        if not covered:
            vm = next((m_ for c_ in cls for m_ in c_.body if isinstance(m_, ast.FunctionDef) and m_.name == vname), None)
            ctx.violation("RV", f"rewriter|{vname}", v.loc(vm) if vm is not None else "src/_gettsim/vectorization.py", f"the rewriter now translates {vname[len('visit_'):]} nodes ({vname}), but no pair of the tested contract contains such a node{' (a chained comparison)' if vname == 'visit_Compare' else ''}: rules using the construct used to fail loudly in array form and now get an unverified translation")
    ctx.ob("RV", ok=True, distinct="visitors", n=1)
    return pinned, extra_visits


def _eff(s):
    """statement after the inner transformations: an inner If becomes the kind of its if-branch statement"""
    while isinstance(s, ast.If) and s.body:
        s = s.body[0]
    return s


def _tgt(s):
    if isinstance(s, ast.Assign):
        return ast.unparse(s.targets[0])
    if isinstance(s, ast.AugAssign):
        return ast.unparse(s.target) + " " + type(s.op).__name__ + "="
    return None


def check(ctx):
    s = get_session(ctx.root)
    repo = s.repo
    ctx.assumptions += [
        "the shape table is a reading of today's rewriter, tied to probes on vectorization.py; correctness of the rewriter on arbitrary programs (translation validation) is not decided",
    ]
    pinned, extra_visits = probes(ctx, repo)
    # root cause of class S1 (a defect of the rewriter itself, for every function in the documented style)
    ctx.rule("S1-rewriter", "an else-less `if c: x op= v` must not be rewritten to `x op= where(c, v, x)`")
    ctx.ob("S1-rewriter", ok=not pinned["S1"], distinct="else-less-augassign")
    if pinned["S1"]:
        ctx.violation("S1-rewriter", "_if_to_call|else-less augmented assignment falls back to the bare target", "src/_gettsim/vectorization.py _if_to_call",
                      "for `if c: x += v` without else the rewriter emits `x += where(c, v, x)` (pinned by test_vectorization.py): where c is false the old value is added (doubled) instead of left unchanged")
    ctx.rule("S1", "no `if c: x += v` without else (rewritten to x += where(c, v, x): adds x when c is false)")
    ctx.rule("S2", "both branches of an if/else are one statement of the same kind, same target and same augmented operator (the else-branch's value is pasted into the if-branch's statement)")
    ctx.rule("S3", "no and/or whose value can be non-boolean (rewritten to logical_and/or, which returns booleans)")
    ctx.rule("S4", "no one-argument sum/any/all/min/max over elements that depend on data (rewritten to a whole-array reduction)")
    nif = nred = 0
    s1_count = {}
    # functions whose array form fails loudly anyway (the where-form evaluates every statement):
    # scalar casts / range / len of data, chained comparisons, dict look-ups keyed by data, loops over
    # data, and the shapes the rewriter itself rejects.  Silently-wrong shapes in them are moot.
    dates = interval_dates(s, ctx.tier)
    res = analyse_dates(ctx.root, dates)
    loud = {}
    for d in dates:
        for q, sm in res[d].items():
            if sm[0] != "ok":
                continue
            for e in sm[3]:
                if e[0] == "chained-compare" and "visit_Compare" in extra_visits:
                    continue
                if e[0] in ("scalar-cast", "chained-compare", "dyn-key", "for-abs", "comp-abs-iter") and e[2] == repo.rules_by_qual[q].mod.rel:
                    if e[0] == "dyn-key" and "(get)" not in str(e[6] if len(e) > 7 else ""):
                        loud.setdefault(q, f"{e[0]}: {e[3]}")
                    elif e[0] != "dyn-key":
                        loud.setdefault(q, f"{e[0]}: {e[3]}")
    for r in repo.rules:
        if r.skip_vec:
            continue
        for n in ast.walk(r.node):
            if isinstance(n, ast.If) and (len(n.body) != 1 or len(n.orelse) > 1 or (not n.orelse and isinstance(n.body[0], ast.Return))):
                loud.setdefault(r.qual, "shape rejected by the rewriter (several statements in a branch / return without else)")
            if isinstance(n, ast.Call) and isinstance(n.func, ast.Name) and n.func.id in REDUCERS and (len(n.args) > 2 or (len(n.args) == 2 and n.func.id in ("sum", "any", "all"))):
                loud.setdefault(r.qual, "reduction call rejected by the rewriter")
    for q, why in sorted(loud.items()):
        ctx.info(f"array form of {q} fails loudly ({why}); silently-wrong shapes in it are not reported")
    for r in repo.rules:
        if r.skip_vec or r.qual in loud:
            continue
        for n in ast.walk(r.node):
            if isinstance(n, ast.If):
                nif += 1
                loc = f"src/_gettsim/{r.mod.rel}:{n.lineno} {r.name}"
                if len(n.body) != 1 or len(n.orelse) > 1:
                    ctx.ob("S2", ok=True, distinct=(r.qual, n.lineno))
                    continue  # loud: too many operations
                b = n.body[0]
                o = n.orelse[0] if n.orelse else None
                if o is None:
                    bad = isinstance(b, ast.AugAssign) and pinned["S1"]
                    ctx.ob("S1", ok=not bad, distinct=(r.qual, ast.unparse(n.test)))
                    if bad:
                        # keyed by rule, operator and position among the rule's else-less updates with that operator
                        # (a renamed local or a re-spelt condition is still the same finding)
                        opname = _opstr(b.op)
                        ordinal = 1 + sum(1 for m_ in ast.walk(r.node) if isinstance(m_, ast.If) and not m_.orelse and len(m_.body) == 1 and isinstance(m_.body[0], ast.AugAssign)
                                          and _opstr(m_.body[0].op) == opname and m_.lineno < n.lineno)
                        ctx.violation("S1", f"{r.qual}|else-less {opname}= #{ordinal}", loc, f"`if {ast.unparse(n.test)}: {ast.unparse(b)}` has no else: the array form computes `{ast.unparse(b.target)} {_opstr(b.op)}= where(c, {ast.unparse(b.value)}, {ast.unparse(b.target)})` and silently adds the old value where the condition is false")
                    continue
                eb, eo = _eff(b), _eff(o)
                if not isinstance(eb, (ast.Return, ast.Assign, ast.AugAssign)) or not isinstance(eo, (ast.Return, ast.Assign, ast.AugAssign, ast.If)):
                    ctx.ob("S2", ok=True, distinct=(r.qual, n.lineno))
                    continue  # loud
                bad = None
                if not pinned["S2"]:
                    pass
                elif type(eb) is not type(eo):
                    bad = f"if-branch is {type(eb).__name__} but else-branch is {type(eo).__name__}"
                elif isinstance(eb, (ast.Assign, ast.AugAssign)) and _tgt(eb) != _tgt(eo):
                    bad = f"branches assign different targets ({_tgt(eb)} vs {_tgt(eo)})"
                ctx.ob("S2", ok=bad is None, distinct=(r.qual, ast.unparse(n.test)))
                if bad:
                    ctx.violation("S2", f"{r.qual}|if {ast.unparse(n.test)}|{bad}", loc, f"`if {ast.unparse(n.test)}`: {bad}; the rewriter keeps the if-branch's statement and pastes the other branch's value into it")
            elif isinstance(n, ast.Call) and isinstance(n.func, ast.Name) and n.func.id in REDUCERS and len(n.args) == 1 and not n.keywords:
                nred += 1
    # S3 / S4 need kinds and data dependence: events of the abstract interpreter
    seen = set()
    for d in dates:
        for q, sm in res[d].items():
            if sm[0] != "ok" or q in loud:
                continue
            r = repo.rules_by_qual[q]
            for e in sm[3]:
                if e[0] == "reduce1":
                    key = (q, e[3])
                    if key in seen:
                        continue
                    seen.add(key)
                    bad = bool(e[4])
                    ctx.ob("S4", ok=not bad, distinct=key)
                    if bad:
                        ctx.violation("S4", f"{q}|{e[3]}", f"src/_gettsim/{e[2]}:{e[1]} {r.name}", f"`{e[3]}` reduces a sequence whose elements depend on data: the array form reduces over the whole column and returns one scalar for all rows")
                elif e[0] == "boolop-nonbool":
                    key = (q, e[3])
                    if key in seen:
                        continue
                    seen.add(key)
                    ctx.ob("S3", ok=False, distinct=key)
                    ctx.violation("S3", f"{q}|{e[3]}", f"src/_gettsim/{e[2]}:{e[1]} {r.name}", f"`{e[3]}` can evaluate to {e[4]}: logical_and/or would return a boolean instead")
    nbool = sum(1 for r in repo.rules if not r.skip_vec for n in ast.walk(r.node) if isinstance(n, ast.BoolOp))
    ctx.ob("S3", ok=True, distinct="scan", n=nbool)
    ctx.extra_cov["ifs"] = nif
    ctx.extra_cov["one_argument_reductions_syntactic"] = nred
    ctx.extra_cov["boolops"] = nbool
    if nif < 150:
        raise AnalysisError(f"only {nif} if-statements examined; floor is 150")
    rewriter_rejects(ctx, repo)
    inplace_on_arguments(ctx, repo)
    # effects of producing the array form
    R.rule_E1(ctx, repo, entries=["vectorization.make_vectorizable", "vectorization.make_vectorizable_source"])
    R.rule_E4(ctx, repo)
    e = R.effects(repo)
    ctx.rule("E2v", "the rewriting code keeps no module-level state (cache, registry) between calls")
    for q, f in e.funcs.items():
        if f.mod != "vectorization":
            continue
        own = sorted({x[3][1] for x in f.sites if x[3][0] == "G"})
        ctx.ob("E2v", ok=not own, distinct=q)
        for g in own:
            s0 = sorted(x for x in f.sites if x[3] == ("G", g))[0]
            ctx.violation("E2v", f"{q}|{g}", R.loc(repo, f, s0[0]), f"{q} writes module-level state {g}: a later rewrite can be served an earlier function's array form")
    for f, d in e.memoised():
        if f.mod == "vectorization":
            ctx.violation("E2v", f"{f.qual}|{d}", R.loc(repo, f, f.node.lineno), f"{f.qual} is memoised ({d})")


def _opstr(op):
    return {ast.Add: "+", ast.Sub: "-", ast.Mult: "*", ast.Div: "/"}.get(type(op), "?")


def rewriter_rejects(ctx, repo):
    """RJ: the if-translation uses element [0] of the body and of the else block; it may complete (return a
    call) only when each block has at most one statement - otherwise the remaining statements are dropped
    silently.  Decided on the dominating conditions of every completing return, for block sizes 0..2."""
    from staticlib.guards import Dominance, eval_sized

    ctx.rule("RJ", "the if-to-where translation completes only for blocks of one statement: every path to a returned call is infeasible when the body or the else block has two statements (the rewriter must fail loudly, not drop statements)")
    vec = repo.module("vectorization.py")
    fn = find_function(vec, "_if_to_call", "anchor named in the property")
    node = fn.args.args[0].arg
    dom = Dominance(fn)
    rets = [n for n in walk_own(fn) if isinstance(n, ast.Return) and n.value is not None]
    if not rets:
        raise AnalysisError("_if_to_call returns nothing; RJ needs a re-read")
    uses_first = {blk: any(isinstance(x, ast.Subscript) and ast.unparse(x.value) == f"{node}.{blk}" and ast.unparse(x.slice) == "0" for x in ast.walk(fn)) for blk in ("body", "orelse")}
    for nb, no in ((2, 0), (2, 1), (1, 2), (2, 2)):
        if (nb > 1 and not uses_first["body"]) and (no > 1 and not uses_first["orelse"]):
            continue
        sizes = {f"{node}.body": nb, f"{node}.orelse": no}
        for r in rets:
            feasible = True
            for t, pol in dom.of(r):
                v = eval_sized(t, sizes)
                if v is not None and v != pol:
                    feasible = False
            ctx.ob("RJ", ok=not feasible, distinct=(nb, no, r.lineno))
            if feasible:
                ctx.violation("RJ", f"_if_to_call|body={nb}|orelse={no}", vec.loc(r) + " _if_to_call", f"an if-statement with {nb} statement(s) in its body and {no} in its else block reaches `{ast.unparse(r)}`: only the first statement of each block is translated, the others are dropped without an error")
    ctx.floor("RJ", 4)


def inplace_on_arguments(ctx, repo):
    """S5: `x op= v` where x is (an alias of) an argument: on scalars it rebinds a local, in the array form numpy
    updates the caller's column in place - the inputs of later rules change."""
    ctx.rule("S5", "no augmented assignment to an argument or to a name bound directly to an argument (`out = arg; out += v`): the array form would modify the caller's column in place")
    n = 0
    for r in repo.rules:
        if r.skip_vec:
            continue
        params = set(r.argnames)
        alias = {}  # local -> argument it may still be identical to (flow-insensitive over plain copies)
        for st in ast.walk(r.node):
            if isinstance(st, ast.Assign) and len(st.targets) == 1 and isinstance(st.targets[0], ast.Name):
                v = st.value
                cands = [v] if isinstance(v, ast.Name) else ([v.body, v.orelse] if isinstance(v, ast.IfExp) else [])
                for c in cands:
                    if isinstance(c, ast.Name) and (c.id in params or c.id in alias) and not c.id.endswith("_params"):
                        alias.setdefault(st.targets[0].id, set()).add(c.id)
        for st in ast.walk(r.node):
            if isinstance(st, ast.AugAssign) and isinstance(st.target, ast.Name):
                n += 1
                t = st.target.id
                hit = t in params or t in alias
                if hit and t in alias:
                    # the alias is harmless if every binding of t that reaches this statement is a fresh value:
                    # syntactic check - t has another, later plain assignment from an expression before this line
                    binds = [a for a in ast.walk(r.node) if isinstance(a, (ast.Assign, ast.AugAssign)) and (a.targets[0] if isinstance(a, ast.Assign) else a.target) is not None
                             and isinstance((a.targets[0] if isinstance(a, ast.Assign) else a.target), ast.Name) and (a.targets[0] if isinstance(a, ast.Assign) else a.target).id == t and a.lineno < st.lineno]
                    last = max(binds, key=lambda a: a.lineno) if binds else None
                    if last is not None and not (isinstance(last, ast.Assign) and isinstance(last.value, (ast.Name, ast.IfExp))):
                        hit = False  # the value was re-computed (x = arg; x = x + 1; x += ...) before this update
                ctx.ob("S5", ok=not hit, distinct=(r.qual, st.lineno))
                if hit:
                    src = t if t in params else sorted(alias[t])[0]
                    ctx.violation("S5", f"{r.qual}|{ast.unparse(st)[:60]}", f"src/_gettsim/{r.mod.rel}:{st.lineno} {r.name}", f"`{ast.unparse(st)[:70]}` updates `{t}`, which is the argument `{src}` itself: harmless on scalars, but the array form (`numpy` in-place operator) overwrites the caller's `{src}` column, so later rules and repeated calls see changed inputs")
    ctx.ob("S5", ok=True, distinct="scan", n=1)
    ctx.extra_cov["augmented_assignments"] = n
