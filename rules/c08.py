"""C08 - every supported date yields a complete, computable system.

Per equivalence interval >= 2015-01-01 (first and last day), with the documented input variables as
data columns and DEFAULT_TARGETS as targets:
K0 environment resolvable, K1 acyclic, K2 leaves are documented inputs, K3 every parameter path a
reachable rule can read exists (both branches of data-dependent tests; helpers inlined),
K3s sibling look-ups keyed by the same data value agree on their key sets, K4 rounding specs exist,
K5 no reachable not-implemented rule/aggregate, K6 aggregation dtype preconditions hold."""
from __future__ import annotations

import ast
import collections
import datetime

from staticlib.common import AnalysisError
from staticlib.session import analyse_dates, get_session
from staticlib.srcmodel import find_function

START = datetime.date(2015, 1, 1)


def sample_dates(s, tier):
    iv = s.em.intervals(START)
    ds = {f for f, _ in iv} | {l for _, l in iv}
    if tier == "thorough":
        ds |= {datetime.date(y, 2, 29) for y in range(2016, s.em.last_entry_date.year + 1, 4)}
        ds |= {f + datetime.timedelta(days=1) for f, _ in iv}
        ds = {d for d in ds if d <= s.em.last_entry_date}
    return sorted(ds)


def implemented_agg_kinds(repo):
    """aggregation functions of aggregation_numpy whose body is not a bare `raise NotImplementedError`,
    and the admissible source kinds read from their fail_if_dtype_* calls"""
    m = repo.module("aggregation_numpy.py")
    checks = {}
    for name, fd in m.functions.items():
        if name.startswith("fail_if_dtype"):
            txt = ast.unparse(fd)
            ks = set()
            if "numpy.number" in txt:
                ks |= {"int", "float"}
            if "numpy.floating" in txt:
                ks |= {"float"}
            if "numpy.integer" in txt:
                ks |= {"int"}
            if "'bool'" in txt or "numpy.bool_" in txt or '"bool"' in txt:
                ks |= {"bool"}
            if "datetime64" in txt:
                ks |= {"date"}
            checks[name] = ks
    out = {}
    for name, fd in m.functions.items():
        if not (name.startswith("grouped_") or name.endswith("_by_p_id")):
            continue
        raises = any(isinstance(n, ast.Raise) and n.exc is not None and "NotImplementedError" in ast.unparse(n.exc) for n in fd.body)
        params = [a.arg for a in fd.args.args]
        adm = {}
        for n in ast.walk(fd):
            if isinstance(n, ast.Call) and isinstance(n.func, ast.Name) and n.func.id in checks and n.args and isinstance(n.args[0], ast.Name):
                adm[n.args[0].id] = checks[n.func.id]
        out[name] = {"implemented": not raises, "admissible": adm, "params": params}
    if len(out) < 10:
        raise AnalysisError("aggregation_numpy no longer defines the grouped_*/…_by_p_id family")
    return out


def check(ctx):
    s = get_session(ctx.root)
    repo = s.repo
    dates = sample_dates(s, ctx.tier)
    ctx.assumptions += [
        "data columns = exactly the documented inputs (TYPES_INPUT_VARIABLES), targets = DEFAULT_TARGETS",
        "look-ups keyed by a data value (listed under information) are not decided beyond sibling agreement: the repository contains no domain specification of the data",
        "between two consecutive change dates nothing changes; first and last day of every interval are evaluated",
    ]
    # the per-date environments below are computed with a *model* of the parameter loader and of the function
    # selection; the anchors of that model (selectors, look-ups at other dates, alias shortcuts, activity test) are
    # re-read from the source here - a deviating loader makes the environment of some dates differ from the model
    from .c07 import order_domain

    ctx.assumptions.append("rules O1-O7 (shared with C07) tie the loader / selection code to the model the per-date environments are computed with")
    order_domain(ctx, repo)
    ctx.rule("K0", "the parameter environment of the date can be set up (every deviation_from / access_different_date / piecewise spec / derived parameter resolves)")
    ctx.rule("K1", "the sub-DAG reachable from the default targets is acyclic")
    ctx.rule("K2", "every default target exists and every leaf of the reachable sub-DAG is a documented input variable")
    ctx.rule("K3", "every parameter path a reachable rule (incl. inlined helpers, both branches of data-dependent tests) can read exists at that date and is not null where it is used in arithmetic")
    ctx.rule("K3s", "within one rule, all look-ups keyed by the same data-valued expression agree on the admissible key set (a table missing a key its siblings have is deviant)")
    ctx.rule("K3d", "a look-up keyed by a computed count (persons, children, ...) into a table with integer keys is limited to the largest key by a min(...) clamp or a dominating guard (interval domain)")
    ctx.rule("K4", "every reachable rule marked for rounding has params[key]['rounding'][name] with base and direction at that date")
    ctx.rule("K5", "no reachable rule raises unconditionally; every reachable pointer aggregate uses an implemented kind")
    ctx.rule("K6", "for every reachable aggregate the producer-side type of its source satisfies the dtype precondition the aggregation function enforces")
    aggimpl = implemented_agg_kinds(repo)
    res = analyse_dates(ctx.root, dates)
    dyn_listed = {}
    reach_rules = set()
    for d in dates:
        params, problems, _ = s.em.params(d)
        ctx.ob("K0", ok=not problems, distinct=str(d))
        for pr in problems:
            ctx.violation("K0", pr.split(" at ")[0], f"{d}", f"environment for {d} cannot be set up: {pr}")
        dag = s.dag(d)
        order, cycle = dag.reach()
        ctx.ob("K1", ok=cycle is None, distinct=str(d))
        if cycle:
            ctx.violation("K1", " -> ".join(cycle), f"{d}", f"dependency cycle at {d}: {' -> '.join(cycle)}")
        for nm, a, b in dag.dups:
            # two implementations of one column active at the same date (also C07/R1)
            if nm in order:
                ctx.violation("K2", f"dup|{nm}|{a.qual}|{b.qual}", b.where, f"column {nm} has two active implementations at {d}: {a.qual} and {b.qual}")
        # K2
        for t in dag.targets:
            ok = t in dag.nodes or t in dag.data
            ctx.ob("K2", ok=ok, distinct=("target", t))
            if not ok:
                ctx.violation("K2", f"target|{t}", f"{d}", f"default target {t} has no implementation at {d}")
        parents = {}
        for n in order:
            for a in dag.deps(n):
                parents.setdefault(a, n)
        for leaf in dag.leaves(order):
            ok = leaf in dag.data
            ctx.ob("K2", ok=ok, distinct=("leaf", leaf))
            if not ok and leaf in dag.nodes:
                continue
            if not ok:
                par = parents.get(leaf)
                pn = dag.nodes.get(par)
                where = pn.rule.where if pn is not None and pn.rule is not None else str(par)
                ctx.violation("K2", f"leaf|{leaf}|{par}", where, f"at {d} node {par} needs column {leaf}, which is neither computed nor a documented input variable")
        # per reachable node
        for n in order:
            node = dag.nodes.get(n)
            if node is None:
                continue
            if node.kind == "rule":
                r = node.rule
                reach_rules.add(r.qual)
                if r.rounding_key:
                    spec = params.get(r.rounding_key, {}).get("rounding", {}).get(n) if isinstance(params.get(r.rounding_key), dict) else None
                    ok = isinstance(spec, dict) and "base" in spec and "direction" in spec
                    ctx.ob("K4", ok=ok, distinct=(r.qual, r.rounding_key))
                    if not ok:
                        ctx.violation("K4", f"{r.qual}|{r.rounding_key}|{n}", r.where, f"at {d} rule {n} is marked for rounding with key {r.rounding_key!r} but params[{r.rounding_key!r}]['rounding'][{n!r}] is {'incomplete' if spec else 'missing'}")
                sm = res[d].get(r.qual)
                if sm is None:
                    if r.skip_vec or r.ret not in ("float", "int", "bool"):
                        ctx.skip("K3", r.qual, "whole-column / non-scalar rule: not interpreted")
                    continue
                if sm[0] != "ok":
                    ctx.skip("K3", f"{r.qual}@{d}", "analyser exception " + str(sm[1]))
                    continue
                _, ks, rets, evs, unhandled, notes = sm
                for kind, g in notes:
                    if kind == "params-group-missing":
                        ctx.ob("K3", ok=False, distinct=(r.qual, g))
                        ctx.violation("K3", f"{r.qual}|group {g}", r.where, f"at {d} rule {n} takes {g}_params but no parameter group {g!r} exists")
                bykey = collections.defaultdict(list)
                nreads = 0
                for e in evs:
                    if e[0] == "param-missing":
                        path, key, exc = e[3], e[4], e[5]
                        guards = e[-1]
                        ctx.ob("K3", ok=False, distinct=(r.qual, path))
                        gtxt = " under " + " and ".join(("" if p == "+" else "not ") + f"({t})" for p, t in guards) if guards else ""
                        ctx.violation(
                            "K3", f"{r.qual}|{path}|{key}", f"src/_gettsim/{e[2]}:{e[1]} {r.name}",
                            f"at {d} reachable rule {n} reads {path}, key {key} does not exist ({exc}){gtxt}",
                            date=str(d), guards=[list(x) for x in guards],
                        )
                    elif e[0] == "none-arith":
                        ctx.ob("K3", ok=False, distinct=(r.qual, e[3]))
                        ctx.violation("K3", f"{r.qual}|none|{e[3]}", f"src/_gettsim/{e[2]}:{e[1]} {r.name}", f"at {d} reachable rule {n} computes `{e[3]}` with a null parameter value (TypeError at run time)")
                    elif e[0] == "raise" and not e[-1]:
                        ctx.ob("K5", ok=False, distinct=(r.qual, "raise"))
                        ctx.violation("K5", f"{r.qual}|raise {e[3]}", f"src/_gettsim/{e[2]}:{e[1]} {r.name}", f"at {d} reachable rule {n} raises unconditionally: {e[3]}")
                    elif e[0] == "raise":
                        ctx.info(f"{r.qual}: data-dependent raise {e[3]} under {e[-1]}")
                    elif e[0] == "dyn-key":
                        keyexpr = e[6] if len(e) > 7 else "?"
                        bykey[keyexpr].append((e[3], e[4]))
                        dyn_listed[(r.qual, e[3])] = (e[4][0][:12] if e[4] else [], e[5])
                        # K3d: a key computed from counts / other rules (no input domain bounds it) must be
                        # bounded by a clamp or guard to the largest integer key of the table
                        if len(e) > 8 and isinstance(e[7], tuple) and len(e[7]) == 3:
                            klb, kub, kdeps = e[7]
                            computed = [a for a in kdeps if a in dag.nodes]
                            for ksx in e[4]:
                                ints = sorted(int(k) for k in ksx if k.lstrip("-").isdigit())
                                if not ints or not computed or "(get)" in str(keyexpr):
                                    continue
                                ok = kub is not None and kub <= ints[-1]
                                ctx.ob("K3d", ok=ok, distinct=(r.qual, e[3]))
                                if not ok:
                                    gtxt = " under " + " and ".join(("" if p == "+" else "not ") + f"({t})" for p, t in e[-1]) if e[-1] else ""
                                    ctx.violation("K3d", f"{r.qual}|{e[3]}|unbounded key", f"src/_gettsim/{e[2]}:{e[1]} {r.name}",
                                                  f"at {d} `{e[3]}` is keyed by `{keyexpr}`, computed from {computed} and not limited to the table's largest key {ints[-1]} by a min(...) clamp or a guard{gtxt}: a larger household / more children raise KeyError")
                    elif e[0] in ("unknown-call", "unknown-name", "unhandled-stmt", "depth-bound", "global-nonliteral"):
                        ctx.skip("K3", f"{r.qual}", f"{e[0]} {e[3]}")
                nreads += 1
                ctx.ob("K3", ok=True, distinct=r.qual)
                ctx.ob("K5", ok=True, distinct=r.qual)
                # K3s sibling agreement
                for keyexpr, lst in bykey.items():
                    sets = {}
                    for path, keysets in lst:
                        for ksx in keysets:
                            # compare only the numeric keys (string keys such as 'jede_weitere_person' are addressed by constants)
                            nums = frozenset(k for k in ksx if not k.startswith("'"))
                            if nums:
                                sets.setdefault(nums, []).append(path)
                    if len(sets) > 1:
                        allk = frozenset().union(*sets)
                        biggest = max(sets, key=len)
                        for ksx, paths in sets.items():
                            if ksx != biggest and ksx < biggest:
                                miss = sorted(biggest - ksx)
                                ctx.ob("K3s", ok=False, distinct=(r.qual, keyexpr))
                                ctx.violation(
                                    "K3s", f"{r.qual}|{keyexpr}|{paths[0]}|missing {','.join(miss)}", r.where,
                                    f"at {d} look-ups keyed by `{keyexpr}` disagree: {paths[0]} lacks key(s) {miss} that sibling table {sets[biggest][0]} has",
                                )
                    if lst:
                        ctx.ob("K3s", ok=True, distinct=(r.qual, keyexpr))
            elif node.kind in ("pid_agg", "grp_agg"):
                aggr = node.spec.get("aggr")
                fname = f"grouped_{aggr}" if node.kind == "grp_agg" else f"{aggr}_by_p_id"
                impl = aggimpl.get(fname)
                ok = impl is not None and impl["implemented"]
                ctx.ob("K5", ok=ok, distinct=(n, aggr))
                if not ok:
                    ctx.violation("K5", f"agg|{n}|{aggr}", f"spec {n}", f"at {d} reachable aggregate {n} uses kind {aggr!r}, whose numpy implementation {fname} is missing or a bare NotImplementedError")
                    continue
                if aggr != "count":
                    src = node.spec.get("source_col")
                    pk = s.producer_kind(dag, src)
                    colparam = impl["params"][0]
                    adm = impl["admissible"].get(colparam)
                    if pk and adm is not None:
                        ok = pk <= adm
                        ctx.ob("K6", ok=ok, distinct=(n, aggr))
                        if not ok:
                            ctx.violation("K6", f"{n}|{aggr}|{src}|{'/'.join(sorted(pk))}", f"spec {n}", f"at {d} aggregate {n} = {aggr}({src}) but {src} is produced as {sorted(pk)} and {fname} only admits {sorted(adm)} (TypeError at run time)")
                    else:
                        ctx.skip("K6", n, f"producer kind of {src} unknown")
                if node.kind == "pid_agg":
                    ptr = node.spec.get("p_id_to_aggregate_by")
                    pk = s.producer_kind(dag, ptr)
                    ok = pk == {"int"}
                    ctx.ob("K6", ok=ok, distinct=(n, "ptr"))
                    if not ok:
                        ctx.violation("K6", f"{n}|pointer {ptr}", f"spec {n}", f"at {d} pointer column {ptr} of aggregate {n} is not produced as int ({pk})")
    if ctx.tier == "thorough":
        # every calendar day of the supported window is covered by the sample of its interval
        from staticlib.session import env_fingerprint, parallel_map

        ctx.rule("K-day", "every calendar day from 2015-01-01 to the last parameter entry has the same environment fingerprint (parameters, rounding specs, active implementations) as the first day of its interval, so the per-interval verdicts K0-K6 hold on every day")
        iv = s.em.intervals(START)
        days, owner = [], {}
        for f, l in iv:
            d = f
            while d <= l:
                days.append(d)
                owner[d] = f
                d += datetime.timedelta(days=1)
        fps = parallel_map(ctx.root, env_fingerprint, days, chunksize=64)
        nbad = 0
        for d in days:
            ok = fps[d] == fps[owner[d]]
            ctx.ob("K-day", ok=ok, distinct=str(owner[d]))
            if not ok and nbad < 5:
                nbad += 1
                ctx.violation("K-day", f"{owner[d]}|{d}", str(d), f"the environment on {d} differs from the one on {owner[d]} although no declared change date lies between them; the per-interval analysis does not cover that day")
        ctx.extra_cov["calendar_days_fingerprinted"] = len(days)
    for (q, path), (keys, kk) in sorted(dyn_listed.items())[:80]:
        ctx.info(f"data-keyed look-up (not decided): {q}: {path} key kinds {kk} keys {keys}")
    ctx.extra_cov["dates"] = len(dates)
    ctx.extra_cov["first_date"] = str(dates[0])
    ctx.extra_cov["last_date"] = str(dates[-1])
    ctx.extra_cov["reachable_rules"] = len(reach_rules)
    ctx.extra_cov["data_keyed_lookups_listed"] = len(dyn_listed)
    ctx.sample({"date": str(dates[0]), "reachable_nodes": len(s.dag(dates[0]).reach()[0]), "leaves": s.dag(dates[0]).leaves(s.dag(dates[0]).reach()[0])[:8]})
    ctx.floor("K1", 30)
    ctx.floor("K2", 2000)
    ctx.floor("K3", 5000)
    ctx.floor("K4", 300)
    ctx.skip_budget("K3", 0.10)
