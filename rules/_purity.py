"""Rule purity (P): every policy function is a pure function of its arguments.
Deny-list style: only constructs that *are* effects / shared state / non-determinism are reported,
so a behaviour-preserving edit cannot trip the rule."""
from __future__ import annotations

import ast

from staticlib.effects import MUTATORS
from staticlib.srcmodel import walk_own

DENY_CALLS = {"open", "print", "input", "exec", "eval", "setattr", "delattr", "globals", "locals", "__import__", "compile", "breakpoint"}
DENY_PREFIX = ("random.", "numpy.random.", "np.random.", "time.", "os.", "sys.", "yaml.", "importlib.", "subprocess.",
               "uuid.", "secrets.", "socket.", "pathlib.", "shutil.", "tempfile.", "pickle.", "warnings.")
DENY_EXACT = {"datetime.datetime.now", "datetime.datetime.today", "datetime.date.today", "datetime.now", "datetime.today",
              "date.today", "datetime.datetime.utcnow", "pd.Timestamp.now", "pandas.Timestamp.now", "numpy.datetime64('now')"}
FRESH_CTORS = {"list", "dict", "set", "sorted", "tuple", "zip", "range", "enumerate", "iter"}


def purity_findings(repo, rule):
    """yields (rule_id, key_suffix, lineno, message) for one srcmodel.Rule"""
    fd = rule.node
    mod = rule.mod
    params = set(rule.argnames)
    # local names bound to fresh containers
    fresh_locals, derived = set(), {}
    for n in walk_own(fd):
        if isinstance(n, ast.Assign) and len(n.targets) == 1 and isinstance(n.targets[0], ast.Name):
            v = n.value
            if isinstance(v, (ast.List, ast.Dict, ast.Set, ast.ListComp, ast.DictComp, ast.SetComp)) or (
                isinstance(v, ast.Call) and isinstance(v.func, ast.Name) and v.func.id in FRESH_CTORS
            ) or (isinstance(v, ast.Call) and ast.unparse(v.func) in ("numpy.array", "np.array", "numpy.zeros", "numpy.asarray", "copy.deepcopy", "copy.copy")):
                fresh_locals.add(n.targets[0].id)
            else:
                derived[n.targets[0].id] = v

    def root(e, depth=0):
        """name at the root of an access path, following local aliases"""
        while isinstance(e, (ast.Subscript, ast.Attribute)):
            e = e.value
        if isinstance(e, ast.Call) and isinstance(e.func, ast.Attribute) and e.func.attr in ("get", "values", "items", "keys"):
            return root(e.func.value, depth)
        if isinstance(e, ast.Name):
            if e.id in derived and e.id not in params and depth < 6 and e.id not in fresh_locals:
                return root(derived[e.id], depth + 1)
            return e.id
        return None

    def classify(name):
        if name is None:
            return None
        if name in fresh_locals:
            return None
        if name in params:
            return "params argument" if name.endswith("_params") else "argument"
        if name in mod.assigns or name in mod.imports or name in mod.plain_imports:
            return "module-level binding"
        return None

    for n in walk_own(fd):
        if isinstance(n, (ast.Global, ast.Nonlocal)):
            yield "P-state", f"{type(n).__name__.lower()} {','.join(n.names)}", n.lineno, f"`{ast.unparse(n)}` gives the rule access to state that outlives the call"
        elif isinstance(n, (ast.Import, ast.ImportFrom)):
            yield "P-state", "import in rule body", n.lineno, f"`{ast.unparse(n)}` inside a rule body"
        elif isinstance(n, (ast.Assign, ast.AugAssign, ast.AnnAssign, ast.Delete)):
            ts = n.targets if isinstance(n, (ast.Assign, ast.Delete)) else [n.target]
            for t in ts:
                for tt in (t.elts if isinstance(t, (ast.Tuple, ast.List)) else [t]):
                    if isinstance(tt, (ast.Subscript, ast.Attribute)):
                        what = classify(root(tt))
                        if what:
                            yield ("P-params" if what == "params argument" else "P-write"), f"store {ast.unparse(tt)}", n.lineno, f"`{ast.unparse(n)[:80]}` writes into a {what} ({root(tt)})"
        elif isinstance(n, ast.Call):
            f = n.func
            txt = ast.unparse(f)
            if isinstance(f, ast.Attribute) and f.attr in MUTATORS:
                what = classify(root(f.value))
                if what:
                    yield ("P-params" if what == "params argument" else "P-write"), f"call {ast.unparse(f)}", n.lineno, f"`{ast.unparse(n)[:80]}` mutates a {what} ({root(f.value)})"
            if isinstance(f, ast.Name) and f.id in DENY_CALLS and f.id not in params:
                yield "P-effect", f"call {f.id}", n.lineno, f"`{ast.unparse(n)[:80]}`: effectful builtin inside a rule"
            if txt in DENY_EXACT or txt.startswith(DENY_PREFIX):
                head = txt.split(".")[0]
                if head not in params and head not in fresh_locals:
                    yield "P-effect", f"call {txt}", n.lineno, f"`{ast.unparse(n)[:80]}`: environment / clock / randomness / file access inside a rule"
        elif isinstance(n, ast.Name) and isinstance(n.ctx, ast.Load):
            if n.id in mod.assigns and n.id not in params and n.id in written_globals(mod):
                yield "P-shared", f"read {n.id}", n.lineno, f"rule reads the module-level binding {n.id}, which some function of the module writes"


_WG = {}


def written_globals(mod):
    """module-level names that some function of the module stores into / mutates / declares global"""
    if mod.rel in _WG:
        return _WG[mod.rel]
    out = set()
    for fd in mod.functions.values():
        local = {a.arg for a in fd.args.args}
        for n in ast.walk(fd):
            if isinstance(n, ast.Assign):
                for t in n.targets:
                    if isinstance(t, ast.Name):
                        local.add(t.id)
        for n in ast.walk(fd):
            if isinstance(n, ast.Global):
                out |= set(n.names)
            tgt = None
            if isinstance(n, (ast.Assign, ast.AugAssign, ast.Delete)):
                ts = n.targets if isinstance(n, (ast.Assign, ast.Delete)) else [n.target]
                for t in ts:
                    if isinstance(t, (ast.Subscript, ast.Attribute)):
                        tgt = t
            if isinstance(n, ast.Call) and isinstance(n.func, ast.Attribute) and n.func.attr in MUTATORS:
                tgt = n.func.value
            while isinstance(tgt, (ast.Subscript, ast.Attribute)):
                tgt = tgt.value
            if isinstance(tgt, ast.Name) and tgt.id in mod.assigns and tgt.id not in local:
                out.add(tgt.id)
    _WG[mod.rel] = out
    return out
