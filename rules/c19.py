"""C19 - social-insurance contributions follow the statutory shape in the wage (partial, tier 2).

Dependence analysis on the static DAG of every interval since 2015 for the four employee
contribution targets, with the regime columns bound to a scenario:
M0 marginal employment: the contribution has no value- or control-dependence on the gross wage.
M1 regular employment: every value-flow path from the gross wage to the contribution passes
   through a rule that returns min(wage, ceiling) with a ceiling that does not depend on the wage
   ("constant above the ceiling")."""
from __future__ import annotations

import datetime

from staticlib.absint import Abs, Conc, ctrl_deps, value_deps
from staticlib.common import AnalysisError
from staticlib.session import get_session

TARGETS = ["ges_rentenv_beitr_arbeitnehmer_m", "arbeitsl_v_beitr_arbeitnehmer_m", "ges_krankenv_beitr_arbeitnehmer_m", "ges_pflegev_beitr_arbeitnehmer_m"]
WAGE = "bruttolohn_m"
MARGINAL = {"geringfügig_beschäftigt": True, "in_gleitzone": False, "regulär_beschäftigt": False, "selbstständig": False, "rentner": False}
REGULAR = {"geringfügig_beschäftigt": False, "in_gleitzone": False, "regulär_beschäftigt": True, "selbstständig": False, "rentner": False}
NONE, CAPPED, UNCAPPED = 0, 1, 2


class Flow:
    def __init__(self, s, dag, d, scenario):
        self.s, self.dag, self.d = s, dag, d
        self.scen = {k: Conc(v) for k, v in scenario.items()}
        self.memo = {}
        self.why = {}

    def node(self, n, stack=()):
        """(value-flow class of the wage into n, any dependence of n on the wage)"""
        if n in self.memo:
            return self.memo[n]
        if n in stack:
            return (NONE, False)
        if n in self.scen:
            return (NONE, False)
        if n == WAGE:
            return (UNCAPPED, True)
        node = self.dag.nodes.get(n)
        if node is None:
            return (NONE, False)  # other input columns
        st = (*stack, n)
        if node.kind in ("time", "grp_agg", "pid_agg"):
            src = node.args[0] if node.kind == "time" else node.spec.get("source_col")
            r = self.node(src, st) if src else (NONE, False)
            if node.kind != "time":
                # the pointer / group id decides which rows are combined
                anyd = r[1] or any(self.node(a, st)[1] for a in node.args[1:])
                r = (r[0], anyd)
        elif node.kind == "grouping":
            r = (NONE, any(self.node(a, st)[1] for a in node.args))
        elif node.kind == "rule":
            rule = node.rule
            if not self.s.is_scalar_rule(rule):
                anyd = any(self.node(a, st)[1] for a in rule.data_args)
                r = (UNCAPPED if anyd else NONE, anyd)
            else:
                rr = self.s.analyse_rule(rule, self.d, arg_overrides=self.scen)
                res = rr.res
                vd = {a for a in value_deps(res)}
                cd = set(ctrl_deps(res))
                for v, g, _ in rr.rets:
                    cd |= set(ctrl_deps(v, g))
                    vd |= set(value_deps(v))
                cap = None
                if len(rr.rets) == 1 and isinstance(rr.rets[0][0], Abs) and rr.rets[0][0].cap:
                    cap = rr.rets[0][0].cap
                cls = NONE
                capped_by = None
                if cap and cap[0] == "min":
                    for sym, odeps in cap[1]:
                        if self.node(sym, st)[0] != NONE and not any(self.node(o.removeprefix("ctrl:"), st)[1] for o in odeps):
                            capped_by = sym
                if capped_by:
                    cls = CAPPED
                    self.why[n] = f"min({capped_by}, ceiling)"
                else:
                    for a in vd:
                        c = self.node(a, st)[0]
                        if c > cls:
                            cls = c
                            self.why[n] = a
                anyd = cls != NONE or any(self.node(a, st)[1] for a in vd | cd)
                r = (cls, anyd)
        else:
            r = (NONE, False)
        self.memo[n] = r
        return r

    def path(self, n, limit=12):
        out = [n]
        while n in self.why and len(out) < limit:
            nxt = self.why[n]
            out.append(nxt)
            if nxt.startswith("min("):
                break
            n = nxt
        return out


def check(ctx):
    s = get_session(ctx.root)
    ctx.assumptions += [
        "the wage sweep of the property is over employees: the regime columns are bound to a scenario (marginal / regular; not self-employed, not a pensioner)",
        "monotonicity, the kink at the upper zone boundary and employee + employer = total are not decided",
    ]
    ctx.rule("M0", "marginal employment: no employee contribution target depends (by value or control) on the gross wage")
    ctx.rule("M1", "regular employment: the gross wage reaches each employee contribution by value only through a rule returning min(wage, ceiling) whose ceiling does not depend on the wage")
    start = datetime.date(2015, 1, 1)
    iv = s.em.intervals(start)
    dates = sorted({f for f, _ in iv} | ({l for _, l in iv} if ctx.tier == "thorough" else set()))
    for d in dates:
        dag = s.dag(d)
        for t in TARGETS:
            if t not in dag.nodes:
                raise AnalysisError(f"target {t} vanished at {d}")
        missing = [k for k in REGULAR if k not in dag.nodes and k not in dag.data]
        if missing:
            raise AnalysisError(f"scenario columns {missing} do not exist at {d}")
        f0 = Flow(s, dag, d, MARGINAL)
        f1 = Flow(s, dag, d, REGULAR)
        for t in TARGETS:
            cls, anyd = f0.node(t)
            ok = not anyd
            ctx.ob("M0", ok=ok, distinct=(t, _impl(dag, t)))
            if not ok:
                r = dag.nodes[t].rule
                ctx.violation("M0", f"{t}|{_impl(dag, t)}|{'>'.join(f0.path(t))}", r.where, f"at {d} with marginal employment {t} still depends on the gross wage (via {' <- '.join(f0.path(t))}): the contribution is not zero/constant for mini-jobs")
            cls, anyd = f1.node(t)
            ok = cls != UNCAPPED
            ctx.ob("M1", ok=ok, distinct=(t, _impl(dag, t)))
            if not ok:
                r = dag.nodes[t].rule
                ctx.violation("M1", f"{t}|{'>'.join(f1.path(t))}", r.where, f"at {d} in regular employment the gross wage reaches {t} without passing a min(wage, ceiling) rule: {' <- '.join(f1.path(t))}; the contribution is not constant above the assessment ceiling")
            elif len(ctx.samples) < 6:
                ctx.sample({"target": t, "date": str(d), "regular: wage enters through": f1.path(t)})
    regime_cover(ctx, s, dates)
    sibling_paths(ctx, s, dates)
    both_regions(ctx, s, dates)
    shares_sum(ctx, s, dates)
    linear_shape(ctx, s, dates)
    from ._siblings import capped_multiplier_findings

    ctx.rule("S-cap", "the regular and the transition-zone copy of a contribution formula scale a rate parameter by the identical capped expression (otherwise the two regimes do not meet at the zone boundary)")
    seen = set()
    for key, where, msg in capped_multiplier_findings(s.repo, active=lambda r: "social_insurance_contributions" in r.mod.rel):
        if key == "__count__":
            ctx.ob("S-cap", ok=True, distinct="groups", n=max(msg, 1))
            continue
        if key not in seen:
            seen.add(key)
            ctx.ob("S-cap", ok=False, distinct=key)
            ctx.violation("S-cap", key, where, msg)
    ctx.extra_cov["dates"] = len(dates)
    ctx.floor("M0", 4 * 30)
    ctx.floor("M1", 4 * 30)


def _impl(dag, t):
    n = dag.nodes.get(t)
    return n.rule.qual if n is not None and n.rule is not None else t


REGIMES = ["geringfügig_beschäftigt", "in_gleitzone", "regulär_beschäftigt"]


def regime_cover(ctx, s, dates):
    """R-cover: the scenario analysis above binds the three regime columns; this rule discharges its premise
    that the regimes leave no gap on the wage axis - decided on every weak ordering of the wage and the
    threshold terms the three predicates compare it with (finite order domain, no numbers)."""
    import ast

    from staticlib.ordersem import NotExpressible, Subst, evaluate, function_as_expression, weak_orderings

    ctx.rule("R-cover", "for every ordering of the gross wage relative to the regime thresholds at least one of marginal / transition-zone / regular employment holds (no wage falls between the regimes)")
    done = {}
    for d in dates:
        dag = s.dag(d)
        rules = []
        for nme in REGIMES:
            node = dag.nodes.get(nme)
            if node is None or node.kind != "rule":
                rules = None
                break
            rules.append(node.rule)
        if rules is None:
            continue  # a regime column is an input at this date: nothing to decide
        key = tuple(r.qual for r in rules)
        if key in done:
            ctx.ob("R-cover", ok=done[key], distinct=(key, str(d)))
            continue
        exprs = {}
        try:
            for nme, r in zip(REGIMES, rules):
                exprs[nme] = function_as_expression(r.node)
        except NotExpressible as e:
            raise AnalysisError(f"regime predicate {r.qual} is not an expression over comparisons ({e}); R-cover needs a re-read") from e

        class Inline(ast.NodeTransformer):
            def visit_Name(self, n):
                if n.id in exprs and isinstance(n.ctx, ast.Load):
                    return Inline().visit(ast.parse(ast.unparse(exprs[n.id]), mode="eval").body)
                return n

        syms = {}

        def mapper(node):
            if isinstance(node, ast.Name) and node.id == WAGE:
                return "W"
            if isinstance(node, (ast.BoolOp, ast.UnaryOp, ast.Compare, ast.IfExp)) or (isinstance(node, ast.Constant) and isinstance(node.value, bool)):
                return None
            if isinstance(node, (ast.Name, ast.Subscript, ast.Attribute, ast.Call, ast.BinOp, ast.Constant)):
                if any(isinstance(x, ast.Name) and x.id == WAGE for x in ast.walk(node)):
                    raise AnalysisError(f"regime predicate compares an expression of the wage: `{ast.unparse(node)}`; R-cover needs a re-read")
                return syms.setdefault(ast.unparse(node), f"T{len(syms)}")
            return None

        cover = ast.BoolOp(op=ast.Or(), values=[Subst(mapper).visit(Inline().visit(ast.parse(ast.unparse(exprs[n]), mode="eval").body)) for n in REGIMES])
        names = ["W", *syms.values()]
        if len(names) > 5:
            raise AnalysisError(f"regime predicates compare the wage with {len(syms)} different terms; R-cover needs a re-read")
        # numeric order of the threshold terms where it is known from the parameters (else unconstrained)
        vals = {}
        params, _, _ = s.em.params(d)
        for txt, sym in syms.items():
            v = None
            node = ast.parse(txt, mode="eval").body
            if isinstance(node, ast.Name):
                pv = s.params_only_value(dag, node.id)
                if isinstance(pv, Conc) and isinstance(pv.v, (int, float)):
                    v = pv.v
            else:
                try:
                    v = eval(compile(ast.Expression(node), "<param path>", "eval"), {"__builtins__": {}}, {k + "_params": v_ for k, v_ in params.items()})  # noqa: S307 - constant subscript path into the parameter model
                    if not isinstance(v, (int, float)):
                        v = None
                except Exception:  # noqa: BLE001
                    v = None
            if v is not None:
                vals[sym] = v
        n = 0
        bad = None
        try:
            for ranks in weak_orderings(len(names)):
                env = dict(zip(names, ranks))
                ks = list(vals)
                if any((vals[a] < vals[b]) != (env[a] < env[b]) or (vals[a] == vals[b]) != (env[a] == env[b]) for a in ks for b in ks):
                    continue
                n += 1
                if not evaluate(cover, env) and bad is None:
                    bad = env
        except ValueError as e:
            raise AnalysisError(f"regime predicates are not pure order predicates ({e}); R-cover needs a re-read") from e
        done[key] = bad is None
        ctx.ob("R-cover", ok=bad is None, distinct=(key, str(d)), n=max(n, 1))
        if len(ctx.samples) < 8:
            ctx.sample({"rule": "R-cover", "date": str(d), "terms": {v_: k for k, v_ in syms.items()}, "orderings": n, "cover": ast.unparse(cover)[:200]})
        if bad is not None:
            inv = {v_: k for k, v_ in syms.items()}
            order = sorted(names, key=lambda a: bad[a])
            desc = " ".join((("= " if i and bad[order[i]] == bad[order[i - 1]] else ("< " if i else "")) + ("wage" if a == "W" else inv[a])) for i, a in enumerate(order))
            r = rules[2]
            ctx.violation("R-cover", "|".join(key), r.where, f"at {d} a wage with `{desc}` is neither geringfügig_beschäftigt nor in_gleitzone nor regulär_beschäftigt: rules keyed on regulär_beschäftigt (the health / care assessment base) treat it as no employment at all - contributions drop at exactly that wage")
    ctx.floor("R-cover", 20)


# --------------------------------------------------------------------------- sibling agreement of the two regimes
REGION_ONLY_REGULAR = {"wohnort_ost": "the east/west assessment ceiling only matters above the ceiling, far beyond the transition zone's upper limit"}


def _param_paths(fnnode):
    import ast

    out = set()

    def chain(e):
        keys, b = [], e
        while isinstance(b, ast.Subscript) and isinstance(b.slice, ast.Constant):
            keys.append(str(b.slice.value))
            b = b.value
        return b, list(reversed(keys))

    # locals bound once to a parameter sub-dict (`params = x_params["a"]["b"]`) are prefixes
    alias, cnt = {}, {}
    for st in ast.walk(fnnode):
        if isinstance(st, ast.Assign) and len(st.targets) == 1 and isinstance(st.targets[0], ast.Name):
            cnt[st.targets[0].id] = cnt.get(st.targets[0].id, 0) + 1
            b, keys = chain(st.value)
            if isinstance(b, ast.Name) and b.id.endswith("_params") and isinstance(st.value, ast.Subscript):
                alias[st.targets[0].id] = b.id + "/" + "/".join(keys)
    alias = {k: v for k, v in alias.items() if cnt[k] == 1}
    for e in ast.walk(fnnode):
        if isinstance(e, ast.Subscript):
            b, keys = chain(e)
            if isinstance(b, ast.Name) and b.id.endswith("_params") and keys:
                out.add(b.id + "/" + "/".join(keys))
            elif isinstance(b, ast.Name) and b.id in alias and keys:
                out.add(alias[b.id] + "/" + "/".join(keys))
    return {p for p in out if not any(q != p and q.startswith(p + "/") for q in out)}


def _closure(dag, roots):
    seen, params, inputs = set(), set(), set()
    todo = list(roots)
    while todo:
        n = todo.pop()
        if n in seen:
            continue
        seen.add(n)
        node = dag.nodes.get(n)
        if node is None:
            inputs.add(n)
        elif node.kind == "rule":
            params |= _param_paths(node.rule.node)
            todo += [a for a in node.rule.argnames if not a.endswith("_params")]
        else:
            todo += list(node.args or [])
            if node.spec and node.spec.get("source_col"):
                todo.append(node.spec["source_col"])
    return params, inputs


def sibling_paths(ctx, s, dates):
    """S-par: the employee contribution selects between the transition-zone formula (under in_gleitzone) and the
    regular one.  For the two to meet at the upper zone boundary they must be built from the same rates and the
    same personal characteristics: every rate parameter and every input column the regular branch reads
    (transitively) is also read by the transition-zone branch, at every date."""
    import ast

    from staticlib.ordersem import NotExpressible, function_as_expression

    ctx.rule("S-par", "at every date, every contribution-rate parameter and every input column that the regular-employment branch of an employee contribution depends on is also read by its transition-zone branch (region of residence excepted)")
    seen = set()
    for d in dates:
        dag = s.dag(d)
        for t in TARGETS:
            r = dag.nodes[t].rule
            try:
                e = function_as_expression(r.node)
            except NotExpressible as ex:
                raise AnalysisError(f"{r.qual} is not an if/else selection of contribution formulas ({ex}); S-par needs a re-read") from ex
            br = {"mid": set(), "reg": set()}
            pp = {"mid": set(), "reg": set()}

            def leaf(x, k):
                if k in br:
                    br[k] |= {y.id for y in ast.walk(x) if isinstance(y, ast.Name) and y.id in r.argnames and not y.id.endswith("_params")}
                    pp[k] |= _param_paths(x)

            def walk(x, under_gleit=None):
                if isinstance(x, ast.IfExp):
                    tn = {y.id for y in ast.walk(x.test) if isinstance(y, ast.Name)}
                    neg = isinstance(x.test, ast.UnaryOp) and isinstance(x.test.op, ast.Not)
                    if tn == {"in_gleitzone"}:
                        a, b = (x.orelse, x.body) if neg else (x.body, x.orelse)
                        walk(a, True)
                        walk(b, False)
                    else:
                        walk(x.body, under_gleit)
                        walk(x.orelse, under_gleit)
                elif under_gleit is True:
                    leaf(x, "mid")
                elif under_gleit is False:
                    leaf(x, "reg")

            walk(e)
            if not br["mid"] and not pp["mid"]:
                continue  # no transition-zone branch at this date
            # constants such as 0.0 for marginal employment end up in 'reg' leaves without names: harmless
            # terms present in both branches (e.g. the pensioner's contribution) say nothing about the two formulas
            common = br["mid"] & br["reg"]
            pm, im = _closure(dag, br["mid"] - common)
            pr, ir = _closure(dag, br["reg"] - common)
            pm |= pp["mid"]
            pr |= pp["reg"]
            rates_missing = sorted(x for x in pr - pm if "/beitr_satz" in x)
            inputs_missing = sorted(x for x in ir - im if x not in REGION_ONLY_REGULAR)
            key = (r.qual, tuple(rates_missing), tuple(inputs_missing))
            ctx.ob("S-par", ok=not rates_missing and not inputs_missing, distinct=(r.qual, str(d)))
            if (rates_missing or inputs_missing) and key not in seen:
                seen.add(key)
                what = []
                if rates_missing:
                    what.append("the rate parameter(s) " + ", ".join(x.replace("/", ".") for x in rates_missing))
                if inputs_missing:
                    what.append("the input column(s) " + ", ".join(inputs_missing))
                ctx.violation("S-par", f"{r.qual}|{'+'.join(rates_missing + inputs_missing)}", r.where, f"at {d} the regular branch of {t} depends on {' and '.join(what)}, the transition-zone branch does not: the two formulas cannot meet at the upper zone boundary for persons for whom that matters (a step in the contribution at the boundary wage)")
    ctx.floor("S-par", 60)


def both_regions(ctx, s, dates):
    """OW: expected count zero.  A rule that reads the `west` value of a parameter whose `ost` value differs at that
    date (or the other way round) without reading the other side applies one region's ceiling / value to everybody."""
    import ast

    ctx.rule("OW", "a rule that reads the west (east) value of a parameter also reads the east (west) value whenever the two differ at that date")
    nrules = 0
    seen = set()
    for d in dates:
        dag = s.dag(d)
        params, _, _ = s.em.params(d)
        for n, node in dag.nodes.items():
            if node.kind != "rule":
                continue
            nrules += 1
            sides = {}
            for p in _param_paths(node.rule.node):
                parts = p.split("/")
                if parts[-1] in ("ost", "west"):
                    sides.setdefault(tuple(parts[:-1]), set()).add(parts[-1])
            for parent, ss in sides.items():
                if len(ss) == 2:
                    continue
                v = params.get(parent[0][: -len("_params")])
                try:
                    for k in parent[1:]:
                        v = v[k] if k in v else v[int(k)]
                    differ = isinstance(v, dict) and "ost" in v and "west" in v and v["ost"] != v["west"]
                except Exception:  # noqa: BLE001
                    differ = False
                if differ and (node.rule.qual, parent) not in seen:
                    seen.add((node.rule.qual, parent))
                    ctx.ob("OW", ok=False, distinct=(node.rule.qual, parent))
                    only = next(iter(ss))
                    ctx.violation("OW", f"{node.rule.qual}|{'/'.join(parent)}|{only}", node.rule.where, f"at {d} {node.rule.name} reads only the `{only}` value of {'.'.join(parent)} although east and west differ ({v['ost']} vs {v['west']}): the {'western' if only == 'west' else 'eastern'} value is applied to residents of both regions")
    ctx.ob("OW", ok=True, distinct="rules scanned", n=max(nrules, 1))


def shares_sum(ctx, s, dates):
    """S-sum: "within the transition zone employee and employer shares sum to the total contribution" holds by
    construction when, at every date, one of the two shares of a branch is *defined* as total - other share."""
    import ast

    from staticlib.ordersem import NotExpressible, function_as_expression

    ctx.rule("S-sum", "at every date and for each insurance branch one transition-zone share is defined as the branch's total minus the other share (the two shares add up to the total by construction)")
    branches = ["ges_rentenv", "arbeitsl_v", "ges_krankenv", "ges_pflegev"]
    seen = set()
    for d in dates:
        dag = s.dag(d)
        for b in branches:
            an, ag, tot = f"_{b}_beitr_midijob_arbeitnehmer_m", f"_{b}_beitr_midijob_arbeitgeber_m", f"_{b}_beitr_midijob_sum_arbeitnehmer_arbeitgeber_m"
            nodes = {k: dag.nodes.get(k) for k in (an, ag, tot)}
            if any(v is None or v.kind != "rule" for v in nodes.values()):
                if all(v is None for v in nodes.values()):
                    continue
                raise AnalysisError(f"S-sum: the transition-zone nodes of {b} at {d} are not three rules ({ {k: (v.kind if v else None) for k, v in nodes.items()} }); needs a re-read")
            ok = False
            for me, other in ((an, ag), (ag, an)):
                try:
                    e = function_as_expression(nodes[me].rule.node)
                except NotExpressible:
                    continue
                def is_res(x):
                    return isinstance(x, ast.BinOp) and isinstance(x.op, ast.Sub) and isinstance(x.left, ast.Name) and x.left.id == tot and isinstance(x.right, ast.Name) and x.right.id == other

                def shape(x):
                    # the residuum itself, or a selection between it and the constant 0 (outside the zone)
                    if is_res(x):
                        return True
                    if isinstance(x, ast.IfExp):
                        parts = [x.body, x.orelse]
                        return any(shape(p_) for p_ in parts) and all(shape(p_) or (isinstance(p_, ast.Constant) and p_.value in (0, 0.0)) for p_ in parts)
                    return False

                if shape(e):
                    ok = True
            ctx.ob("S-sum", ok=ok, distinct=(b, nodes[an].rule.qual, nodes[ag].rule.qual))
            key = (b, nodes[an].rule.qual, nodes[ag].rule.qual)
            if not ok and key not in seen:
                seen.add(key)
                ctx.violation("S-sum", f"{b}|{nodes[an].rule.name}|{nodes[ag].rule.name}", nodes[an].rule.where, f"at {d} neither {an} nor {ag} is `{tot} - <the other share>`: both shares are computed independently, nothing makes them add up to the total contribution in the transition zone")
    ctx.floor("S-sum", 8)


# --------------------------------------------------------------------------- L: linear forms in the wage, per regime
PERSON_SCENARIOS = [
    # (label, overrides of person-level inputs / nodes that select rates)
    ("west, childless adult", {"wohnort_ost": False, "ges_pflegev_hat_kinder": False, "ges_pflegev_zusatz_kinderlos": True, "ges_pflegev_anz_kinder_bis_24": 0, "alter": 40}),
    ("east, one child", {"wohnort_ost": True, "ges_pflegev_hat_kinder": True, "ges_pflegev_zusatz_kinderlos": False, "ges_pflegev_anz_kinder_bis_24": 1, "alter": 40}),
    ("west, three children", {"wohnort_ost": False, "ges_pflegev_hat_kinder": True, "ges_pflegev_zusatz_kinderlos": False, "ges_pflegev_anz_kinder_bis_24": 3, "alter": 40}),
    ("east, six children", {"wohnort_ost": True, "ges_pflegev_hat_kinder": True, "ges_pflegev_zusatz_kinderlos": False, "ges_pflegev_anz_kinder_bis_24": 6, "alter": 40}),
]


# an employee without other insured income (the wage sweep of the property varies the wage only)
NO_OTHER_INCOME = {"priv_rente_m": 0.0, "eink_selbst_m": 0.0, "eink_vermietung_m": 0.0, "kapitaleink_brutto_m": 0.0, "sonstig_eink_m": 0.0, "ges_rente_m": 0.0, "sum_ges_rente_priv_rente_m": 0.0}


class LinFlow:
    """value of a node as a linear form a * wage + b (or just 'non-decreasing in the wage') with the regime columns
    and the person's characteristics bound to a scenario; parameters are the concrete values of the date"""

    def __init__(self, s, dag, d, scen):
        self.s, self.dag, self.d = s, dag, d
        self.scen = {k: Conc(v) for k, v in {**NO_OTHER_INCOME, **scen}.items()}
        self.memo = {}

    def node(self, n, stack=()):
        if n in self.memo:
            return self.memo[n]
        if n in self.scen:
            return self.scen[n]
        if n == WAGE:
            return Abs({"float"}, deps={WAGE}, sym=WAGE, sign="nonneg", lin=(1.0, 0.0))
        if n in stack or len(stack) > 30:
            return None
        node = self.dag.nodes.get(n)
        out = None
        if node is None:
            out = None  # another input column: independent of the wage but unknown
        elif node.kind == "rule" and self.s.is_scalar_rule(node.rule):
            r = node.rule
            ov = dict(self.scen)
            for a in r.argnames:
                if a.endswith("_params") or a in ov:
                    continue
                v = self.node(a, (*stack, n))
                if v is not None:
                    ov[a] = v
            try:
                rr = self.s.analyse_rule(r, self.d, arg_overrides=ov)
                out = rr.res
            except Exception:  # noqa: BLE001
                out = None
        elif node.kind == "time":
            out = None
        self.memo[n] = out
        return out


def linear_shape(ctx, s, dates):
    """L1 / L2: with the regime bound, each employee contribution is a linear form a * w + b in the wage w (parameters
    are concrete at a date).  L1: a >= 0 inside the transition zone (non-decreasing); with regular employment the
    form is non-decreasing through the ceiling.  L2: the transition-zone form and the regular form take the same
    value at the upper zone boundary w = midijob limit (the reduced contributions meet the regular ones)."""
    from staticlib.absint import lin_of, mono_of

    ctx.rule("L1", "within the transition zone every employee contribution is a linear form a*w + b in the gross wage with a >= 0; with regular employment it is non-decreasing in the wage (linear below the ceiling, constant above)")
    ctx.rule("L2", "at the upper boundary of the transition zone the transition-zone form and the regular form of each employee contribution agree (to 0.005 EUR)")
    GLEIT = {"geringfügig_beschäftigt": False, "in_gleitzone": True, "regulär_beschäftigt": False, "selbstständig": False, "rentner": False}
    seen = set()
    for d in dates:
        dag = s.dag(d)
        params, _, _ = s.em.params(d)
        try:
            upper = float(params["sozialv_beitr"]["geringfügige_eink_grenzen_m"]["midijob"])
        except Exception:  # noqa: BLE001
            raise AnalysisError(f"L2: upper transition-zone limit not found in the parameters at {d}") from None
        for label, person in (PERSON_SCENARIOS if ctx.tier == "thorough" else PERSON_SCENARIOS[:3]):
            fz = LinFlow(s, dag, d, {**GLEIT, **person})
            fr = LinFlow(s, dag, d, {**REGULAR, **person})
            for t in TARGETS:
                vz, vr = fz.node(t), fr.node(t)
                lz = lin_of(vz) if vz is not None else None
                key = (t, _impl(dag, t), label)
                if lz is None:
                    ctx.skip("L1", f"{t}@{d}|{label}", "transition-zone contribution is not a linear form in the wage for the interpreter")
                    continue
                ok = lz[0] >= -1e-12
                ctx.ob("L1", ok=ok, distinct=(key, str(d)))
                if not ok and ("L1", key) not in seen:
                    seen.add(("L1", key))
                    ctx.violation("L1", f"{t}|{_impl(dag, t)}|slope", dag.nodes[t].rule.where, f"at {d} ({label}) the transition-zone form of {t} is {lz[0]:.6f} * wage + {lz[1]:.4f}: it decreases with the wage")
                mr = mono_of(vr) if vr is not None else None
                if vr is None or mr is None:
                    ctx.skip("L1", f"{t}@{d}|{label}|regular", "regular contribution not recognised as non-decreasing in the wage")
                else:
                    ctx.ob("L1", ok=True, distinct=(key, str(d), "regular"))
                # value of the regular form at the boundary: below the ceiling the capped wage is the wage itself
                fb = LinFlow(s, dag, d, {**REGULAR, **person, WAGE: upper})
                vb = fb.node(t)
                lb_ = lin_of(vb) if vb is not None else None
                if lb_ is None or lb_[0] != 0:
                    ctx.skip("L2", f"{t}@{d}|{label}", "regular contribution at the zone boundary not a concrete amount for the interpreter")
                    continue
                at_zone = lz[0] * upper + lz[1]
                ok = abs(at_zone - lb_[1]) <= 0.005
                ctx.ob("L2", ok=ok, distinct=(key, str(d)))
                if not ok and ("L2", key) not in seen:
                    seen.add(("L2", key))
                    ctx.violation("L2", f"{t}|{_impl(dag, t)}|boundary", dag.nodes[t].rule.where, f"at {d} ({label}) the transition-zone form of {t} gives {at_zone:.4f} at the upper zone boundary {upper:g} but the regular contribution there is {lb_[1]:.4f}: the reduced contribution does not meet the regular one (a step of {lb_[1] - at_zone:+.4f} EUR at the boundary wage)")
    # L3: at the exact boundary wage the regime flags are what the predicates say (there both `in_gleitzone` and
    # `regulär_beschäftigt` hold); employee AND employer contributions computed with those flags equal the zone form
    ctx.rule("L3", "at the wage equal to the upper zone limit, with the regime flags computed by the predicates themselves, every employee and employer contribution equals its transition-zone form there (overlapping regime flags are not double counted)")
    EMPLOYER = [t.replace("arbeitnehmer", "arbeitgeber") for t in TARGETS]
    for d in dates:
        dag = s.dag(d)
        params, _, _ = s.em.params(d)
        upper = float(params["sozialv_beitr"]["geringfügige_eink_grenzen_m"]["midijob"])
        label, person = PERSON_SCENARIOS[0]
        fz = LinFlow(s, dag, d, {**GLEIT, **person})
        fb = LinFlow(s, dag, d, {"selbstständig": False, "rentner": False, **person, WAGE: upper})
        for t in [*TARGETS, *EMPLOYER]:
            if t not in dag.nodes:
                continue
            vz, vb = fz.node(t), fb.node(t)
            lz, lb_ = (lin_of(vz) if vz is not None else None), (lin_of(vb) if vb is not None else None)
            if lz is None or lb_ is None or lb_[0] != 0:
                ctx.skip("L3", f"{t}@{d}", "not a linear form / concrete amount for the interpreter")
                continue
            at_zone = lz[0] * upper + lz[1]
            ok = abs(at_zone - lb_[1]) <= 0.005
            key = (t, _impl(dag, t))
            ctx.ob("L3", ok=ok, distinct=(key, str(d)))
            if not ok and ("L3", key) not in seen:
                seen.add(("L3", key))
                ctx.violation("L3", f"{t}|{_impl(dag, t)}|boundary-flags", dag.nodes[t].rule.where, f"at {d} and a wage of exactly {upper:g} (where the predicates make the person both in_gleitzone and regulär_beschäftigt) {t} is {lb_[1]:.4f}, its transition-zone form gives {at_zone:.4f}: the two regimes are both applied / neither is (employee + employer no longer add up to the total at the boundary)")
