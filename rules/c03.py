"""C03 - each column value equals the scalar rule; dtype follows the declaration.
Decided: T1 (one numeric kind on every return path, at every date) + T2 (that kind is the declared
one) + P0 (every rule is evaluated through the row-wise wrapper).  Engine T (abstract interpreter),
argument kinds taken from the producing side of the static DAG."""
from ._typing import KindRun, file_kind_findings, input_type_gate, vectorize_mode


def check(ctx):
    ctx.assumptions += [
        "numpy.vectorize hands native Python scalars to the rule and, without otypes, types the whole column from the first row's result",
        "argument kinds come from the producer's declared type (T2 ties the declaration to what is returned)",
        "parameter leaf kinds are those PyYAML produces for the literal in force at the interval",
    ]
    s_mode, p0, where = vectorize_mode(__import__("staticlib.session", fromlist=["x"]).get_session(ctx.root).repo)
    ctx.rule("P0", "_vectorize_func wraps the function handed in with numpy.vectorize; the raw function is returned only under the skip_vectorization test; load_and_check_functions maps it over all loaded functions")
    ctx.ob("P0", ok=not p0, distinct="wrapper", n=3)
    for rid, loc, msg in p0:
        ctx.violation("P0", rid, loc, msg)
    input_type_gate(ctx, __import__("staticlib.session", fromlist=["x"]).get_session(ctx.root).repo)
    kr = KindRun(ctx)
    ctx.info(f"vectorize mode: {s_mode} ({where}); {len(kr.dates)} interval sample dates {kr.dates[0]}..{kr.dates[-1]}")
    if s_mode == "first-row":
        file_kind_findings(
            ctx, kr, "T1/T2",
            lambda r, union, mixed, ks: union != {r.ret},
            "every return path of every scalar rule yields exactly the declared numeric kind at every date "
            "(without otypes the column dtype is that of the first row's result)",
        )
    else:
        from ._typing import WIDTH

        file_kind_findings(
            ctx, kr, "T1/T2",
            lambda r, union, mixed, ks: any(WIDTH[k] > WIDTH[r.ret] for k in union),
            "otypes pins the column to the declared type: no return path may yield a kind wider than declared",
        )
    for d, q, why in kr.crashes:
        ctx.skip("T1/T2", f"{q}@{d}", "analyser exception " + why)
    ctx.floor("T1/T2", 250)
    ctx.skip_budget("T1/T2", 0.15)
    ctx.extra_cov["intervals"] = len(kr.dates)
    ctx.extra_cov["exhaustive"] = True
